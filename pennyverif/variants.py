"""Seeded single-edit variants (E8).  Each entry: property, name, kind (fire|silent), edits
[(relpath, old, new)], expect (rule id, substring of construct/statement/message)."""

VARIANTS = []


def fire(prop, name, edits, rule, construct):
    if isinstance(edits, tuple):
        edits = [edits]
    VARIANTS.append({"property": prop, "name": name, "kind": "fire", "edits": edits, "expect": (rule, construct)})


def silent(prop, name, edits):
    if isinstance(edits, tuple):
        edits = [edits]
    VARIANTS.append({"property": prop, "name": name, "kind": "silent", "edits": edits, "expect": None})


# ------------------------------------------------------------------------------------------ C66
DR = "pennylane/decomposition/decomposition_rule.py"
fire("C66", "add_decomps-writes-private-registry",
     (DR, "    _decompositions_var.get()[to_name(op_type)].extend(decomps)",
          "    _decompositions_private[to_name(op_type)].extend(decomps)"),
     "R-C66-var", "add_decomps")
fire("C66", "drop-reset-of-fixed-decomps",
     (DR, "        _decompositions_var.reset(token_all_decomps)\n        _fixed_decomps_var.reset(token_fixed_decomps)",
          "        _decompositions_var.reset(token_all_decomps)"),
     "R-C66-scope", "local_decomps")
fire("C66", "reset-outside-finally",
     (DR, "    try:\n        yield\n    finally:\n        _decompositions_var.reset(token_all_decomps)\n        _fixed_decomps_var.reset(token_fixed_decomps)",
          "    yield\n    _decompositions_var.reset(token_all_decomps)\n    _fixed_decomps_var.reset(token_fixed_decomps)"),
     "R-C66-scope", "local_decomps")
fire("C66", "set-live-registry",
     (DR, "    token_all_decomps = _decompositions_var.set(_new_decomps)",
          "    token_all_decomps = _decompositions_var.set(_decompositions_var.get())"),
     "R-C66-copy", "local_decomps")
fire("C66", "shallow-copy-shares-collections",
     (DR, "    current_decomps = {k: v.copy() for k, v in _decompositions_var.get().items()}",
          "    current_decomps = _decompositions_var.get().copy()"),
     "R-C66-copy", "local_decomps")
fire("C66", "list_decomps-returns-reference",
     (DR, "    return _decompositions_var.get()[to_name(op)].copy()",
          "    return _decompositions_var.get()[to_name(op)]"),
     "R-C66-copy", "list_decomps")
fire("C66", "raising-call-between-sets",
     (DR, "    _new_fixed_decomps = _fixed_decomps_var.get().copy()",
          "    _new_fixed_decomps = dict(sorted(_fixed_decomps_var.get().items()))"),
     "R-C66-scope", "local_decomps")
silent("C66", "rename-locals",
       [(DR, "    _new_fixed_decomps = _fixed_decomps_var.get().copy()\n    token_fixed_decomps = _fixed_decomps_var.set(_new_fixed_decomps)",
             "    fixed_copy = _fixed_decomps_var.get().copy()\n    token_fixed_decomps = _fixed_decomps_var.set(fixed_copy)")])
silent("C66", "sets-inside-try",
       [(DR, "    token_fixed_decomps = _fixed_decomps_var.set(_new_fixed_decomps)\n\n    try:\n        yield\n    finally:\n        _decompositions_var.reset(token_all_decomps)\n        _fixed_decomps_var.reset(token_fixed_decomps)",
             "    token_fixed_decomps = _fixed_decomps_var.set(_new_fixed_decomps)\n\n    try:\n        yield\n    finally:\n        _fixed_decomps_var.reset(token_fixed_decomps)\n        _decompositions_var.reset(token_all_decomps)")])

# ------------------------------------------------------------------------------------------ C41
Q = "pennylane/core/queuing.py"
TAPE = "pennylane/tape/tape.py"
fire("C41", "tape-exit-pop-after-process-queue",
     (TAPE, "        QueuingManager.remove_active_queue()\n        QuantumTape._lock.release()\n        self._process_queue()",
            "        self._process_queue()\n        QueuingManager.remove_active_queue()\n        QuantumTape._lock.release()"),
     "R-C41-stack", "QuantumTape.__exit__")
fire("C41", "tape-enter-raising-call-after-push",
     (TAPE, "        QueuingManager.append(self)\n        QueuingManager.add_active_queue(self)\n        return self",
            "        QueuingManager.add_active_queue(self)\n        QueuingManager.append(self)\n        return self"),
     "R-C41-stack", "QuantumTape.__enter__")
fire("C41", "push-from-plain-method",
     (Q, "    def append(self, obj, **kwargs):\n        \"\"\"Append ``obj`` into the queue with ``kwargs`` metadata.\"\"\"",
         "    def start(self):\n        QueuingManager.add_active_queue(self)\n\n    def append(self, obj, **kwargs):\n        \"\"\"Append ``obj`` into the queue with ``kwargs`` metadata.\"\"\""),
     "R-C41-stack", "AnnotatedQueue.start")
fire("C41", "stop_recording-restore-outside-finally",
     (Q, "        try:\n            yield\n        finally:\n            cls._active_contexts = previously_active_contexts",
         "        yield\n        cls._active_contexts = previously_active_contexts"),
     "R-C41-stack", "stop_recording")
fire("C41", "stop_recording-keeps-outer-contexts",
     (Q, "        cls._active_contexts = []\n        try:", "        cls._active_contexts = previously_active_contexts[:-1]\n        try:"),
     "R-C41-inner", "stop_recording")
fire("C41", "active-context-bottom-of-stack",
     (Q, "return cls._active_contexts[-1] if cls.recording() else None", "return cls._active_contexts[0] if cls.recording() else None"),
     "R-C41-inner", "active_context")
fire("C41", "external-stack-write",
     (TAPE, "        self._process_queue()\n        self._trainable_params = None",
            "        self._process_queue()\n        QueuingManager._active_contexts.clear()\n        self._trainable_params = None"),
     "R-C41-stack", "QuantumTape.__exit__")
fire("C41", "symbolicop-queue-keeps-base",
     ("pennylane/ops/op_math/symbolicop.py", "        context.remove(self.base)\n        context.append(self)", "        context.append(self)"),
     "R-C41-own", "SymbolicOp")
fire("C41", "qubitization-queue-keeps-hamiltonian",
     ("pennylane/templates/subroutines/qubitization.py", "        context.remove(self.hyperparameters[\"hamiltonian\"])\n", ""),
     "R-C41-own", "Qubitization")
fire("C41", "select-init-keeps-ops",
     ("pennylane/templates/subroutines/select.py", "        for op in ops:\n            QueuingManager.remove(op)\n", ""),
     "R-C41-own", "Select")
fire("C41", "qsvt-queue-keeps-projectors",
     ("pennylane/templates/subroutines/qsvt.py", "        for op in self._hyperparameters[\"projectors\"]:\n            context.remove(op)\n", ""),
     "R-C41-own", "QSVT")
fire("C41", "composite-queue-appends-twice",
     ("pennylane/ops/op_math/composite.py", "                context.remove(op)\n            context.append(self)\n",
      "                context.remove(op)\n            context.append(self)\n        context.append(self)\n"),
     "R-C41-own", "CompositeOp.queue")
fire("C41", "operator-queue-conditional-append",
     ("pennylane/core/operator/base.py", "        context.append(self)\n        return self  # so pre-constructed Observable instances can be queued and returned in a single statement",
      "        if self.wires:\n            context.append(self)\n        return self  # so pre-constructed Observable instances can be queued and returned in a single statement"),
     "R-C41-own", "Operator.queue")
fire("C41", "apply-queues-original",
     (Q, "    with QueuingManager.stop_recording():\n        op = copy.copy(op)\n", ""),
     "R-C41-apply", "apply")
silent("C41", "symbolicop-queue-append-then-remove",
       [("pennylane/ops/op_math/symbolicop.py", "        context.remove(self.base)\n        context.append(self)", "        context.append(self)\n        context.remove(self.base)")])
silent("C41", "tape-exit-release-lock-first",
       [(TAPE, "        QueuingManager.remove_active_queue()\n        QuantumTape._lock.release()\n        self._process_queue()",
               "        QuantumTape._lock.release()\n        QueuingManager.remove_active_queue()\n        self._process_queue()")])
silent("C41", "qsvt-queue-single-loop",
       [("pennylane/templates/subroutines/qsvt.py", "        context.remove(self._hyperparameters[\"UA\"])\n        for op in self._hyperparameters[\"projectors\"]:\n            context.remove(op)\n",
         "        for op in [self._hyperparameters[\"UA\"], *self._hyperparameters[\"projectors\"]]:\n            context.remove(op)\n")])
