"""Seeded single-edit variants (E8).  Each entry: property, name, kind (fire|silent), edits
[(relpath, old, new)], expect (rule id, substring of construct/statement/message)."""

VARIANTS = []


def fire(prop, name, edits, rule, construct):
    if isinstance(edits, tuple):
        edits = [edits]
    VARIANTS.append({"property": prop, "name": name, "kind": "fire", "edits": edits, "expect": (rule, construct)})


def silent(prop, name, edits):
    if isinstance(edits, tuple):
        edits = [edits]
    VARIANTS.append({"property": prop, "name": name, "kind": "silent", "edits": edits, "expect": None})


# ------------------------------------------------------------------------------------------ C66
DR = "pennylane/decomposition/decomposition_rule.py"
fire("C66", "add_decomps-writes-private-registry",
     (DR, "    _decompositions_var.get()[to_name(op_type)].extend(decomps)",
          "    _decompositions_private[to_name(op_type)].extend(decomps)"),
     "R-C66-var", "add_decomps")
fire("C66", "drop-reset-of-fixed-decomps",
     (DR, "        _decompositions_var.reset(token_all_decomps)\n        _fixed_decomps_var.reset(token_fixed_decomps)",
          "        _decompositions_var.reset(token_all_decomps)"),
     "R-C66-scope", "local_decomps")
fire("C66", "reset-outside-finally",
     (DR, "    try:\n        yield\n    finally:\n        _decompositions_var.reset(token_all_decomps)\n        _fixed_decomps_var.reset(token_fixed_decomps)",
          "    yield\n    _decompositions_var.reset(token_all_decomps)\n    _fixed_decomps_var.reset(token_fixed_decomps)"),
     "R-C66-scope", "local_decomps")
fire("C66", "set-live-registry",
     (DR, "    token_all_decomps = _decompositions_var.set(_new_decomps)",
          "    token_all_decomps = _decompositions_var.set(_decompositions_var.get())"),
     "R-C66-copy", "local_decomps")
fire("C66", "shallow-copy-shares-collections",
     (DR, "    current_decomps = {k: v.copy() for k, v in _decompositions_var.get().items()}",
          "    current_decomps = _decompositions_var.get().copy()"),
     "R-C66-copy", "local_decomps")
fire("C66", "list_decomps-returns-reference",
     (DR, "    return _decompositions_var.get()[to_name(op)].copy()",
          "    return _decompositions_var.get()[to_name(op)]"),
     "R-C66-copy", "list_decomps")
fire("C66", "raising-call-between-sets",
     (DR, "    _new_fixed_decomps = _fixed_decomps_var.get().copy()",
          "    _new_fixed_decomps = dict(sorted(_fixed_decomps_var.get().items()))"),
     "R-C66-scope", "local_decomps")
silent("C66", "rename-locals",
       [(DR, "    _new_fixed_decomps = _fixed_decomps_var.get().copy()\n    token_fixed_decomps = _fixed_decomps_var.set(_new_fixed_decomps)",
             "    fixed_copy = _fixed_decomps_var.get().copy()\n    token_fixed_decomps = _fixed_decomps_var.set(fixed_copy)")])
silent("C66", "sets-inside-try",
       [(DR, "    token_fixed_decomps = _fixed_decomps_var.set(_new_fixed_decomps)\n\n    try:\n        yield\n    finally:\n        _decompositions_var.reset(token_all_decomps)\n        _fixed_decomps_var.reset(token_fixed_decomps)",
             "    token_fixed_decomps = _fixed_decomps_var.set(_new_fixed_decomps)\n\n    try:\n        yield\n    finally:\n        _fixed_decomps_var.reset(token_fixed_decomps)\n        _decompositions_var.reset(token_all_decomps)")])
