"""Seeded single-edit variants (E8).  Each entry: property, name, kind (fire|silent), edits
[(relpath, old, new)], expect (rule id, substring of construct/statement/message)."""

VARIANTS = []


def fire(prop, name, edits, rule, construct):
    if isinstance(edits, tuple):
        edits = [edits]
    VARIANTS.append({"property": prop, "name": name, "kind": "fire", "edits": edits, "expect": (rule, construct)})


def silent(prop, name, edits):
    if isinstance(edits, tuple):
        edits = [edits]
    VARIANTS.append({"property": prop, "name": name, "kind": "silent", "edits": edits, "expect": None})


# ------------------------------------------------------------------------------------------ C66
DR = "pennylane/decomposition/decomposition_rule.py"
fire("C66", "add_decomps-writes-private-registry",
     (DR, "    _decompositions_var.get()[to_name(op_type)].extend(decomps)",
          "    _decompositions_private[to_name(op_type)].extend(decomps)"),
     "R-C66-var", "add_decomps")
fire("C66", "drop-reset-of-fixed-decomps",
     (DR, "        _decompositions_var.reset(token_all_decomps)\n        _fixed_decomps_var.reset(token_fixed_decomps)",
          "        _decompositions_var.reset(token_all_decomps)"),
     "R-C66-scope", "local_decomps")
fire("C66", "reset-outside-finally",
     (DR, "    try:\n        yield\n    finally:\n        _decompositions_var.reset(token_all_decomps)\n        _fixed_decomps_var.reset(token_fixed_decomps)",
          "    yield\n    _decompositions_var.reset(token_all_decomps)\n    _fixed_decomps_var.reset(token_fixed_decomps)"),
     "R-C66-scope", "local_decomps")
fire("C66", "set-live-registry",
     (DR, "    token_all_decomps = _decompositions_var.set(_new_decomps)",
          "    token_all_decomps = _decompositions_var.set(_decompositions_var.get())"),
     "R-C66-copy", "local_decomps")
fire("C66", "shallow-copy-shares-collections",
     (DR, "    current_decomps = {k: v.copy() for k, v in _decompositions_var.get().items()}",
          "    current_decomps = _decompositions_var.get().copy()"),
     "R-C66-copy", "local_decomps")
fire("C66", "list_decomps-returns-reference",
     (DR, "    return _decompositions_var.get()[to_name(op)].copy()",
          "    return _decompositions_var.get()[to_name(op)]"),
     "R-C66-copy", "list_decomps")
fire("C66", "raising-call-between-sets",
     (DR, "    _new_fixed_decomps = _fixed_decomps_var.get().copy()",
          "    _new_fixed_decomps = dict(sorted(_fixed_decomps_var.get().items()))"),
     "R-C66-scope", "local_decomps")
silent("C66", "rename-locals",
       [(DR, "    _new_fixed_decomps = _fixed_decomps_var.get().copy()\n    token_fixed_decomps = _fixed_decomps_var.set(_new_fixed_decomps)",
             "    fixed_copy = _fixed_decomps_var.get().copy()\n    token_fixed_decomps = _fixed_decomps_var.set(fixed_copy)")])
silent("C66", "sets-inside-try",
       [(DR, "    token_fixed_decomps = _fixed_decomps_var.set(_new_fixed_decomps)\n\n    try:\n        yield\n    finally:\n        _decompositions_var.reset(token_all_decomps)\n        _fixed_decomps_var.reset(token_fixed_decomps)",
             "    token_fixed_decomps = _fixed_decomps_var.set(_new_fixed_decomps)\n\n    try:\n        yield\n    finally:\n        _fixed_decomps_var.reset(token_fixed_decomps)\n        _decompositions_var.reset(token_all_decomps)")])

# ------------------------------------------------------------------------------------------ C41
Q = "pennylane/core/queuing.py"
TAPE = "pennylane/tape/tape.py"
fire("C41", "tape-exit-pop-after-process-queue",
     (TAPE, "        QueuingManager.remove_active_queue()\n        QuantumTape._lock.release()\n        self._process_queue()",
            "        self._process_queue()\n        QueuingManager.remove_active_queue()\n        QuantumTape._lock.release()"),
     "R-C41-stack", "QuantumTape.__exit__")
fire("C41", "tape-enter-raising-call-after-push",
     (TAPE, "        QueuingManager.append(self)\n        QueuingManager.add_active_queue(self)\n        return self",
            "        QueuingManager.add_active_queue(self)\n        QueuingManager.append(self)\n        return self"),
     "R-C41-stack", "QuantumTape.__enter__")
fire("C41", "push-from-plain-method",
     (Q, "    def append(self, obj, **kwargs):\n        \"\"\"Append ``obj`` into the queue with ``kwargs`` metadata.\"\"\"",
         "    def start(self):\n        QueuingManager.add_active_queue(self)\n\n    def append(self, obj, **kwargs):\n        \"\"\"Append ``obj`` into the queue with ``kwargs`` metadata.\"\"\""),
     "R-C41-stack", "AnnotatedQueue.start")
fire("C41", "stop_recording-restore-outside-finally",
     (Q, "        try:\n            yield\n        finally:\n            cls._active_contexts = previously_active_contexts",
         "        yield\n        cls._active_contexts = previously_active_contexts"),
     "R-C41-stack", "stop_recording")
fire("C41", "stop_recording-keeps-outer-contexts",
     (Q, "        cls._active_contexts = []\n        try:", "        cls._active_contexts = previously_active_contexts[:-1]\n        try:"),
     "R-C41-inner", "stop_recording")
fire("C41", "active-context-bottom-of-stack",
     (Q, "return cls._active_contexts[-1] if cls.recording() else None", "return cls._active_contexts[0] if cls.recording() else None"),
     "R-C41-inner", "active_context")
fire("C41", "external-stack-write",
     (TAPE, "        self._process_queue()\n        self._trainable_params = None",
            "        self._process_queue()\n        QueuingManager._active_contexts.clear()\n        self._trainable_params = None"),
     "R-C41-stack", "QuantumTape.__exit__")
fire("C41", "symbolicop-queue-keeps-base",
     ("pennylane/ops/op_math/symbolicop.py", "        context.remove(self.base)\n        context.append(self)", "        context.append(self)"),
     "R-C41-own", "SymbolicOp")
fire("C41", "qubitization-queue-keeps-hamiltonian",
     ("pennylane/templates/subroutines/qubitization.py", "        context.remove(self.hyperparameters[\"hamiltonian\"])\n", ""),
     "R-C41-own", "Qubitization")
fire("C41", "select-init-keeps-ops",
     ("pennylane/templates/subroutines/select.py", "        for op in ops:\n            QueuingManager.remove(op)\n", ""),
     "R-C41-own", "Select")
fire("C41", "qsvt-queue-keeps-projectors",
     ("pennylane/templates/subroutines/qsvt.py", "        for op in self._hyperparameters[\"projectors\"]:\n            context.remove(op)\n", ""),
     "R-C41-own", "QSVT")
fire("C41", "composite-queue-appends-twice",
     ("pennylane/ops/op_math/composite.py", "                context.remove(op)\n            context.append(self)\n",
      "                context.remove(op)\n            context.append(self)\n        context.append(self)\n"),
     "R-C41-own", "CompositeOp.queue")
fire("C41", "operator-queue-conditional-append",
     ("pennylane/core/operator/base.py", "        context.append(self)\n        return self  # so pre-constructed Observable instances can be queued and returned in a single statement",
      "        if self.wires:\n            context.append(self)\n        return self  # so pre-constructed Observable instances can be queued and returned in a single statement"),
     "R-C41-own", "Operator.queue")
fire("C41", "apply-queues-original",
     (Q, "    with QueuingManager.stop_recording():\n        op = copy.copy(op)\n", ""),
     "R-C41-apply", "apply")
silent("C41", "symbolicop-queue-append-then-remove",
       [("pennylane/ops/op_math/symbolicop.py", "        context.remove(self.base)\n        context.append(self)", "        context.append(self)\n        context.remove(self.base)")])
silent("C41", "tape-exit-release-lock-first",
       [(TAPE, "        QueuingManager.remove_active_queue()\n        QuantumTape._lock.release()\n        self._process_queue()",
               "        QuantumTape._lock.release()\n        QueuingManager.remove_active_queue()\n        self._process_queue()")])
silent("C41", "qsvt-queue-single-loop",
       [("pennylane/templates/subroutines/qsvt.py", "        context.remove(self._hyperparameters[\"UA\"])\n        for op in self._hyperparameters[\"projectors\"]:\n            context.remove(op)\n",
         "        for op in [self._hyperparameters[\"UA\"], *self._hyperparameters[\"projectors\"]]:\n            context.remove(op)\n")])

# ------------------------------------------------------------------------------------------ C73
ST = "pennylane/devices/modifiers/simulator_tracking.py"
fire("C73", "modifier_map-drops-compute_vjp", (ST, '        "compute_vjp": _track_compute_vjp,\n', ""), "R-C73-cover", "compute_vjp")
fire("C73", "modifier_map-crossed-wrappers",
     (ST, '        "compute_jvp": _track_compute_jvp,\n', '        "compute_jvp": _track_compute_vjp,\n'), "R-C73-cover", "compute_jvp")
fire("C73", "jvp-update-without-record",
     (ST, "            self.tracker.update(jvp_batches=1, jvps=len(batch))\n            self.tracker.record()\n",
          "            self.tracker.update(jvp_batches=1, jvps=len(batch))\n"), "R-C73-pair", "compute_jvp")
fire("C73", "vjps-count-raw-circuits",
     (ST, "            self.tracker.update(vjp_batches=1, vjps=len(batch))", "            self.tracker.update(vjp_batches=1, vjps=len(circuits))"),
     "R-C73-pair", "compute_vjp")
fire("C73", "derivatives-count-unguarded",
     (ST, "            if isinstance(circuits, QuantumScript):\n                derivatives = 1\n            else:\n                derivatives = len(circuits)\n",
          "            derivatives = len(circuits)\n"), "R-C73-pair", "compute_derivatives")
fire("C73", "execute-record-only-once-per-batch",
     (ST, "                        resources=c.specs[\"resources\"],\n                    )\n                self.tracker.record()\n        return results",
          "                        resources=c.specs[\"resources\"],\n                    )\n        return results"), "R-C73-pair", "execute")
fire("C73", "execute-called-twice",
     (ST, "        results = untracked_execute(self, circuits, execution_config)\n        if isinstance(circuits, QuantumScript):",
          "        results = untracked_execute(self, circuits, execution_config)\n        if not self.tracker.active:\n            results = untracked_execute(self, circuits, execution_config)\n        if isinstance(circuits, QuantumScript):"),
     "R-C73-pair", "execute")
fire("C73", "update-without-active-guard",
     (ST, "        if self.tracker.active:\n            batch = (circuits,) if isinstance(circuits, QuantumScript) else circuits\n            self.tracker.update(vjp_batches=1",
          "        if True:\n            batch = (circuits,) if isinstance(circuits, QuantumScript) else circuits\n            self.tracker.update(vjp_batches=1"),
     "R-C73-pair", "compute_vjp")
fire("C73", "batches-counts-circuits",
     (ST, "            self.tracker.update(batches=1)", "            self.tracker.update(batches=len(batch))"), "R-C73-pair", "batches")
fire("C73", "execute-drops-shots-key",
     (ST, "                        shots=shots,\n", ""), "R-C73-keys", "shots")
fire("C73", "default-mixed-undecorated",
     ("pennylane/devices/default_mixed.py", "@simulator_tracking\n@single_tape_support\nclass DefaultMixed(Device):", "@single_tape_support\nclass DefaultMixed(Device):"),
     "R-C73-applied", "DefaultMixed")
fire("C73", "tracking-inside-single-tape-support",
     ("pennylane/devices/default_qubit.py", "@simulator_tracking\n@single_tape_support\nclass DefaultQubit(Device):", "@single_tape_support\n@simulator_tracking\nclass DefaultQubit(Device):"),
     "R-C73-applied", "DefaultQubit")
fire("C73", "tracker-totals-overwrite",
     ("pennylane/devices/tracker.py", "self.totals[key] = value + self.totals.get(key, 0)", "self.totals[key] = value"), "R-C73-tracker", "Tracker.update")
fire("C73", "new-entry-point-untracked",
     ("pennylane/devices/device_api.py", "    def compute_vjp(\n        self,\n        circuits: QuantumScriptOrBatch,",
      "    def compute_hvp(self, circuits, vectors, execution_config=None):\n        raise NotImplementedError\n\n    def compute_vjp(\n        self,\n        circuits: QuantumScriptOrBatch,"),
     "R-C73-cover", "compute_hvp")
silent("C73", "normalise-with-if-else",
       [(ST, "            batch = (circuits,) if isinstance(circuits, QuantumScript) else circuits\n            self.tracker.update(jvp_batches=1, jvps=len(batch))",
             "            if isinstance(circuits, QuantumScript):\n                batch = (circuits,)\n            else:\n                batch = circuits\n            self.tracker.update(jvp_batches=1, jvps=len(batch))")])
silent("C73", "docstring-bullet-removed",
       [(ST, "    * ``shots``: the number of shots\n", "")])


# further variant sets live in pennyverif/vsets/<name>.py (each does `from ..variants import fire, silent`)
def _load_sets():
    import importlib
    import pkgutil

    from . import vsets

    for mi in sorted(pkgutil.iter_modules(vsets.__path__), key=lambda m: m.name):
        importlib.import_module(f"pennyverif.vsets.{mi.name}")


_load_sets()
