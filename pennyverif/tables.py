"""E5 — literal tables of the repository and the checker's own reference tables.

Two halves:

1. *Extraction.*  A module-level ``NAME = {…}`` / ``{…}`` set / ``[…]`` / ``(…)`` display is read off
   the AST (``ast.literal_eval`` only — nothing is executed, nothing is imported).  Entries whose key
   or value is not a literal keep their AST node, so a checker can resolve ``ops.PauliX`` /
   ``ops.adjoint(ops.S)`` / a bare class name through the index (E0).  Module-level
   ``NAME[<literal>] = …`` statements are folded in as further entries; every other way of changing the
   table (``.update``, ``del``, augmented assignment, a ``**spread`` that is not itself a literal table)
   marks it *opaque* and the checker answers ``unknown`` for what it cannot see.

2. *References.*  Tables that belong to the checker and transcribe an **external standard**:
   OpenQASM 2.0 ``qelib1.inc`` and built-ins, OpenQASM 3 ``stdgates.inc`` and built-ins, Stim's gate
   names (with aliases), the symplectic (x, z) action of H, S and CNOT, the xz encoding of the Paulis.
   A key a reference does not know is *unverified* (``None``), never a violation.
"""

from __future__ import annotations

import ast
import re
from dataclasses import dataclass, field

from .core import AnalysisError, norm
from .index import ClassInfo, FuncInfo, Module

NOT_LITERAL = type("NotLiteral", (), {"__repr__": lambda self: "<not-literal>"})()
ANY = "any"  # an arity declared as "any number" (``num_wires = None``)


# =============================================================================================
# 1. extraction
# =============================================================================================


def literal(node):
    """``ast.literal_eval`` as a total function -> (True, value) | (False, NOT_LITERAL)."""
    try:
        return True, ast.literal_eval(node)
    except (ValueError, TypeError, SyntaxError, MemoryError, RecursionError):
        return False, NOT_LITERAL


@dataclass
class Entry:
    key: object  # python value of the key (NOT_LITERAL when the key is an expression)
    key_node: ast.AST | None  # None for list/set/tuple elements
    value: object
    value_node: ast.AST
    origin: str = "display"  # "display" | "setitem" | "spread:<name>"

    def text(self):
        """Normalised source of the entry (the statement part of a finding key)."""
        if self.key_node is None:
            return norm(self.value_node)
        return f"{norm(self.key_node)}: {norm(self.value_node)}"


@dataclass
class Table:
    name: str
    module: Module
    node: ast.AST
    kind: str  # "dict" | "set" | "list" | "tuple"
    entries: list = field(default_factory=list)
    opaque: list = field(default_factory=list)  # reasons why the table may hold more than the entries

    @property
    def relpath(self):
        return self.module.relpath

    def construct(self, entry: Entry):
        if self.kind == "dict":
            return f"{self.name}[{norm(entry.key_node)}]"
        return f"{self.name}"

    def effective(self):
        """dict semantics: for a repeated literal key the last entry wins (as in Python)."""
        if self.kind != "dict":
            return list(self.entries)
        last = {}
        out = []
        for i, e in enumerate(self.entries):
            k = ("lit", repr(e.key)) if e.key is not NOT_LITERAL else ("node", norm(e.key_node))
            last[k] = i
        for i, e in enumerate(self.entries):
            k = ("lit", repr(e.key)) if e.key is not NOT_LITERAL else ("node", norm(e.key_node))
            if last[k] == i:
                out.append(e)
        return out

    def shadowed(self):
        eff = {id(e) for e in self.effective()}
        return [e for e in self.entries if id(e) not in eff]

    def keys(self):
        return [e.key for e in self.effective()] if self.kind == "dict" else [e.value for e in self.entries]

    def get(self, key, default=None):
        for e in self.effective():
            if e.key is not NOT_LITERAL and e.key == key:
                return e
        return default


def _display_entries(ix, module, node, origin="display", _depth=0):
    """-> (kind, entries, opaque reasons) for a display node, or None if ``node`` is not a display."""
    opaque = []
    if isinstance(node, ast.Dict):
        entries = []
        for k, v in zip(node.keys, node.values):
            if k is None:  # {**other}
                sub = resolve_table_expr(ix, module, v, _depth + 1) if _depth < 4 else None
                if sub is None or sub.kind != "dict":
                    opaque.append(f"**{norm(v)} is not a literal table")
                    continue
                for e in sub.entries:
                    entries.append(Entry(e.key, e.key_node, e.value, e.value_node, f"spread:{sub.name}"))
                opaque += sub.opaque
                continue
            entries.append(Entry(literal(k)[1], k, literal(v)[1], v, origin))
        return "dict", entries, opaque
    if isinstance(node, (ast.Set, ast.List, ast.Tuple)):
        kind = {ast.Set: "set", ast.List: "list", ast.Tuple: "tuple"}[type(node)]
        entries = []
        for e in node.elts:
            if isinstance(e, ast.Starred):
                sub = resolve_table_expr(ix, module, e.value, _depth + 1) if _depth < 4 else None
                if sub is None:
                    opaque.append(f"*{norm(e.value)} is not a literal table")
                    continue
                for s in sub.entries:
                    entries.append(Entry(NOT_LITERAL, None, s.key if sub.kind == "dict" else s.value,
                                         s.key_node if sub.kind == "dict" else s.value_node, f"spread:{sub.name}"))
                opaque += sub.opaque
                continue
            entries.append(Entry(NOT_LITERAL, None, literal(e)[1], e, origin))
        return kind, entries, opaque
    return None


_MUTATORS = {"update", "pop", "popitem", "clear", "setdefault", "add", "discard", "remove", "append", "extend",
             "insert", "sort", "reverse", "__setitem__", "__delitem__"}  # fmt: skip


def extract_table(ix, module: Module | str, name: str) -> Table:
    """The module-level literal table bound to ``name``.  Vanished / rebound / not a display -> AnalysisError."""
    if not isinstance(module, Module):
        module = ix.module(module)
    defs = module.all_assigns.get(name, [])
    if not defs:
        raise AnalysisError(f"anchor table vanished: {module.relpath}:{name}")
    displays = [d for d in defs if isinstance(d, (ast.Dict, ast.Set, ast.List, ast.Tuple))]
    if len(defs) != 1 or len(displays) != 1:
        raise AnalysisError(f"{module.relpath}:{name} is bound {len(defs)} times / not to a literal display: outside what E5 reads")
    node = displays[0]
    kind, entries, opaque = _display_entries(ix, module, node)
    t = Table(name, module, node, kind, entries, opaque)
    _fold_mutations(ix, t)
    return t


def _fold_mutations(ix, t: Table):
    """Module-level ``T[k] = v`` become entries; anything else that can change the table makes it opaque."""
    m = t.module
    parents = {}
    for p in ast.walk(m.tree):
        for c in ast.iter_child_nodes(p):
            parents[c] = p
    top = set(map(id, m.tree.body))
    for n in ast.walk(m.tree):
        if not (isinstance(n, ast.Name) and n.id == t.name):
            continue
        p = parents.get(n)
        if isinstance(p, ast.Subscript) and p.value is n and isinstance(p.ctx, (ast.Store, ast.Del)):
            st = parents.get(p)
            if isinstance(p.ctx, ast.Store) and isinstance(st, ast.Assign) and id(st) in top and len(st.targets) == 1 and t.kind == "dict":
                t.entries.append(Entry(literal(p.slice)[1], p.slice, literal(st.value)[1], st.value, "setitem"))
            else:
                t.opaque.append(f"modified by `{norm(st if st is not None else p)[:80]}`")
        elif isinstance(p, ast.Attribute) and p.value is n and p.attr in _MUTATORS and isinstance(parents.get(p), ast.Call):
            t.opaque.append(f"modified by `{norm(parents.get(p))[:80]}`")
        elif isinstance(p, ast.AugAssign) and p.target is n:
            t.opaque.append(f"modified by `{norm(p)[:80]}`")
    # writers in other modules (import + mutate) are rare; a cheap textual pre-filter keeps this linear
    for other in ix.modules.values():
        if other is m or t.name not in other.source:
            continue
        for n in ast.walk(other.tree):
            tgt = None
            if isinstance(n, ast.Subscript) and isinstance(n.ctx, (ast.Store, ast.Del)):
                tgt = n.value
            elif isinstance(n, ast.Call) and isinstance(n.func, ast.Attribute) and n.func.attr in _MUTATORS:
                tgt = n.func.value
            if tgt is None or not isinstance(tgt, (ast.Name, ast.Attribute)):
                continue
            if (tgt.id if isinstance(tgt, ast.Name) else tgt.attr) != t.name:
                continue
            r = ix.resolve_expr(other, tgt)
            if isinstance(r, tuple) and r[0] == "value" and r[2] is t.node:
                t.opaque.append(f"modified in {other.relpath} by `{norm(n)[:80]}`")


def resolve_table_expr(ix, module: Module, expr, _depth=0):
    """``NAME`` / ``mod.NAME`` -> the literal Table it is bound to (in whatever module), else None."""
    if isinstance(expr, (ast.Dict, ast.Set, ast.List, ast.Tuple)):
        r = _display_entries(ix, module, expr, _depth=_depth)
        return Table("<display>", module, expr, r[0], r[1], r[2])
    r = ix.resolve_expr(module, expr)
    if not (isinstance(r, tuple) and r[0] == "value"):
        return None
    _, defmod, node = r
    if not isinstance(node, (ast.Dict, ast.Set, ast.List, ast.Tuple)):
        return None
    for nm, vals in defmod.all_assigns.items():
        if any(v is node for v in vals):
            try:
                return extract_table(ix, defmod, nm)
            except AnalysisError:
                return None
    return None


def same_table(a: Table | None, b: Table | None):
    return a is not None and b is not None and a.node is b.node


def key_set_expr(ix, module: Module, expr, local_defs=None):
    """Abstractly evaluate an expression that denotes a *set of names*.

    Understands ``T`` / ``T.keys()`` / ``set(T)`` / ``set(T.keys())`` / ``list(...)`` / ``frozenset(...)`` /
    ``tuple(...)`` over a literal table ``T``, set/list/tuple displays of string literals and unions
    (``a | b``, ``a.union(b)``, ``{*a, *b}``).  -> (tables: list[Table], extras: set[str]) or None.
    """
    if isinstance(expr, ast.Name) and local_defs and expr.id in local_defs:
        ds = local_defs[expr.id]
        if len(ds) == 1 and ds[0][1] is not None:
            return key_set_expr(ix, module, ds[0][1], None)
        return None
    if isinstance(expr, ast.BinOp) and isinstance(expr.op, ast.BitOr):
        l, r = key_set_expr(ix, module, expr.left, local_defs), key_set_expr(ix, module, expr.right, local_defs)
        if l is None or r is None:
            return None
        return l[0] + [t for t in r[0] if not any(same_table(t, u) for u in l[0])], l[1] | r[1]
    if isinstance(expr, ast.Call):
        f = expr.func
        if isinstance(f, ast.Attribute) and f.attr == "keys" and not expr.args:
            t = resolve_table_expr(ix, module, f.value)
            return ([t], set()) if t is not None and t.kind == "dict" else None
        if isinstance(f, ast.Attribute) and f.attr == "union":
            parts = [key_set_expr(ix, module, x, local_defs) for x in [f.value, *expr.args]]
            if any(p is None for p in parts):
                return None
            tabs, extras = [], set()
            for p in parts:
                tabs += [t for t in p[0] if not any(same_table(t, u) for u in tabs)]
                extras |= p[1]
            return tabs, extras
        if isinstance(f, ast.Name) and f.id in ("set", "frozenset", "list", "tuple", "sorted") and len(expr.args) == 1 and not expr.keywords:
            return key_set_expr(ix, module, expr.args[0], local_defs)
        return None
    if isinstance(expr, (ast.Set, ast.List, ast.Tuple)):
        tabs, extras = [], set()
        for e in expr.elts:
            if isinstance(e, ast.Starred):
                p = key_set_expr(ix, module, e.value, local_defs)
                if p is None:
                    return None
                tabs += [t for t in p[0] if not any(same_table(t, u) for u in tabs)]
                extras |= p[1]
            elif isinstance(e, ast.Constant) and isinstance(e.value, str):
                extras.add(e.value)
            else:
                return None
        return tabs, extras
    if isinstance(expr, (ast.Name, ast.Attribute)):
        t = resolve_table_expr(ix, module, expr)
        if t is None:
            return None
        if t.kind == "dict":
            return [t], set()
        vals = [e.value for e in t.entries]
        if t.opaque or not all(isinstance(v, str) for v in vals):
            return None
        return [], set(vals)
    return None


# ---------------------------------------------------------------------------------------------
# PennyLane operator names <-> classes, arities read statically from the class definitions


_ADJ = re.compile(r"^Adjoint\((.+)\)$")
OPS_NAMESPACES = ("pennylane.ops", "pennylane", "pennylane.ftqc")


def pl_instance_name(cls: ClassInfo):
    """``op.name`` of the instances of an operator class, read from the class definitions, or None.

    Modelled forms, first definition along the MRO wins: a class attribute ``name = "CZ"``; a ``name``
    property returning a string literal, ``self.__class__.__name__`` / ``type(self).__name__``, or
    ``self._name`` when the only writer of ``_name`` along the MRO is ``self._name = self.__class__.__name__``.
    """
    for c in cls.mro():
        if "name" in c.assigns:
            ok, v = literal(c.assigns["name"])
            return v if ok and isinstance(v, str) else None
        f = c.own_method("name")
        if f is None:
            continue
        body = [s for s in f.node.body if not (isinstance(s, ast.Expr) and isinstance(s.value, ast.Constant))]
        if len(body) != 1 or not isinstance(body[0], ast.Return) or body[0].value is None:
            return None
        e = body[0].value
        ok, v = literal(e)
        if ok:
            return v if isinstance(v, str) else None
        txt = norm(e)
        if txt in ("self.__class__.__name__", "type(self).__name__"):
            return cls.name
        if txt == "self._name":
            writers = []
            for k in cls.mro():
                if "_name" in k.assigns:
                    return None
                for fl in k.methods.values():
                    for m in fl:
                        for n in ast.walk(m.node):
                            if isinstance(n, (ast.Assign, ast.AnnAssign)):
                                tg = n.targets if isinstance(n, ast.Assign) else [n.target]
                                if any(norm(t) in ("self._name", "self.name") for t in tg):
                                    writers.append((k, n))
            vals = {norm(n.value) for _, n in writers if not (k_is_setter(_, n))}
            if vals and vals <= {"self.__class__.__name__", "type(self).__name__"}:
                return cls.name
            return None
        return None
    return None


def k_is_setter(k: ClassInfo, assign):
    """``self._name = value`` inside the ``name`` property setter is not a writer of a specific name."""
    f = k.own_method("name", kind="setter")
    if f is None:
        return False
    return any(n is assign for n in ast.walk(f.node))


def pl_class_for_name(ix, opname: str):
    """The class whose instances carry ``op.name == opname`` -> (ClassInfo | None, is_adjoint).

    ``"Adjoint(S)"`` is the name ``Adjoint`` gives to the adjoint of ``S`` (``Adjoint(<base.name>)``).
    The candidate ``pennylane.ops.<opname>`` is accepted only if its instances are statically known to be
    named ``opname`` (see :func:`pl_instance_name`).
    """
    m = _ADJ.match(opname)
    adj = False
    if m:
        opname, adj = m.group(1), True
        if _ADJ.match(opname):
            return None, True
    if not opname.isidentifier():
        return None, adj
    for ns in OPS_NAMESPACES:
        r = ix.resolve_dotted(f"{ns}.{opname}")
        if isinstance(r, ClassInfo) and pl_instance_name(r) == opname:
            return r, adj
    return None, adj


def pl_name_of_expr(ix, module: Module, expr):
    """Name an operator *constructor expression* of a table gives its instances -> (name | None, base class).

    ``ops.PauliX`` / ``X`` (alias) -> "PauliX";  ``ops.adjoint(ops.S)`` / ``adjoint(S)`` -> "Adjoint(S)";
    anything else -> None.
    """
    if isinstance(expr, ast.Call) and len(expr.args) == 1 and not expr.keywords:
        f = ix.resolve_expr(module, expr.func)
        if isinstance(f, FuncInfo) and f.name == "adjoint" and f.module.name.startswith("pennylane.ops"):
            r = ix.resolve_expr(module, expr.args[0])
            if isinstance(r, ClassInfo):
                n = pl_instance_name(r)
                if n is not None:
                    return f"Adjoint({n})", r
        return None, None
    r = ix.resolve_expr(module, expr) if isinstance(expr, (ast.Name, ast.Attribute)) else None
    if isinstance(r, ClassInfo):
        n = pl_instance_name(r)
        if n is not None:
            return n, r
    return None, None


def pl_arity(cls: ClassInfo):
    """(num_params, num_wires) of an operator class, read from its definition.

    Each component: int | ANY (declared ``None`` = any number) | None (not statically known).
    ``num_params`` of the new-style base (``Operator2``: ``len(self.ndim_params)``) is the number of
    ``dynamic_argnames``.  The adjoint of an operator has the arities of its base.
    """

    def const(attr):
        c, v = cls.lookup(attr)
        if v is None or isinstance(v, FuncInfo):
            return c, v, None
        ok, val = literal(v)
        if ok and val is None:
            return c, v, ANY
        if ok and isinstance(val, int) and not isinstance(val, bool):
            return c, v, val
        return c, v, None

    _, pv, npar = const("num_params")
    if npar is None and isinstance(pv, FuncInfo):
        # property in a base class: only the Operator2 default ``len(self.ndim_params)`` is modelled
        body = [s for s in pv.node.body if not (isinstance(s, ast.Expr) and isinstance(s.value, ast.Constant))]
        if len(body) == 1 and isinstance(body[0], ast.Return) and norm(body[0].value) == "len(self.ndim_params)" \
                and cls.lookup("ndim_params")[0] is pv.cls:
            _, dv = cls.lookup("dynamic_argnames")
            ok, val = literal(dv) if dv is not None and not isinstance(dv, FuncInfo) else (False, None)
            if ok and isinstance(val, tuple) and all(isinstance(x, str) for x in val):
                npar = len(val)
        elif len(body) == 1 and isinstance(body[0], ast.Return):
            ok, val = literal(body[0].value)
            if ok and isinstance(val, int) and not isinstance(val, bool):
                npar = val
    if npar is ANY:
        npar = None
    _, _, nw = const("num_wires")
    return npar, nw


# ---------------------------------------------------------------------------------------------
# GF(2) linear maps read off a function's return value


def gf2_outputs(func_node):
    """Read ``return [(a, b ^ c), (…)]`` as a GF(2)-linear map of the positional parameters.

    -> (params, rows, groups, return stmt) where rows[i] is the frozenset of parameter names whose XOR is
    output i and groups is the tuple of tuple sizes (``(2,)`` for ``[(x, z)]``, ``(2, 2)`` for two
    tuples) — or (params, None, reason, stmt) when the body is not of that form (-> unknown).
    """
    a = func_node.args
    params = [x.arg for x in a.posonlyargs + a.args]
    if a.vararg or a.kwarg or a.kwonlyargs:
        return params, None, "variadic / keyword-only parameters", None
    body = [s for s in func_node.body if not (isinstance(s, ast.Expr) and isinstance(s.value, ast.Constant))]
    env = {p: frozenset([p]) for p in params}

    def ev(e):
        if isinstance(e, ast.Name):
            return env.get(e.id)
        if isinstance(e, ast.Constant) and e.value in (0, False) and not isinstance(e.value, float):
            return frozenset()
        if isinstance(e, ast.BinOp) and isinstance(e.op, ast.BitXor):
            l, r = ev(e.left), ev(e.right)
            return None if l is None or r is None else l ^ r
        return None

    ret = None
    for st in body:
        if isinstance(st, ast.Return):
            ret = st
            break
        if isinstance(st, ast.Assign) and len(st.targets) == 1 and isinstance(st.targets[0], ast.Name):
            v = ev(st.value)
            if v is None:
                return params, None, f"`{norm(st)[:60]}` is not an XOR of parameters", st
            env[st.targets[0].id] = v
            continue
        if isinstance(st, ast.AugAssign) and isinstance(st.op, ast.BitXor) and isinstance(st.target, ast.Name):
            l, r = env.get(st.target.id), ev(st.value)
            if l is None or r is None:
                return params, None, f"`{norm(st)[:60]}` is not an XOR of parameters", st
            env[st.target.id] = l ^ r
            continue
        return params, None, f"statement `{norm(st)[:60]}` is outside the straight-line XOR fragment", st
    if ret is None or ret.value is None:
        return params, None, "no return value", ret
    v = ret.value
    tuples = v.elts if isinstance(v, (ast.List, ast.Tuple)) and v.elts and all(isinstance(e, (ast.Tuple, ast.List)) for e in v.elts) else None
    if tuples is None:
        if isinstance(v, (ast.Tuple, ast.List)) and v.elts:
            tuples = [v]
        else:
            return params, None, "return value is not a display of tuples", ret
    rows, groups = [], []
    for t in tuples:
        groups.append(len(t.elts))
        for e in t.elts:
            r = ev(e)
            if r is None:
                return params, None, f"`{norm(e)[:40]}` is not an XOR of parameters", ret
            rows.append(r)
    return params, rows, tuple(groups), ret


# =============================================================================================
# 2. reference tables (external standards; owned by the checker)
# =============================================================================================

# --- OpenQASM 2.0 --------------------------------------------------------------------------
# Built-in unitaries of the language (arXiv:1707.03429, section 4.2): name -> (#params, #qubits)
QASM2_BUILTIN_GATES = {"U": (3, 1), "CX": (0, 2)}
# Non-gate statements of the language, listed so a checker can tell "statement" from "unknown gate".
QASM2_STATEMENTS = {"measure", "reset", "barrier", "if", "opaque", "gate", "qreg", "creg", "include", "OPENQASM"}
# ``qelib1.inc``: name -> (#params, #qubits, provenance).  "paper" = the file printed in the OpenQASM 2.0
# specification (arXiv:1707.03429, appendix); "qiskit" = the later additions of the file that ships with
# Qiskit and the openqasm repository (same name, superset).
QELIB1 = {
    "u3": (3, 1, "paper"), "u2": (2, 1, "paper"), "u1": (1, 1, "paper"), "cx": (0, 2, "paper"),
    "id": (0, 1, "paper"), "x": (0, 1, "paper"), "y": (0, 1, "paper"), "z": (0, 1, "paper"),
    "h": (0, 1, "paper"), "s": (0, 1, "paper"), "sdg": (0, 1, "paper"), "t": (0, 1, "paper"),
    "tdg": (0, 1, "paper"), "rx": (1, 1, "paper"), "ry": (1, 1, "paper"), "rz": (1, 1, "paper"),
    "cz": (0, 2, "paper"), "cy": (0, 2, "paper"), "ch": (0, 2, "paper"), "ccx": (0, 3, "paper"),
    "crz": (1, 2, "paper"), "cu1": (1, 2, "paper"), "cu3": (3, 2, "paper"),
    "u0": (1, 1, "qiskit"), "u": (3, 1, "qiskit"), "p": (1, 1, "qiskit"), "sx": (0, 1, "qiskit"),
    "sxdg": (0, 1, "qiskit"), "swap": (0, 2, "qiskit"), "cswap": (0, 3, "qiskit"), "crx": (1, 2, "qiskit"),
    "cry": (1, 2, "qiskit"), "cp": (1, 2, "qiskit"), "csx": (0, 2, "qiskit"), "cu": (4, 2, "qiskit"),
    "rxx": (1, 2, "qiskit"), "rzz": (1, 2, "qiskit"), "rccx": (0, 3, "qiskit"), "rc3x": (0, 4, "qiskit"),
    "c3x": (0, 4, "qiskit"), "c3sqrtx": (0, 4, "qiskit"), "c4x": (0, 5, "qiskit"),
}  # fmt: skip

# Which qelib1 gate *is* which PennyLane operator (same matrix, same parameter order, global phase aside):
# PennyLane ``op.name`` -> admissible qelib1 names.
PL_TO_QASM2 = {
    "CNOT": {"cx"}, "CZ": {"cz"}, "CY": {"cy"}, "CH": {"ch"},
    "U3": {"u3", "u"}, "U2": {"u2"}, "U1": {"u1", "p"}, "PhaseShift": {"u1", "p"},
    "Identity": {"id"}, "PauliX": {"x"}, "PauliY": {"y"}, "PauliZ": {"z"}, "Hadamard": {"h"},
    "S": {"s"}, "Adjoint(S)": {"sdg"}, "T": {"t"}, "Adjoint(T)": {"tdg"},
    "SX": {"sx"}, "Adjoint(SX)": {"sxdg"},
    "RX": {"rx"}, "RY": {"ry"}, "RZ": {"rz"},
    "CRX": {"crx"}, "CRY": {"cry"}, "CRZ": {"crz"},
    "ControlledPhaseShift": {"cu1", "cp"},
    "SWAP": {"swap"}, "Toffoli": {"ccx"}, "CSWAP": {"cswap"},
}  # fmt: skip

# --- OpenQASM 3 ----------------------------------------------------------------------------
QASM3_BUILTIN_GATES = {"U": (3, 1), "gphase": (1, 0)}
# ``stdgates.inc`` (OpenQASM 3 specification, "Standard library"): name -> (#params, #qubits)
STDGATES = {
    "p": (1, 1), "x": (0, 1), "y": (0, 1), "z": (0, 1), "h": (0, 1), "s": (0, 1), "sdg": (0, 1),
    "t": (0, 1), "tdg": (0, 1), "sx": (0, 1), "rx": (1, 1), "ry": (1, 1), "rz": (1, 1),
    "cx": (0, 2), "cy": (0, 2), "cz": (0, 2), "cp": (1, 2), "crx": (1, 2), "cry": (1, 2), "crz": (1, 2),
    "ch": (0, 2), "swap": (0, 2), "ccx": (0, 3), "cswap": (0, 3), "cu": (4, 2),
    # "Gates for OpenQASM 2 backwards compatibility"
    "CX": (0, 2), "phase": (1, 1), "cphase": (1, 2), "id": (0, 1), "u1": (1, 1), "u2": (2, 1), "u3": (3, 1),
}  # fmt: skip
# stdgates name -> admissible PennyLane ``op.name`` (U1 and PhaseShift are the same matrix)
QASM3_TO_PL = {
    "p": {"PhaseShift", "U1"}, "phase": {"PhaseShift", "U1"}, "u1": {"PhaseShift", "U1"},
    "x": {"PauliX"}, "y": {"PauliY"}, "z": {"PauliZ"}, "h": {"Hadamard"}, "id": {"Identity"},
    "s": {"S"}, "sdg": {"Adjoint(S)"}, "t": {"T"}, "tdg": {"Adjoint(T)"}, "sx": {"SX"},
    "rx": {"RX"}, "ry": {"RY"}, "rz": {"RZ"}, "u2": {"U2"}, "u3": {"U3"},
    "cx": {"CNOT"}, "CX": {"CNOT"}, "cy": {"CY"}, "cz": {"CZ"}, "ch": {"CH"},
    "cp": {"ControlledPhaseShift"}, "cphase": {"ControlledPhaseShift"},
    "crx": {"CRX"}, "cry": {"CRY"}, "crz": {"CRZ"},
    "swap": {"SWAP"}, "ccx": {"Toffoli"}, "cswap": {"CSWAP"},
}  # fmt: skip


def qasm3_lookup(name_any_case: str):
    """Gates of stdgates.inc / built-ins whose name equals ``name`` ignoring case (the interpreter upper-cases)."""
    out = {}
    for k, sig in {**STDGATES, **QASM3_BUILTIN_GATES}.items():
        if k.upper() == name_any_case.upper():
            out[k] = sig
    return out


# --- Stim ----------------------------------------------------------------------------------
# Gate names of Stim (doc/gates.md; `stim.gate_data()` of v1.13–1.16): canonical name ->
# (aliases, kind, qubits per target group | None = Pauli-product targets, #parenthesised arguments)
STIM_GATES = {
    # single-qubit Clifford
    "I": ((), "clifford", 1, 0), "X": ((), "clifford", 1, 0), "Y": ((), "clifford", 1, 0), "Z": ((), "clifford", 1, 0),
    "H": (("H_XZ",), "clifford", 1, 0), "H_XY": ((), "clifford", 1, 0), "H_YZ": ((), "clifford", 1, 0),
    "H_NXY": ((), "clifford", 1, 0), "H_NXZ": ((), "clifford", 1, 0), "H_NYZ": ((), "clifford", 1, 0),
    "S": (("SQRT_Z",), "clifford", 1, 0), "S_DAG": (("SQRT_Z_DAG",), "clifford", 1, 0),
    "SQRT_X": ((), "clifford", 1, 0), "SQRT_X_DAG": ((), "clifford", 1, 0),
    "SQRT_Y": ((), "clifford", 1, 0), "SQRT_Y_DAG": ((), "clifford", 1, 0),
    "C_XYZ": ((), "clifford", 1, 0), "C_ZYX": ((), "clifford", 1, 0),
    "C_NXYZ": ((), "clifford", 1, 0), "C_XNYZ": ((), "clifford", 1, 0), "C_XYNZ": ((), "clifford", 1, 0),
    "C_NZYX": ((), "clifford", 1, 0), "C_ZNYX": ((), "clifford", 1, 0), "C_ZYNX": ((), "clifford", 1, 0),
    # two-qubit Clifford
    "CX": (("CNOT", "ZCX"), "clifford", 2, 0), "CY": (("ZCY",), "clifford", 2, 0), "CZ": (("ZCZ",), "clifford", 2, 0),
    "XCX": ((), "clifford", 2, 0), "XCY": ((), "clifford", 2, 0), "XCZ": ((), "clifford", 2, 0),
    "YCX": ((), "clifford", 2, 0), "YCY": ((), "clifford", 2, 0), "YCZ": ((), "clifford", 2, 0),
    "SWAP": ((), "clifford", 2, 0), "ISWAP": ((), "clifford", 2, 0), "ISWAP_DAG": ((), "clifford", 2, 0),
    "CXSWAP": ((), "clifford", 2, 0), "SWAPCX": ((), "clifford", 2, 0), "CZSWAP": (("SWAPCZ",), "clifford", 2, 0),
    "SQRT_XX": ((), "clifford", 2, 0), "SQRT_XX_DAG": ((), "clifford", 2, 0),
    "SQRT_YY": ((), "clifford", 2, 0), "SQRT_YY_DAG": ((), "clifford", 2, 0),
    "SQRT_ZZ": ((), "clifford", 2, 0), "SQRT_ZZ_DAG": ((), "clifford", 2, 0), "II": ((), "clifford", 2, 0),
    "SPP": ((), "clifford", None, 0), "SPP_DAG": ((), "clifford", None, 0),
    # Pauli noise channels
    "X_ERROR": ((), "noise", 1, 1), "Y_ERROR": ((), "noise", 1, 1), "Z_ERROR": ((), "noise", 1, 1),
    "I_ERROR": ((), "noise", 1, None), "II_ERROR": ((), "noise", 2, None),
    "DEPOLARIZE1": ((), "noise", 1, 1), "DEPOLARIZE2": ((), "noise", 2, 1),
    "PAULI_CHANNEL_1": ((), "noise", 1, 3), "PAULI_CHANNEL_2": ((), "noise", 2, 15),
    "E": (("CORRELATED_ERROR",), "noise", None, 1), "ELSE_CORRELATED_ERROR": ((), "noise", None, 1),
    "HERALDED_ERASE": ((), "noise", 1, 1), "HERALDED_PAULI_CHANNEL_1": ((), "noise", 1, 4),
}  # fmt: skip


def stim_canonical(name: str):
    """Canonical Stim gate for a name or alias (Stim is case-insensitive) -> canonical name | None."""
    if not isinstance(name, str):
        return None
    up = name.upper()
    if up in STIM_GATES:
        return up
    for k, (aliases, *_rest) in STIM_GATES.items():
        if up in aliases:
            return k
    return None


# PennyLane ``op.name`` -> (canonical Stim gate that has the same action, kind).  Only Clifford unitaries
# and Pauli channels can appear here.
PL_TO_STIM = {
    "Identity": ("I", "clifford"), "PauliX": ("X", "clifford"), "PauliY": ("Y", "clifford"), "PauliZ": ("Z", "clifford"),
    "Hadamard": ("H", "clifford"), "S": ("S", "clifford"), "Adjoint(S)": ("S_DAG", "clifford"),
    "SX": ("SQRT_X", "clifford"), "Adjoint(SX)": ("SQRT_X_DAG", "clifford"),
    "CNOT": ("CX", "clifford"), "CY": ("CY", "clifford"), "CZ": ("CZ", "clifford"),
    "SWAP": ("SWAP", "clifford"), "ISWAP": ("ISWAP", "clifford"), "Adjoint(ISWAP)": ("ISWAP_DAG", "clifford"),
    "BitFlip": ("X_ERROR", "noise"), "PhaseFlip": ("Z_ERROR", "noise"),
    "DepolarizingChannel": ("DEPOLARIZE1", "noise"), "PauliError": ("E", "noise"),
}  # fmt: skip

# PennyLane operators that are *not* Clifford for generic parameters / at all: a stabilizer simulator must
# not take them natively.
PL_NON_CLIFFORD = {
    "T", "Adjoint(T)", "RX", "RY", "RZ", "Rot", "PhaseShift", "U1", "U2", "U3", "CRX", "CRY", "CRZ", "CRot",
    "ControlledPhaseShift", "CPhase", "Toffoli", "CSWAP", "CCZ", "CH", "MultiControlledX", "SISWAP", "SQISW",
    "IsingXX", "IsingYY", "IsingZZ", "IsingXY", "PSWAP", "MultiRZ", "PauliRot", "SingleExcitation",
    "DoubleExcitation", "OrbitalRotation", "QubitUnitary", "DiagonalQubitUnitary", "ControlledQubitUnitary",
    "AmplitudeDamping", "GeneralizedAmplitudeDamping", "PhaseDamping", "ResetError", "ThermalRelaxationError",
    "QubitChannel",
}  # fmt: skip

# Operators a stabilizer simulator may accept without a Stim instruction, and what it has to do with them.
#   "phase"    : contributes a global phase that must be collected (it is visible in returned states)
#   "snapshot" : must be routed to the snapshot handler
#   "prep"     : a state preparation, handled before the gate loop
#   "noop"     : the identity channel; skipping it is exact
PL_NO_STIM_INSTRUCTION = {
    "GlobalPhase": "phase", "Snapshot": "snapshot", "BasisState": "prep", "StatePrep": "prep", "Barrier": "noop",
}  # fmt: skip

# --- Symplectic action (conjugation  P -> C P C^dagger  in the exponent encoding P ~ X^x Z^z) ----------
# Standard encoding of the Paulis, by PennyLane class name.
PAULI_XZ = {"Identity": (0, 0), "PauliX": (1, 0), "PauliY": (1, 1), "PauliZ": (0, 1)}

# gate (PennyLane class name) -> rows of the GF(2) matrix over the flat input (x0, z0, x1, z1, …):
# each row is the set of input indices XOR-ed into that output, outputs in the same flat order.
#   H:    X <-> Z                       (x, z)            -> (z, x)
#   S:    X -> Y, Z -> Z                (x, z)            -> (x, x ^ z)
#   CNOT: Xc -> Xc Xt, Zt -> Zc Zt      (xc, zc, xt, zt)  -> (xc, zc ^ zt, xc ^ xt, zt)
SYMPLECTIC = {
    "Hadamard": (frozenset({1}), frozenset({0})),
    "S": (frozenset({0}), frozenset({0, 1})),
    "CNOT": (frozenset({0}), frozenset({1, 3}), frozenset({0, 2}), frozenset({3})),
}


def symplectic_text(rows, names=None):
    names = names or ["x0", "z0", "x1", "z1", "x2", "z2"]
    return "(" + ", ".join(" ^ ".join(names[i] for i in sorted(r)) or "0" for r in rows) + ")"
