"""E1 — statement-level control-flow graph for one function body.

Supports the statement kinds used in the analysed functions: simple statements, if/while/for
(with else, break, continue), try/except/else/finally, with, match, return, raise, nested
defs/classes (opaque nodes).  ``finally`` bodies and ``with`` exits are *duplicated per entering
continuation* (normal, exception, return, break, continue) so that a path which enters a
``finally`` because of a ``return`` cannot leave it as a fall-through: must-pass-through queries
stay exact with respect to the modelled edges.

Exceptional edges: an explicit ``raise`` always has one.  In addition every node for which
``may_raise(node_ast)`` is true gets an ``exc`` edge to the innermost handler/finally/raise-exit.
The default ``may_raise`` is "contains a call, a yield/await, a subscript or an attribute
deletion"; rules pass their own.
"""

from __future__ import annotations

import ast

from .core import AnalysisError


class Node:
    __slots__ = ("id", "kind", "stmt", "label")

    def __init__(self, nid, kind, stmt=None, label=""):
        self.id = nid
        self.kind = kind
        self.stmt = stmt
        self.label = label

    def __repr__(self):
        from .core import first_line

        t = first_line(self.stmt) if self.stmt is not None else ""
        return f"<{self.id}:{self.kind} {self.label} {t[:60]}>"

    @property
    def line(self):
        return getattr(self.stmt, "lineno", 0)


def default_may_raise(node):
    for n in walk_shallow(node):
        if isinstance(n, (ast.Call, ast.Yield, ast.YieldFrom, ast.Await)):
            return True
    return False


def walk_shallow(node):
    """ast.walk that does not descend into nested function/class/lambda bodies."""
    stack = [node]
    while stack:
        n = stack.pop()
        yield n
        for c in ast.iter_child_nodes(n):
            if isinstance(c, (ast.FunctionDef, ast.AsyncFunctionDef, ast.Lambda, ast.ClassDef)):
                continue
            stack.append(c)


class _Frame:
    """Jump targets in force while building a region."""

    def __init__(self, exc, ret, brk=None, cont=None):
        self.exc = exc  # callable() -> node id to jump to on exception
        self.ret = ret  # callable() -> node id for return
        self.brk = brk
        self.cont = cont


class CFG:
    def __init__(self, func, may_raise=default_may_raise, body=None):
        self.func = func
        self.may_raise = may_raise
        self.nodes: dict[int, Node] = {}
        self.succ: dict[int, list[tuple[int, str]]] = {}
        self.pred: dict[int, list[tuple[int, str]]] = {}
        self.entry = self._new("entry")
        self.exit = self._new("exit")
        self.raise_exit = self._new("raise_exit")
        frame = _Frame(lambda: self.raise_exit, lambda: self.exit)
        last = self._body(func.body if body is None else body, [self.entry], frame)
        self._connect(last, self.exit, "fall")

    # -- construction helpers --------------------------------------------------------------
    def _new(self, kind, stmt=None, label=""):
        nid = len(self.nodes)
        self.nodes[nid] = Node(nid, kind, stmt, label)
        self.succ[nid] = []
        self.pred[nid] = []
        return nid

    def _edge(self, a, b, label=""):
        if (b, label) not in self.succ[a]:
            self.succ[a].append((b, label))
            self.pred[b].append((a, label))

    def _connect(self, preds, nid, label=""):
        for p in preds:
            if isinstance(p, tuple):
                self._edge(p[0], nid, p[1])
            else:
                self._edge(p, nid, label)

    def _body(self, stmts, preds, frame):
        """Build a statement list; returns the list of dangling exits (ids or (id,label))."""
        cur = preds
        for st in stmts:
            if not cur:
                break  # unreachable code after return/raise/continue/break
            cur = self._stmt(st, cur, frame)
        return cur

    def _simple(self, st, preds, frame, kind="stmt"):
        n = self._new(kind, st)
        self._connect(preds, n)
        if self.may_raise(st):
            self._edge(n, frame.exc(), "exc")
        return n

    def _stmt(self, st, preds, frame):
        if isinstance(st, (ast.FunctionDef, ast.AsyncFunctionDef, ast.ClassDef)):
            n = self._new("def", st)
            self._connect(preds, n)
            return [n]
        if isinstance(st, ast.Return):
            n = self._simple(st, preds, frame, "return")
            self._edge(n, frame.ret(), "return")
            return []
        if isinstance(st, ast.Raise):
            n = self._new("raise", st)
            self._connect(preds, n)
            self._edge(n, frame.exc(), "raise")
            return []
        if isinstance(st, ast.Break):
            n = self._new("break", st)
            self._connect(preds, n)
            if frame.brk is None:
                self._edge(n, frame.ret(), "break")  # synthetic body of one loop iteration: leaves the iteration
                return []
            self._edge(n, frame.brk(), "break")
            return []
        if isinstance(st, ast.Continue):
            n = self._new("continue", st)
            self._connect(preds, n)
            self._edge(n, frame.cont() if frame.cont is not None else frame.ret(), "continue")
            return []
        if isinstance(st, ast.If):
            t = self._new("test", st)
            self._connect(preds, t)
            if self.may_raise(st.test):
                self._edge(t, frame.exc(), "exc")
            a = self._body(st.body, [(t, "true")], frame)
            b = self._body(st.orelse, [(t, "false")], frame) if st.orelse else [(t, "false")]
            return a + b
        if isinstance(st, ast.While):
            t = self._new("test", st)
            self._connect(preds, t)
            if self.may_raise(st.test):
                self._edge(t, frame.exc(), "exc")
            after = self._new("join", st, "after-while")
            inner = _Frame(frame.exc, frame.ret, lambda: after, lambda: t)
            body_out = self._body(st.body, [(t, "true")], inner)
            self._connect(body_out, t, "back")
            const_true = isinstance(st.test, ast.Constant) and bool(st.test.value)
            if not const_true:
                els = self._body(st.orelse, [(t, "false")], frame) if st.orelse else [(t, "false")]
                self._connect(els, after)
            return [after] if self.pred[after] else []
        if isinstance(st, (ast.For, ast.AsyncFor)):
            h = self._new("for", st)
            self._connect(preds, h)
            if self.may_raise(st.iter):
                self._edge(h, frame.exc(), "exc")
            after = self._new("join", st, "after-for")
            inner = _Frame(frame.exc, frame.ret, lambda: after, lambda: h)
            body_out = self._body(st.body, [(h, "iter")], inner)
            self._connect(body_out, h, "back")
            els = self._body(st.orelse, [(h, "done")], frame) if st.orelse else [(h, "done")]
            self._connect(els, after)
            return [after]
        if isinstance(st, (ast.With, ast.AsyncWith)):
            return self._with(st, preds, frame)
        if isinstance(st, ast.Try) or type(st).__name__ == "TryStar":
            return self._try(st, preds, frame)
        if isinstance(st, ast.Match):
            s = self._new("match", st)
            self._connect(preds, s)
            if self.may_raise(st.subject):
                self._edge(s, frame.exc(), "exc")
            outs = []
            irrefutable = False
            for i, case in enumerate(st.cases):
                outs += self._body(case.body, [(s, f"case{i}")], frame)
                if case.guard is None and _irrefutable(case.pattern):
                    irrefutable = True
            if not irrefutable:
                outs.append((s, "nomatch"))
            return outs
        # simple statement
        n = self._simple(st, preds, frame)
        return [n]

    def _with(self, st, preds, frame):
        enter = self._new("with_enter", st)
        self._connect(preds, enter)
        self._edge(enter, frame.exc(), "exc")  # evaluating the manager / __enter__ may raise

        def mk_exit(label, target_fn):
            memo = {}

            def f():
                if "n" not in memo:
                    n = self._new("with_exit", st, label)
                    memo["n"] = n
                    self._edge(n, target_fn(), label)
                return memo["n"]

            return f

        inner = _Frame(
            mk_exit("exc", frame.exc),
            mk_exit("return", frame.ret),
            mk_exit("break", frame.brk) if frame.brk else None,
            mk_exit("continue", frame.cont) if frame.cont else None,
        )
        out = self._body(st.body, [enter], inner)
        if not out:
            return []
        x = self._new("with_exit", st, "normal")
        self._connect(out, x)
        return [x]

    def _try(self, st, preds, frame):
        has_finally = bool(st.finalbody)

        def through_finally(label, target_fn):
            """continuation that first runs a fresh copy of the finally body"""
            if not has_finally:
                return target_fn
            memo = {}

            def f():
                if "n" not in memo:
                    start = self._new("finally", st, label)
                    memo["n"] = start
                    out = self._body(st.finalbody, [start], frame)
                    tgt = target_fn()
                    self._connect(out, tgt, label)
                return memo["n"]

            return f

        exc_after = through_finally("exc", frame.exc)
        ret_after = through_finally("return", frame.ret)
        brk_after = through_finally("break", frame.brk) if frame.brk else None
        cont_after = through_finally("continue", frame.cont) if frame.cont else None

        if st.handlers:
            dispatch_memo = {}

            def dispatch():
                if "n" not in dispatch_memo:
                    dispatch_memo["n"] = self._new("except_dispatch", st)
                return dispatch_memo["n"]

            body_frame = _Frame(dispatch, ret_after, brk_after, cont_after)
        else:
            body_frame = _Frame(exc_after, ret_after, brk_after, cont_after)

        t = self._new("try", st)
        self._connect(preds, t)
        outs = self._body(st.body, [t], body_frame)
        handler_frame = _Frame(exc_after, ret_after, brk_after, cont_after)
        if st.orelse:
            outs = self._body(st.orelse, outs, handler_frame)
        if st.handlers and "n" in dispatch_memo:
            d = dispatch_memo["n"]
            catch_all = False
            for h in st.handlers:
                hn = self._new("except", h)
                self._edge(d, hn, "caught")
                outs += self._body(h.body, [hn], handler_frame)
                if h.type is None or (
                    isinstance(h.type, ast.Name) and h.type.id in ("BaseException",)
                ):
                    catch_all = True
            if not catch_all:
                self._edge(d, exc_after(), "uncaught")
        if has_finally:
            if not outs:
                return []
            start = self._new("finally", st, "normal")
            self._connect(outs, start)
            return self._body(st.finalbody, [start], frame)
        return outs

    # -- queries ---------------------------------------------------------------------------
    def reachable(self, src, avoid=None, labels_excluded=()):
        """ids reachable from ``src`` (inclusive) without entering a node in ``avoid``."""
        avoid = avoid or (lambda n: False)
        seen = set()
        stack = [src]
        while stack:
            n = stack.pop()
            if n in seen:
                continue
            seen.add(n)
            for s, lab in self.succ[n]:
                if lab in labels_excluded:
                    continue
                if s not in seen and not avoid(self.nodes[s]):
                    stack.append(s)
        return seen

    def live(self):
        return self.reachable(self.entry)

    def path_avoiding(self, src, dst, avoid, labels_excluded=()):
        """A path (list of Node) from src to dst that never visits a node with avoid(node) true
        (src itself is not tested), or None."""
        prev = {src: None}
        stack = [src]
        while stack:
            n = stack.pop()
            if n == dst:
                out = []
                while n is not None:
                    out.append(self.nodes[n])
                    n = prev[n]
                return out[::-1]
            for s, lab in self.succ[n]:
                if lab in labels_excluded or s in prev:
                    continue
                if s != dst and avoid(self.nodes[s]):
                    continue
                prev[s] = n
                stack.append(s)
        return None

    def must_pass(self, src, dst, through, labels_excluded=()):
        """True iff every path src->dst visits a node satisfying ``through`` (vacuous if no path)."""
        return self.path_avoiding(src, dst, through, labels_excluded) is None

    def stmts(self, kind=None):
        live = self.live()
        return [n for i, n in self.nodes.items() if i in live and (kind is None or n.kind == kind)]

    def find(self, pred):
        live = self.live()
        return [n for i, n in self.nodes.items() if i in live and n.stmt is not None and pred(n)]

    def dominators(self):
        """dict node -> set of dominators (iterative; graphs are tiny)."""
        live = sorted(self.live())
        dom = {n: set(live) for n in live}
        dom[self.entry] = {self.entry}
        changed = True
        while changed:
            changed = False
            for n in live:
                if n == self.entry:
                    continue
                ps = [p for p, _ in self.pred[n] if p in dom]
                new = set.intersection(*(dom[p] for p in ps)) if ps else set()
                new = new | {n}
                if new != dom[n]:
                    dom[n] = new
                    changed = True
        return dom

    def dump(self):
        out = []
        for i in sorted(self.live()):
            out.append(f"{self.nodes[i]!r} -> {self.succ[i]}")
        return "\n".join(out)


def _irrefutable(p):
    if isinstance(p, ast.MatchAs) and p.pattern is None:
        return True
    if isinstance(p, ast.MatchOr):
        return any(_irrefutable(x) for x in p.patterns)
    return False


def no_raise(_node):
    return False


def paths_exits(cfg: CFG):
    """Which of the two exits are reachable from entry: (normal_return, raises)."""
    live = cfg.live()
    return cfg.exit in live, cfg.raise_exit in live
