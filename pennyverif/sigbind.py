"""E6 — static call binding.

Given a *call shape* (how many positional arguments, whether a ``*iterable`` of unknown length is
passed, which keyword names are passed, whether a ``**mapping`` with unknown keys is passed) and a
``def`` node, decide whether Python's argument-binding algorithm would raise ``TypeError``:

* too many positional arguments (no ``*args`` in the signature),
* an unexpected keyword argument (no ``**kwargs`` in the signature), including a positional-only
  parameter passed by keyword,
* multiple values for a parameter (filled positionally *and* by keyword),
* a missing required positional / keyword-only argument.

Verdicts are three-valued over every completion of the unknown parts (length of the starred
iterable, keys of the ``**`` mapping):

``True``   every completion binds, ``False``  every completion raises ``TypeError``,
``None``   it depends on the unknown parts (or the signature is not a plain ``def``).

Nothing is imported or executed; the signature is read from the ``ast.FunctionDef``.
"""

from __future__ import annotations

import ast
from dataclasses import dataclass, field


@dataclass(frozen=True)
class CallShape:
    npos: int = 0  # explicit positional arguments (certainly passed)
    star: bool = False  # plus a *iterable of unknown length
    kw: frozenset = frozenset()  # keyword names certainly passed
    kwsplat: bool = False  # plus a **mapping whose keys are not known

    def describe(self):
        parts = [f"{self.npos} positional"]
        if self.star:
            parts.append("*unknown")
        parts += [f"{k}=" for k in sorted(self.kw)]
        if self.kwsplat:
            parts.append("**unknown")
        return "(" + ", ".join(parts) + ")"


def shape(npos=0, kw=(), star=False, kwsplat=False) -> CallShape:
    if npos == "star":
        npos, star = 0, True
    return CallShape(int(npos), bool(star), frozenset(kw), bool(kwsplat))


@dataclass
class Signature:
    posonly: list = field(default_factory=list)  # names
    args: list = field(default_factory=list)  # positional-or-keyword names
    vararg: str | None = None
    kwonly: list = field(default_factory=list)
    kwarg: str | None = None
    required: set = field(default_factory=set)  # names without default
    dropped_first: str | None = None

    @property
    def slots(self):
        return self.posonly + self.args

    def describe(self):
        out = []
        for n in self.posonly:
            out.append(n if n in self.required else f"{n}=…")
        if self.posonly:
            out.append("/")
        for n in self.args:
            out.append(n if n in self.required else f"{n}=…")
        if self.vararg:
            out.append("*" + self.vararg)
        elif self.kwonly:
            out.append("*")
        for n in self.kwonly:
            out.append(n if n in self.required else f"{n}=…")
        if self.kwarg:
            out.append("**" + self.kwarg)
        return "(" + ", ".join(out) + ")"


def _is_static(funcdef):
    for d in getattr(funcdef, "decorator_list", []):
        t = d.func if isinstance(d, ast.Call) else d
        name = t.attr if isinstance(t, ast.Attribute) else getattr(t, "id", None)
        if name == "staticmethod":
            return True
    return False


def signature(funcdef, skip_first=True) -> Signature | None:
    """Signature of a ``def``/``lambda`` node; ``skip_first`` drops the bound ``self``/``cls``
    (never for a ``@staticmethod``)."""
    if not isinstance(funcdef, (ast.FunctionDef, ast.AsyncFunctionDef, ast.Lambda)):
        return None
    a = funcdef.args
    posonly = [x.arg for x in a.posonlyargs]
    args = [x.arg for x in a.args]
    n_slots = len(posonly) + len(args)
    n_def = len(a.defaults)
    names = posonly + args
    required = set(names[: n_slots - n_def])
    kwonly = [x.arg for x in a.kwonlyargs]
    for x, d in zip(a.kwonlyargs, a.kw_defaults):
        if d is None:
            required.add(x.arg)
    sig = Signature(posonly, args, a.vararg.arg if a.vararg else None, kwonly, a.kwarg.arg if a.kwarg else None, required)
    if skip_first and not _is_static(funcdef):
        if sig.posonly:
            sig.dropped_first = sig.posonly.pop(0)
        elif sig.args:
            sig.dropped_first = sig.args.pop(0)
        elif sig.vararg:
            sig.dropped_first = None  # bound instance is swallowed by *args
        else:
            return None  # a method without a receiver parameter: not a plain method
        sig.required.discard(sig.dropped_first)
    return sig


OK, ERROR, MAYBE = "ok", "error", "maybe"


def _bind_fixed(sig: Signature, npos: int, kw, kwsplat: bool):
    """Bind exactly ``npos`` positional arguments and the keywords ``kw`` (+ unknown keys if
    ``kwsplat``) -> (OK | ERROR | MAYBE, reason)."""
    slots = sig.slots
    if npos > len(slots) and sig.vararg is None:
        return ERROR, f"takes {len(slots)} positional argument(s) but {npos} were given"
    filled = set(slots[:npos])
    unexpected = []
    for k in sorted(kw):
        if k in sig.args:
            if k in filled:
                return ERROR, f"got multiple values for argument '{k}'"
            filled.add(k)
        elif k in sig.kwonly:
            filled.add(k)
        elif k in sig.posonly:
            if sig.kwarg is None:
                return ERROR, f"positional-only parameter '{k}' passed as keyword argument"
        elif sig.kwarg is None:
            unexpected.append(k)
    if unexpected:
        return ERROR, "got unexpected keyword argument(s) " + ", ".join(f"'{k}'" for k in unexpected)
    missing = [n for n in slots + sig.kwonly if n in sig.required and n not in filled]
    hard = [n for n in missing if n in sig.posonly]
    if hard or (missing and not kwsplat):
        names = hard if hard else missing
        kind = "keyword-only" if all(n in sig.kwonly for n in names) else "positional"
        return ERROR, f"missing required {kind} argument(s) " + ", ".join(f"'{n}'" for n in names)
    if kwsplat:
        if missing:
            return MAYBE, "required argument(s) " + ", ".join(missing) + " must come from the ** mapping"
        if sig.kwarg is not None and not sig.args and not sig.kwonly:
            return OK, "binds (unknown keys go to **" + sig.kwarg + ")"
        return MAYBE, "depends on the keys of the ** mapping"
    return OK, "binds"


def outcomes(cs: CallShape, funcdef, skip_first=True):
    """[(n_extra_from_star, status, reason)] over the distinguishable lengths of the starred part."""
    sig = funcdef if isinstance(funcdef, Signature) else signature(funcdef, skip_first)
    if sig is None:
        return None
    if not cs.star:
        st, why = _bind_fixed(sig, cs.npos, cs.kw, cs.kwsplat)
        return [(0, st, why)]
    out = []
    top = max(len(sig.slots) - cs.npos, 0) + 1  # one more than the slots: the overflow case
    for extra in range(0, top + 1):
        st, why = _bind_fixed(sig, cs.npos + extra, cs.kw, cs.kwsplat)
        out.append((extra, st, why))
    return out


def bind(call_shape: CallShape, funcdef_node, skip_first=True):
    """-> (ok, reason).  ok is True (always binds) / False (always TypeError) / None (undecided)."""
    outs = outcomes(call_shape, funcdef_node, skip_first)
    if outs is None:
        return None, "signature not readable"
    sts = {st for _, st, _ in outs}
    if sts == {ERROR}:
        # the most informative reason: the one of the star length that gets furthest
        reasons = [why for _, _, why in outs]
        pref = [r for r in reasons if "unexpected keyword" in r or "positional-only" in r] or reasons
        return False, pref[0]
    if sts == {OK}:
        return True, "binds"
    good = [e for e, st, _ in outs if st == OK]
    if good:
        return None, f"binds when the starred part supplies {_fmt_counts(good, outs)} positional argument(s)"
    return None, next(why for _, st, why in outs if st == MAYBE)


def _fmt_counts(good, outs):
    last = outs[-1][0]
    txt = ",".join(str(g) for g in good if g != last)
    if last in good:
        txt = (txt + "," if txt else "") + f">={last}"
    return txt


def binds_for_some(call_shape: CallShape, funcdef_node, skip_first=True):
    """True if at least one completion of the unknown parts binds; False if none; None if unreadable."""
    outs = outcomes(call_shape, funcdef_node, skip_first)
    if outs is None:
        return None
    return any(st in (OK, MAYBE) for _, st, _ in outs)


# ---------------------------------------------------------------------------------------------
# call shapes from ast.Call


def _literal_keys(node):
    """Keys of a ``**{...}`` / ``**dict(a=…)`` argument when they are all literal, else None."""
    if isinstance(node, ast.Dict):
        keys = []
        for k in node.keys:
            if isinstance(k, ast.Constant) and isinstance(k.value, str):
                keys.append(k.value)
            else:
                return None  # computed key or nested ** unpacking
        return keys
    if isinstance(node, ast.Call) and isinstance(node.func, ast.Name) and node.func.id == "dict" and not node.args:
        if all(kw.arg is not None for kw in node.keywords):
            return [kw.arg for kw in node.keywords]
    return None


def call_shape(call: ast.Call, drop_leading=0) -> CallShape:
    """Shape of an ``ast.Call``.  ``drop_leading`` removes that many explicit leading positional
    arguments (e.g. the explicit ``self`` of ``Base.__init__(self, …)``)."""
    npos, star = 0, False
    for a in call.args:
        if isinstance(a, ast.Starred):
            if isinstance(a.value, (ast.Tuple, ast.List)) and not any(isinstance(e, ast.Starred) for e in a.value.elts):
                npos += len(a.value.elts)
            else:
                star = True
        else:
            npos += 1
    kw, kwsplat = set(), False
    for k in call.keywords:
        if k.arg is not None:
            kw.add(k.arg)
        else:
            keys = _literal_keys(k.value)
            if keys is None:
                kwsplat = True
            else:
                kw.update(keys)
    if drop_leading:
        lead = 0
        for a in call.args[:drop_leading]:
            if isinstance(a, ast.Starred):
                break
            lead += 1
        npos = max(npos - lead, 0)
    return CallShape(npos, star, frozenset(kw), kwsplat)


def call_keywords(call: ast.Call):
    """(certain keyword names, has-unknown-** flag) of a call."""
    cs = call_shape(call)
    return cs.kw, cs.kwsplat
