"""E8 — self-test: every rule must fire on a seeded single edit and stay silent on controls.

A variant is a textual single edit of one (or two) source files, applied *in memory* as an
overlay on top of the working tree (nothing is written to disk, /repo is never touched).  The
edited source must still compile.  For a ``fire`` variant the property's check must produce a
new finding (one that the unedited tree does not have) of the expected rule naming the expected
construct; for a ``silent`` variant (behaviour-preserving edit) it must produce no new finding.

Workers are forked from a parent that has already parsed the package, so only the edited files
are re-parsed per variant.
"""

from __future__ import annotations

import importlib
import multiprocessing as mp
import os
import time
from pathlib import Path

from . import core
from .index import preparse


def _load(pid):
    return importlib.import_module(f"pennyverif.props.{pid.lower()}")


def _apply(root: Path, edits):
    overlay = {}
    for rel, old, new in edits:
        src = overlay.get(rel)
        if src is None:
            p = root / rel
            if not p.exists():
                return None, f"stale: {rel} missing"
            src = p.read_text(encoding="utf-8")
        if src.count(old) < 1:
            return None, f"stale: edit anchor not found in {rel}: {old[:50]!r}"
        src = src.replace(old, new, 1)
        try:
            compile(src, rel, "exec")
        except SyntaxError as e:
            return None, f"broken variant (does not compile): {e}"
        overlay[rel] = src
    return overlay, None


_BASE = {}


def _baseline_keys(pid, root):
    k = (pid, str(root))
    if k not in _BASE:
        rep, err = core.analyse(_load(pid).check, root, "quick")
        if rep is None:
            _BASE[k] = (None, err)
        else:
            _BASE[k] = ({f.key() for f in rep.findings}, None)
    return _BASE[k]


def _run_variant(args):
    pid, v, root, basekeys = args
    if basekeys is not None:
        _BASE[(pid, str(Path(root)))] = (set(basekeys), None)
    t0 = time.time()
    root = Path(root)
    overlay, err = _apply(root, v["edits"])
    res = {"property": pid, "name": v["name"], "kind": v["kind"], "expect": v.get("expect")}
    if overlay is None:
        res.update(status="stale" if err.startswith("stale") else "broken", detail=err)
        return res
    base, berr = _baseline_keys(pid, root)
    if base is None:
        res.update(status="error", detail=f"baseline analysis failed: {berr}")
        return res
    rep, err = core.analyse(_load(pid).check, root, "quick", overlay=overlay)
    res["wall_s"] = round(time.time() - t0, 2)
    if rep is None:
        # an edit that removes an anchor is *detected* (exit 2), but not as a named violation
        res.update(status="analysis-error", detail=err[:300])
        return res
    new = [f for f in rep.findings if f.key() not in base]
    if v["kind"] == "silent":
        if new:
            res.update(status="FAIL", detail="control raised: " + "; ".join(f"{f.rule} {f.construct}: {f.message}" for f in new[:3]))
        else:
            res.update(status="ok", detail="silent")
        return res
    rule, construct = v["expect"]
    hits = [f for f in new if f.rule == rule and construct in f.construct + " " + f.statement + " " + f.message]
    if hits:
        f = hits[0]
        res.update(status="ok", detail=f"{f.rule} {f.module}:{f.line} {f.construct}: {f.message}"[:300])
    elif new:
        res.update(status="FAIL", detail="fired, but not the expected rule/construct: " + "; ".join(f"{f.rule} {f.construct}" for f in new[:4]))
    else:
        res.update(status="FAIL", detail="no new finding")
    return res


def variants_for(pid):
    from . import variants

    return [v for v in variants.VARIANTS if v["property"] == pid]


def run(pids, root, jobs=16):
    root = Path(root).resolve()
    if not any(variants_for(pid) for pid in pids):
        return []
    base = {}
    for pid in pids:
        keys, _err = _baseline_keys(pid, root)
        base[pid] = None if keys is None else sorted(keys)
    todo = [(pid, v, str(root), base[pid]) for pid in pids for v in variants_for(pid)]
    jobs = max(1, min(jobs, len(todo), os.cpu_count() or 1))
    if jobs == 1:
        return [_run_variant(t) for t in todo]
    # spawn, not fork: forked workers sharing the parent's parsed trees spend their time in
    # copy-on-write page faults (reference counts touch every AST node)
    ctx = mp.get_context("spawn")
    with ctx.Pool(jobs) as pool:
        return pool.map(_run_variant, todo, chunksize=1)


def summarise(results):
    s = {"variants": len(results)}
    for st in ("ok", "FAIL", "stale", "broken", "analysis-error", "error"):
        s[st] = sum(1 for r in results if r["status"] == st)
    return s


def run_for_property(pid, root, jobs=16):
    """-> (ok, summary dict for the evidence file)"""
    results = run([pid], root, jobs)
    s = summarise(results)
    ok = s["FAIL"] == 0 and s["broken"] == 0 and s["error"] == 0
    s["results"] = [
        {k: r.get(k) for k in ("name", "kind", "status", "detail")} for r in results
    ]
    return ok, s


def main(args):
    from .__main__ import CLAIMED

    pids = args.ids or CLAIMED
    if args.list:
        for pid in pids:
            for v in variants_for(pid):
                print(pid, v["kind"], v["name"], v.get("expect"))
        return 0
    t0 = time.time()
    results = run(pids, args.root, args.jobs)
    bad = 0
    for r in results:
        flag = {"ok": "ok  ", "FAIL": "FAIL", "stale": "stal", "broken": "BRKN", "analysis-error": "AERR", "error": "ERR "}[r["status"]]
        if r["status"] in ("FAIL", "broken", "error"):
            bad += 1
        print(f"{flag} {r['property']} {r['kind']:6} {r['name']}: {r.get('detail', '')}")
    s = summarise(results)
    print(f"self-test: {s} in {time.time() - t0:.1f}s")
    return 2 if bad else 0
