"""E0 — package index: modules, import/alias resolution, classes with MRO, functions.

Built from the *working tree* under ``<root>/pennylane`` on every run (parse only).
"""

from __future__ import annotations

import ast
import hashlib
import os
from pathlib import Path

from .core import AnalysisError

EXCLUDE_DIRS = {"labs", "tests", "__pycache__"}
BUILTIN_NAMES = set(dir(__builtins__)) if not isinstance(__builtins__, dict) else set(__builtins__)


class Module:
    def __init__(self, name, path: Path, relpath: str, tree: ast.Module, source: str, is_pkg: bool):
        self.name = name
        self.path = path
        self.relpath = relpath
        self.tree = tree
        self.source = source
        self.is_pkg = is_pkg
        self.names: dict[str, tuple] = {}  # local name -> binding
        self.star_imports: list[str] = []
        self.classes: dict[str, "ClassInfo"] = {}
        self.functions: dict[str, "FuncInfo"] = {}
        self.all_assigns: dict[str, list[ast.AST]] = {}  # every module-level assignment per name

    def __repr__(self):
        return f"<Module {self.name}>"


class FuncInfo:
    def __init__(self, module: Module, node, cls=None, parent=None):
        self.module = module
        self.node = node
        self.cls = cls
        self.parent = parent
        self.name = node.name

    @property
    def qualname(self):
        if self.cls is not None:
            return f"{self.cls.name}.{self.name}"
        if self.parent is not None:
            return f"{self.parent.qualname}.<locals>.{self.name}"
        return self.name

    @property
    def fq(self):
        return f"{self.module.name}.{self.qualname}"

    def decorators(self):
        return list(self.node.decorator_list)

    def __repr__(self):
        return f"<Func {self.fq}>"


class ClassInfo:
    def __init__(self, module: Module, node: ast.ClassDef, outer=None):
        self.module = module
        self.node = node
        self.name = node.name
        self.outer = outer
        self.base_exprs = list(node.bases)
        self.bases: list[ClassInfo] = []
        self.unresolved_bases: list[str] = []
        self.methods: dict[str, list[FuncInfo]] = {}
        self.assigns: dict[str, ast.AST] = {}
        self.ann: dict[str, ast.AST] = {}
        self._mro = None
        for st in node.body:
            if isinstance(st, (ast.FunctionDef, ast.AsyncFunctionDef)):
                self.methods.setdefault(st.name, []).append(FuncInfo(module, st, cls=self))
            elif isinstance(st, ast.Assign):
                for t in st.targets:
                    if isinstance(t, ast.Name):
                        self.assigns[t.id] = st.value
            elif isinstance(st, ast.AnnAssign) and isinstance(st.target, ast.Name):
                self.ann[st.target.id] = st.annotation
                if st.value is not None:
                    self.assigns[st.target.id] = st.value

    @property
    def fq(self):
        return f"{self.module.name}.{self.name}"

    def __repr__(self):
        return f"<Class {self.fq}>"

    # -- MRO ------------------------------------------------------------------------------
    def mro(self):
        if self._mro is None:
            self._mro = _c3(self, set())
        return self._mro

    def is_subclass_of(self, *fq_or_names):
        for c in self.mro():
            if c.fq in fq_or_names or c.name in fq_or_names:
                return True
        return False

    def strict_ancestors(self):
        return self.mro()[1:]

    # -- lookup ---------------------------------------------------------------------------
    def own_method(self, name, kind=None):
        """Own definition of ``name``. kind: None -> the getter/plain def; 'setter' -> setter."""
        for f in self.methods.get(name, []):
            decs = [_dec_name(d) for d in f.node.decorator_list]
            is_setter = any(d.endswith(".setter") for d in decs)
            is_deleter = any(d.endswith(".deleter") for d in decs)
            if kind == "setter" and is_setter:
                return f
            if kind is None and not is_setter and not is_deleter:
                return f
        return None

    def lookup(self, name, stop_at=()):
        """First class in the MRO defining ``name`` (method or class-level assignment).

        Returns (ClassInfo, FuncInfo|ast value) or (None, None). ``stop_at``: fq/bare names of
        classes at which (and beyond which) the search stops.
        """
        for c in self.mro():
            if c.fq in stop_at or c.name in stop_at:
                break
            f = c.own_method(name)
            if f is not None:
                return c, f
            if name in c.assigns:
                return c, c.assigns[name]
        return None, None

    def lookup_all(self, name):
        out = []
        for c in self.mro():
            f = c.own_method(name)
            if f is not None:
                out.append((c, f))
            elif name in c.assigns:
                out.append((c, c.assigns[name]))
        return out

    def is_property(self, name):
        c, f = self.lookup(name)
        return isinstance(f, FuncInfo) and has_decorator(f.node, "property", "cached_property", "classproperty")


def _dec_name(d):
    if isinstance(d, ast.Call):
        d = d.func
    try:
        return ast.unparse(d)
    except Exception:  # pragma: no cover
        return ""


def has_decorator(node, *names):
    for d in node.decorator_list:
        n = _dec_name(d)
        if n in names or n.split(".")[-1] in names:
            return True
    return False


def _c3(cls: ClassInfo, visiting):
    if cls in visiting:
        return [cls]
    visiting = visiting | {cls}
    seqs = [list(_c3(b, visiting)) for b in cls.bases] + [list(cls.bases)]
    res = [cls]
    seqs = [s for s in seqs if s]
    while seqs:
        cand = None
        for s in seqs:
            c = s[0]
            if not any(c in t[1:] for t in seqs):
                cand = c
                break
        if cand is None:  # inconsistent hierarchy (only via unresolved aliasing): DFS fallback
            cand = seqs[0][0]
        res.append(cand)
        seqs = [[x for x in s if x is not cand] for s in seqs]
        seqs = [s for s in seqs if s]
    return res


class Index:
    def __init__(self, root: Path, overlay=None):
        self.root = Path(root)
        self.overlay = dict(overlay or {})  # relpath -> replacement source (self-test variants)
        self.modules: dict[str, Module] = {}
        self.by_relpath: dict[str, Module] = {}
        self.classes: list[ClassInfo] = []
        self.functions: list[FuncInfo] = []  # top-level + methods + nested
        self._resolve_cache = {}
        self.parse_errors: list[str] = []
        self._build()

    # -- construction ---------------------------------------------------------------------
    def _build(self):
        pkg = self.root / "pennylane"
        if not pkg.is_dir():
            raise AnalysisError(f"{pkg} is not a directory")
        files = []
        for dirpath, dirnames, filenames in os.walk(pkg):
            dirnames[:] = sorted(d for d in dirnames if d not in EXCLUDE_DIRS)
            for fn in sorted(filenames):
                if fn.endswith(".py"):
                    files.append(Path(dirpath) / fn)
        for p in files:
            rel = p.relative_to(self.root).as_posix()
            parts = list(p.relative_to(self.root).with_suffix("").parts)
            is_pkg = parts[-1] == "__init__"
            if is_pkg:
                parts = parts[:-1]
            name = ".".join(parts)
            try:
                if rel in self.overlay:
                    src = self.overlay[rel]
                    tree = ast.parse(src, filename=str(p))
                else:
                    src, tree = _parse_cached(p)
            except SyntaxError as e:
                raise AnalysisError(f"cannot parse {rel}: {e}") from e
            m = Module(name, p, rel, tree, src, is_pkg)
            self.modules[name] = m
            self.by_relpath[rel] = m
        for m in self.modules.values():
            self._scan_module(m)
        for c in self.classes:
            self._resolve_bases(c)

    def _scan_module(self, m: Module):
        def scan_body(body, top=True):
            for st in body:
                if isinstance(st, (ast.Import, ast.ImportFrom)):
                    self._scan_import(m, st)
                elif isinstance(st, ast.ClassDef):
                    ci = ClassInfo(m, st)
                    if top or st.name not in m.classes:
                        m.classes[st.name] = ci
                        m.names[st.name] = ("class", ci)
                    self.classes.append(ci)
                    self._register_class_funcs(ci)
                elif isinstance(st, (ast.FunctionDef, ast.AsyncFunctionDef)):
                    fi = FuncInfo(m, st)
                    m.functions[st.name] = fi
                    m.names[st.name] = ("func", fi)
                    self.functions.append(fi)
                    self._register_nested(fi)
                elif isinstance(st, ast.Assign):
                    for t in st.targets:
                        for nm in _target_names(t):
                            m.all_assigns.setdefault(nm, []).append(st.value)
                        if isinstance(t, ast.Name):
                            m.names[t.id] = ("assign", st.value)
                elif isinstance(st, ast.AnnAssign) and isinstance(st.target, ast.Name):
                    if st.value is not None:
                        m.names[st.target.id] = ("assign", st.value)
                        m.all_assigns.setdefault(st.target.id, []).append(st.value)
                elif isinstance(st, ast.AugAssign) and isinstance(st.target, ast.Name):
                    m.all_assigns.setdefault(st.target.id, []).append(st)
                elif isinstance(st, (ast.If, ast.Try)):
                    # conditional imports / definitions: take every arm
                    for sub in _sub_bodies(st):
                        scan_body(sub, top=False)
                elif isinstance(st, ast.With):
                    scan_body(st.body, top=False)

        scan_body(m.tree.body)

    def _register_class_funcs(self, ci: ClassInfo):
        for fl in ci.methods.values():
            for f in fl:
                self.functions.append(f)
                self._register_nested(f)
        for st in ci.node.body:
            if isinstance(st, ast.ClassDef):
                inner = ClassInfo(ci.module, st, outer=ci)
                self.classes.append(inner)
                self._register_class_funcs(inner)

    def _register_nested(self, fi: FuncInfo):
        stack = list(ast.iter_child_nodes(fi.node))
        while stack:
            n = stack.pop()
            if isinstance(n, (ast.FunctionDef, ast.AsyncFunctionDef)):
                sub = FuncInfo(fi.module, n, parent=fi)
                self.functions.append(sub)
                self._register_nested(sub)
            elif isinstance(n, (ast.Lambda, ast.ClassDef)):
                continue
            else:
                stack.extend(ast.iter_child_nodes(n))

    def _scan_import(self, m: Module, st):
        if isinstance(st, ast.Import):
            for a in st.names:
                if a.asname:
                    m.names[a.asname] = ("import", a.name)
                else:
                    top = a.name.split(".")[0]
                    m.names[top] = ("import", top)
        else:
            base = self._abs_from(m, st)
            for a in st.names:
                if a.name == "*":
                    m.star_imports.append(base)
                else:
                    m.names[a.asname or a.name] = ("from", (base, a.name))

    def _abs_from(self, m: Module, st: ast.ImportFrom):
        if not st.level:
            return st.module or ""
        parts = m.name.split(".")
        if not m.is_pkg:
            parts = parts[:-1]
        up = st.level - 1
        if up:
            parts = parts[:-up] if up <= len(parts) else []
        if st.module:
            parts = parts + st.module.split(".")
        return ".".join(parts)

    def _resolve_bases(self, c: ClassInfo):
        for b in c.base_exprs:
            tgt = b
            if isinstance(b, ast.Subscript):  # Generic[...] style
                tgt = b.value
            r = self.resolve_expr(c.module, tgt)
            if isinstance(r, ClassInfo):
                c.bases.append(r)
            else:
                try:
                    c.unresolved_bases.append(ast.unparse(b))
                except Exception:  # pragma: no cover
                    c.unresolved_bases.append("?")

    # -- resolution -----------------------------------------------------------------------
    def resolve_dotted(self, dotted: str, _depth=0):
        """Resolve an absolute dotted path to Module | ClassInfo | FuncInfo | ('value', Module, node) | None."""
        key = ("abs", dotted)
        if key in self._resolve_cache:
            return self._resolve_cache[key]
        if _depth > 25:
            return None
        self._resolve_cache[key] = None  # cycle guard
        parts = dotted.split(".")
        res = None
        for i in range(len(parts), 0, -1):
            mn = ".".join(parts[:i])
            if mn in self.modules:
                cur = self.modules[mn]
                ok = True
                for j, p in enumerate(parts[i:]):
                    cur = self._member(cur, p, _depth + 1)
                    if cur is None:
                        ok = False
                        break
                if ok:
                    res = cur
                    break
        self._resolve_cache[key] = res
        return res

    def _member(self, obj, name, _depth=0):
        if _depth > 25:
            return None
        if isinstance(obj, Module):
            sub = f"{obj.name}.{name}"
            b = obj.names.get(name)
            if b is not None:
                kind, val = b
                if kind == "import":
                    r = self.resolve_dotted(val, _depth + 1)
                    if r is not None:
                        return r
                    if sub in self.modules:
                        return self.modules[sub]
                    return None
                if kind == "from":
                    base, nm = val
                    bm = self.modules.get(base)
                    if bm is None:
                        return None
                    if bm is obj and nm == name:
                        return self.modules.get(sub)
                    key = ("from", base, nm)
                    if key in self._resolve_cache:
                        return self._resolve_cache[key]
                    self._resolve_cache[key] = None
                    r = self._member(bm, nm, _depth + 1)
                    self._resolve_cache[key] = r
                    return r
                if kind in ("class", "func"):
                    return val
                if kind == "assign":
                    # alias assignment  X = PauliX / H = Hadamard / foo = mod.bar
                    if isinstance(val, (ast.Name, ast.Attribute)):
                        r = self.resolve_expr(obj, val, _depth + 1)
                        if r is not None and not (isinstance(r, tuple) and r[0] == "value"):
                            return r
                    return ("value", obj, val)
            if sub in self.modules:
                return self.modules[sub]
            for star in obj.star_imports:
                sm = self.modules.get(star)
                if sm is not None and sm is not obj:
                    r = self._member(sm, name, _depth + 1)
                    if r is not None:
                        return r
            return None
        if isinstance(obj, ClassInfo):
            c, f = obj.lookup(name)
            if isinstance(f, FuncInfo):
                return f
            if f is not None:
                if isinstance(f, (ast.Name, ast.Attribute)):
                    r = self.resolve_expr(c.module, f, _depth + 1)
                    if r is not None:
                        return r
                return ("value", c.module, f)
            for inner in self.classes:
                if inner.outer is obj and inner.name == name:
                    return inner
            return None
        return None

    def resolve_expr(self, module: Module, expr, _depth=0):
        """Resolve a Name / dotted Attribute expression as seen from ``module``'s global scope."""
        parts = dotted_parts(expr)
        if not parts:
            return None
        cur = self._member(module, parts[0], _depth + 1)
        if cur is None:
            return None
        for p in parts[1:]:
            cur = self._member(cur, p, _depth + 1)
            if cur is None:
                return None
        return cur

    def resolve_class(self, module: Module, expr):
        r = self.resolve_expr(module, expr)
        return r if isinstance(r, ClassInfo) else None

    # -- queries --------------------------------------------------------------------------
    def module(self, relpath_or_name) -> Module:
        m = self.by_relpath.get(relpath_or_name) or self.modules.get(relpath_or_name)
        if m is None:
            raise AnalysisError(f"anchor module vanished: {relpath_or_name}")
        return m

    def cls(self, relpath_or_name, clsname) -> ClassInfo:
        m = self.module(relpath_or_name)
        c = m.classes.get(clsname)
        if c is None:
            for k in self.classes:
                if k.module is m and k.name == clsname:
                    return k
            raise AnalysisError(f"anchor class vanished: {m.relpath}:{clsname}")
        return c

    def func(self, relpath_or_name, qual) -> FuncInfo:
        """qual: 'f' or 'Cls.f' or 'f.<locals>.g'."""
        m = self.module(relpath_or_name)
        for f in self.functions:
            if f.module is m and f.qualname == qual:
                return f
        raise AnalysisError(f"anchor function vanished: {m.relpath}:{qual}")

    def maybe_func(self, relpath_or_name, qual):
        try:
            return self.func(relpath_or_name, qual)
        except AnalysisError:
            return None

    def subclasses_of(self, *fqs):
        return [c for c in self.classes if any(a.fq in fqs for a in c.mro())]

    def classes_named(self, name):
        return [c for c in self.classes if c.name == name]

    def funcs_in(self, module: Module):
        return [f for f in self.functions if f.module is module]


def _target_names(t):
    if isinstance(t, ast.Name):
        return [t.id]
    if isinstance(t, (ast.Tuple, ast.List)):
        out = []
        for e in t.elts:
            out += _target_names(e)
        return out
    return []


def _sub_bodies(st):
    if isinstance(st, ast.If):
        return [st.body, st.orelse]
    if isinstance(st, ast.Try):
        return [st.body, st.orelse, st.finalbody] + [h.body for h in st.handlers]
    return []


def _direct_parent_func(outer, inner):
    """True if ``inner`` is nested in ``outer`` with no other function in between."""
    stack = [(outer, c) for c in ast.iter_child_nodes(outer)]
    while stack:
        par, n = stack.pop()
        if n is inner:
            return True
        if isinstance(n, (ast.FunctionDef, ast.AsyncFunctionDef, ast.Lambda, ast.ClassDef)):
            continue
        stack.extend((n, c) for c in ast.iter_child_nodes(n))
    return False


def dotted_parts(expr):
    parts = []
    while isinstance(expr, ast.Attribute):
        parts.append(expr.attr)
        expr = expr.value
    if isinstance(expr, ast.Name):
        parts.append(expr.id)
        return parts[::-1]
    return None


def dotted(expr):
    p = dotted_parts(expr)
    return ".".join(p) if p else None


_INDEX_CACHE = {}
_PARSE_CACHE = {}


def _parse_cached(p: Path):
    st = os.stat(p)
    key = (str(p), st.st_mtime_ns, st.st_size)
    hit = _PARSE_CACHE.get(str(p))
    if hit is not None and hit[0] == key:
        return hit[1], hit[2]
    src = p.read_text(encoding="utf-8")
    tree = ast.parse(src, filename=str(p))
    _PARSE_CACHE[str(p)] = (key, src, tree)
    return src, tree


def preparse(root):
    """Parse every module once (the self-test forks workers that share these trees)."""
    root = Path(root).resolve()
    for dirpath, dirnames, filenames in os.walk(root / "pennylane"):
        dirnames[:] = sorted(d for d in dirnames if d not in EXCLUDE_DIRS)
        for fn in sorted(filenames):
            if fn.endswith(".py"):
                _parse_cached(Path(dirpath) / fn)


def get_index(root, overlay=None) -> Index:
    root = Path(root).resolve()
    if overlay:
        return Index(root, overlay=overlay)
    # digest of (path, mtime, size) so one process never re-parses an unchanged tree
    h = hashlib.sha1()
    for dirpath, dirnames, filenames in os.walk(root / "pennylane"):
        dirnames[:] = sorted(d for d in dirnames if d not in EXCLUDE_DIRS)
        for fn in sorted(filenames):
            if fn.endswith(".py"):
                st = os.stat(os.path.join(dirpath, fn))
                h.update(f"{dirpath}/{fn}:{st.st_mtime_ns}:{st.st_size};".encode())
    key = (str(root), h.hexdigest())
    if key not in _INDEX_CACHE:
        _INDEX_CACHE.clear()
        _INDEX_CACHE[key] = Index(root)
    return _INDEX_CACHE[key]
