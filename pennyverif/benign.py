"""Behaviour-preserving rewrites of the whole analysed package, held in memory (overlay; the tree on disk is not touched).

A checker of this family must not change its verdict when the source is re-formatted, shifted or has its locals renamed:
a refutation that appears only on the rewritten tree is a false alarm in waiting (the rule is keyed on text or positions).
modes:  shift     a comment + blank lines inserted at the top of every module and before every top-level def/class
        unparse   every module re-emitted by ast.unparse (drops comments, changes quoting, parentheses, line numbers)
        rename    every function-local variable bound only by plain assignment / for targets is renamed (x -> x_v)
"""

from __future__ import annotations

import ast
from pathlib import Path

MODES = ("shift", "unparse", "rename")


def shift(src):
    out = ["# benign shift", "", ""]
    for line in src.splitlines():
        if line.startswith(("def ", "class ", "@")) :
            out += ["", "# moved", ""] if not (out and out[-1].startswith("@")) else []
        out.append(line)
    return "\n".join(out) + "\n"


class Renamer(ast.NodeTransformer):
    """rename locals of each function that are bound only by simple assignment / for targets and never appear in
    nested scopes, global/nonlocal statements or as keyword names"""

    def visit_FunctionDef(self, node):
        self.generic_visit(node)
        params = {a.arg for a in node.args.posonlyargs + node.args.args + node.args.kwonlyargs}
        if node.args.vararg:
            params.add(node.args.vararg.arg)
        if node.args.kwarg:
            params.add(node.args.kwarg.arg)
        nested_names = set()
        blocked = set()
        for n in ast.walk(node):
            if n is not node and isinstance(n, (ast.FunctionDef, ast.AsyncFunctionDef, ast.Lambda, ast.ClassDef, ast.ListComp, ast.SetComp, ast.DictComp, ast.GeneratorExp)):
                for x in ast.walk(n):
                    if isinstance(x, ast.Name):
                        nested_names.add(x.id)
            if isinstance(n, (ast.Global, ast.Nonlocal)):
                blocked |= set(n.names)
            if isinstance(n, (ast.Import, ast.ImportFrom)):
                blocked |= {(a.asname or a.name).split(".")[0] for a in n.names}
            if isinstance(n, ast.ExceptHandler) and n.name:
                blocked.add(n.name)
            if isinstance(n, (ast.With, ast.AsyncWith)):
                for it in n.items:
                    if it.optional_vars is not None:
                        blocked |= {x.id for x in ast.walk(it.optional_vars) if isinstance(x, ast.Name)}
            if isinstance(n, ast.NamedExpr):
                blocked.add(n.target.id)
            if isinstance(n, ast.MatchAs) and n.name:
                blocked.add(n.name)
            if isinstance(n, (ast.MatchStar,)) and n.name:
                blocked.add(n.name)
        stores = {x.id for x in ast.walk(node) if isinstance(x, ast.Name) and isinstance(x.ctx, ast.Store)}
        cand = {s for s in stores if s not in params and s not in nested_names and s not in blocked and not s.startswith("__") and s != "_"}
        if "locals" in {x.id for x in ast.walk(node) if isinstance(x, ast.Name)} or "vars" in {x.id for x in ast.walk(node) if isinstance(x, ast.Name)}:
            return node
        m = {c: c + "_v" for c in cand}

        class R(ast.NodeTransformer):
            def visit_Name(self, n):
                if n.id in m:
                    return ast.copy_location(ast.Name(id=m[n.id], ctx=n.ctx), n)
                return n

            def visit_FunctionDef(self, n):
                return n if n is not node else self.generic_visit(n)

            visit_AsyncFunctionDef = visit_FunctionDef

            def visit_Lambda(self, n):
                return n

            def visit_ClassDef(self, n):
                return n
        return R().visit(node)

    visit_AsyncFunctionDef = visit_FunctionDef



def build_overlay(root, mode, only=None):
    """only: iterable of relpaths to rewrite (default: every module of the package)"""
    root = Path(root)
    overlay = {}
    skipped = []
    paths = sorted((root / "pennylane").rglob("*.py")) if only is None else [root / r for r in sorted(only) if (root / r).is_file()]
    for p in paths:
        rel = str(p.relative_to(root))
        src = p.read_text()
        try:
            tree = ast.parse(src)
        except SyntaxError:
            continue
        if mode == "unparse":
            new = ast.unparse(tree) + "\n"
        elif mode == "shift":
            new = shift(src)
        elif mode == "rename":
            new = ast.unparse(ast.fix_missing_locations(Renamer().visit(tree))) + "\n"
        else:
            raise ValueError(mode)
        try:
            compile(new, rel, "exec")
        except SyntaxError:
            skipped.append(rel)
            continue
        overlay[rel] = new
    return overlay, skipped


def invariance(pid, check_fn, root, baseline_report, modes=MODES):
    """run ``check_fn`` on each rewritten tree; -> list of {mode, modules, new_refutations:[...], error}"""
    from . import core

    base = {(f.rule, f.module, f.construct) for f in baseline_report.findings}
    out = []
    for mode in modes:
        # the modules this check analysed (every rule records them) are the ones whose text can matter
        overlay, skipped = build_overlay(root, mode, only={f for f in baseline_report.files if f.endswith(".py")})
        rep, err = core.analyse(check_fn, Path(root), "quick", overlay=overlay)
        row = {"mode": mode, "modules_rewritten": len(overlay), "not_rewritten": len(skipped)}
        if rep is None:
            row["error"] = (err or "")[:300]
        else:
            new = [f for f in rep.findings if (f.rule, f.module, f.construct) not in base]
            row["refutations"] = len(rep.findings)
            row["new_refutations"] = [f"{f.rule} {f.module} {f.construct}: {str(f.statement)[:100]}" for f in new]
        out.append(row)
    return out
