"""Small AST helpers shared by the property checkers."""

from __future__ import annotations

import ast

from .cfg import walk_shallow


def call_name(call: ast.Call):
    """Dotted text of a call's callee ('a.b.c') or None."""
    f = call.func
    parts = []
    while isinstance(f, ast.Attribute):
        parts.append(f.attr)
        f = f.value
    if isinstance(f, ast.Name):
        parts.append(f.id)
        return ".".join(reversed(parts))
    return None


def method_call(node, recv_pred=None, names=None):
    """If ``node`` is ``<recv>.<name>(...)`` return (recv_expr, name) else None."""
    if isinstance(node, ast.Call) and isinstance(node.func, ast.Attribute):
        if names is not None and node.func.attr not in names:
            return None
        if recv_pred is not None and not recv_pred(node.func.value):
            return None
        return node.func.value, node.func.attr
    return None


def is_name(node, *ids):
    return isinstance(node, ast.Name) and (not ids or node.id in ids)


def is_self_attr(node, *attrs, selfname="self"):
    return (
        isinstance(node, ast.Attribute)
        and isinstance(node.value, ast.Name)
        and node.value.id == selfname
        and (not attrs or node.attr in attrs)
    )


def calls_in(node, shallow=True):
    it = walk_shallow(node) if shallow else ast.walk(node)
    return [n for n in it if isinstance(n, ast.Call)]


def names_in(node, ctx=None):
    out = []
    for n in walk_shallow(node):
        if isinstance(n, ast.Name) and (ctx is None or isinstance(n.ctx, ctx)):
            out.append(n)
    return out


def assigned_targets(st):
    """Targets (expr nodes) written by a simple statement (Assign/AugAssign/AnnAssign/Delete/For/With)."""
    if isinstance(st, ast.Assign):
        return list(st.targets)
    if isinstance(st, (ast.AugAssign,)):
        return [st.target]
    if isinstance(st, ast.AnnAssign):
        return [st.target] if st.value is not None else []
    if isinstance(st, ast.Delete):
        return list(st.targets)
    return []


def flatten_targets(t):
    if isinstance(t, (ast.Tuple, ast.List)):
        out = []
        for e in t.elts:
            out += flatten_targets(e)
        return out
    if isinstance(t, ast.Starred):
        return flatten_targets(t.value)
    return [t]


def local_assignments(func):
    """name -> list of (stmt, value_expr_or_None) for plain-name bindings in ``func`` (not nested).

    value is None when the binding is not a simple ``name = expr`` (loop target, tuple unpacking,
    with-as, walrus, augmented assignment, import ...).
    """
    out: dict[str, list] = {}

    def bind(name, st, val):
        out.setdefault(name, []).append((st, val))

    for n in walk_shallow(func):
        if n is func:
            continue
        if isinstance(n, ast.Assign):
            for t in n.targets:
                if isinstance(t, ast.Name):
                    bind(t.id, n, n.value)
                else:
                    for e in flatten_targets(t):
                        if isinstance(e, ast.Name):
                            bind(e.id, n, None)
        elif isinstance(n, ast.AnnAssign) and isinstance(n.target, ast.Name) and n.value is not None:
            bind(n.target.id, n, n.value)
        elif isinstance(n, ast.AugAssign) and isinstance(n.target, ast.Name):
            bind(n.target.id, n, None)
        elif isinstance(n, (ast.For, ast.AsyncFor)):
            for e in flatten_targets(n.target):
                if isinstance(e, ast.Name):
                    bind(e.id, n, None)
        elif isinstance(n, (ast.With, ast.AsyncWith)):
            for it in n.items:
                if it.optional_vars is not None:
                    for e in flatten_targets(it.optional_vars):
                        if isinstance(e, ast.Name):
                            bind(e.id, n, None)
        elif isinstance(n, ast.NamedExpr) and isinstance(n.target, ast.Name):
            bind(n.target.id, n, n.value)
        elif isinstance(n, ast.comprehension):
            for e in flatten_targets(n.target):
                if isinstance(e, ast.Name):
                    bind(e.id, n, None)
        elif isinstance(n, (ast.Import, ast.ImportFrom)):
            for a in n.names:
                bind((a.asname or a.name).split(".")[0], n, None)
        elif isinstance(n, ast.ExceptHandler) and n.name:
            bind(n.name, n, None)
    return out


def param_names(func, skip_self=False):
    a = func.args
    names = [x.arg for x in a.posonlyargs + a.args]
    if skip_self and names and names[0] in ("self", "cls"):
        names = names[1:]
    if a.vararg:
        names.append(a.vararg.arg)
    names += [x.arg for x in a.kwonlyargs]
    if a.kwarg:
        names.append(a.kwarg.arg)
    return names


def const_value(node, default=None):
    if isinstance(node, ast.Constant):
        return node.value
    if isinstance(node, ast.UnaryOp) and isinstance(node.op, ast.USub) and isinstance(node.operand, ast.Constant):
        return -node.operand.value
    return default


def str_elements(node):
    """Literal strings of a list/set/tuple display (None if any element is not a str literal)."""
    if not isinstance(node, (ast.List, ast.Set, ast.Tuple)):
        return None
    out = []
    for e in node.elts:
        if isinstance(e, ast.Constant) and isinstance(e.value, str):
            out.append(e.value)
        else:
            return None
    return out


def docstring_stripped_body(func):
    body = list(func.body)
    if body and isinstance(body[0], ast.Expr) and isinstance(body[0].value, ast.Constant) and isinstance(body[0].value.value, str):
        body = body[1:]
    return body


def enclosing_map(tree):
    """child node -> parent node for a whole tree."""
    parents = {}
    for p in ast.walk(tree):
        for c in ast.iter_child_nodes(p):
            parents[c] = p
    return parents


def expand_locals(func, stmt, expr, _depth=0):
    """Rewrite ``expr`` (read at top-level statement ``stmt`` of ``func``) with local names replaced by the expressions that
    the straight-line code before ``stmt`` binds them to.  Understood binding forms (top level of the function body only):
    ``x = e`` and ``if <test>: …; x = e`` without else (gives ``e if <test> else <earlier x>``; when the test is ``x is not
    None`` the else arm is the constant None).  Anything else leaves the name in place."""
    import copy as _copy

    body = list(func.body)
    if stmt not in body or _depth > 6:
        return expr
    before = body[: body.index(stmt)]

    def value_of(name, upto):
        for i in range(len(upto) - 1, -1, -1):
            s = upto[i]
            if isinstance(s, ast.Assign) and len(s.targets) == 1 and isinstance(s.targets[0], ast.Name) and s.targets[0].id == name:
                return subst(s.value, upto[:i])
            if isinstance(s, ast.If) and not s.orelse:
                inner = [b for b in s.body if isinstance(b, ast.Assign) and len(b.targets) == 1 and isinstance(b.targets[0], ast.Name) and b.targets[0].id == name]
                if inner:
                    last = inner[-1]
                    val = subst(last.value, upto[:i] + s.body[: s.body.index(last)])
                    t = s.test
                    is_not_none = (isinstance(t, ast.Compare) and len(t.ops) == 1 and isinstance(t.ops[0], ast.IsNot) and isinstance(t.left, ast.Name)
                                   and t.left.id == name and isinstance(t.comparators[0], ast.Constant) and t.comparators[0].value is None)
                    other = ast.Constant(value=None) if is_not_none else (value_of(name, upto[:i]) or ast.Name(id=name, ctx=ast.Load()))
                    return ast.IfExp(test=t, body=val, orelse=other)
            if any(isinstance(x, ast.Name) and isinstance(x.ctx, ast.Store) and x.id == name for x in ast.walk(s)):
                return None  # bound in a form not modelled
        return None

    def subst(e, upto):
        class R(ast.NodeTransformer):
            def visit_Name(self, n):
                if isinstance(n.ctx, ast.Load):
                    v = value_of(n.id, upto)
                    if v is not None:
                        return v
                return n
        return R().visit(_copy.deepcopy(e))

    return ast.fix_missing_locations(subst(expr, before))


def local_placeholders(func):
    """{local name: "$k"} for the names a function binds by assignment / for / with / walrus (parameters keep their names:
    they are part of the signature), numbered by first binding.  Used to key findings independently of what locals are called."""
    a = func.args
    params = {x.arg for x in a.posonlyargs + a.args + a.kwonlyargs}
    if a.vararg:
        params.add(a.vararg.arg)
    if a.kwarg:
        params.add(a.kwarg.arg)
    out = {}
    stores = sorted((n for n in ast.walk(func) if isinstance(n, ast.Name) and isinstance(n.ctx, ast.Store)), key=lambda n: (n.lineno, n.col_offset))
    for n in stores:
        if n.id not in params and n.id not in out:
            out[n.id] = f"${len(out) + 1}"
    return out


def norm_renamed(node, mapping):
    """``ast.unparse`` of ``node`` with Name identifiers renamed through ``mapping``"""
    import copy as _copy

    class R(ast.NodeTransformer):
        def visit_Name(self, n):
            return ast.copy_location(ast.Name(id=mapping.get(n.id, n.id), ctx=n.ctx), n)
    return ast.unparse(R().visit(_copy.deepcopy(node))).replace("$", "_")


def _walk_shallow(node):
    from .cfg import walk_shallow

    return walk_shallow(node)


def inline_single_defs(func_node):
    """{name: expression} for locals of the function that are bound exactly once by a plain assignment (flags such as
    `fresh = bool(copy_operations or update)`), used to read a branch condition through its local names"""
    seen = {}
    for st in _walk_shallow(func_node):
        if isinstance(st, ast.Assign) and len(st.targets) == 1 and isinstance(st.targets[0], ast.Name):
            seen.setdefault(st.targets[0].id, []).append(st.value)
        elif isinstance(st, (ast.AugAssign, ast.AnnAssign)) and isinstance(st.target, ast.Name):
            seen.setdefault(st.target.id, []).append(None)
        elif isinstance(st, (ast.For, ast.With)):
            for x in ast.walk(st.target if isinstance(st, ast.For) else ast.Module(body=[], type_ignores=[])):
                if isinstance(x, ast.Name):
                    seen.setdefault(x.id, []).append(None)
    return {k: v[0] for k, v in seen.items() if len(v) == 1 and v[0] is not None}


def read_through(test, defs, depth=0, keep=("update",)):
    """the condition with single-definition locals replaced by their definitions and bool(x) unwrapped"""
    import copy as _copy

    if depth > 3:
        return test

    class R(ast.NodeTransformer):
        def visit_Name(self, n):
            if isinstance(n.ctx, ast.Load) and n.id in defs and n.id not in keep:
                return read_through(_copy.deepcopy(defs[n.id]), defs, depth + 1, keep)
            return n

        def visit_Call(self, n):
            self.generic_visit(n)
            if isinstance(n.func, ast.Name) and n.func.id == "bool" and len(n.args) == 1 and not n.keywords:
                return n.args[0]
            return n
    return R().visit(_copy.deepcopy(test))


