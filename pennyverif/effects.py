"""E2 — flow-sensitive alias / effect analysis: "the input object is not mutated".

A forward abstract interpretation over the *structured* statements of a function.  The abstract
value of a variable is a set of tags describing how it may be related to the root object:

  T   the root object itself (the input tape / pipeline)
  L   a mutable container owned by the root and handed out by reference (tape.operations …)
  E   an element owned by the root (an operator / measurement of the input tape)
  I   a mutable internal of an owned element (op.hyperparameters …)
  FT  a fresh sibling of the root sharing its elements (tape.copy(), QuantumScript(tape.operations, …))
  FL  a fresh container whose elements are owned elements (list(tape.operations), tape.circuit …)
  CT  a fresh container that holds the root itself ([tape], (tape,))
  D   a datum (gate parameter / coefficient) of an owned element: for array-valued parameters a mutable ndarray
      that the input shares, so ``x += …`` / ``x[i] = …`` on it edits the input in place
  DL  a fresh container whose elements are such data (op.parameters, op.data, obs.terms()[0], tape.get_parameters())
  DH:<field> / DHC:<field>  an instance of a repository dataclass whose <field> was built from a DL value, and a dict
      holding such instances (the bookkeeping records transforms keep per measurement)

``if`` joins both arms, loops iterate to a fixpoint, ``try`` joins handler entries, nested functions
(the post-processing closures) are analysed with the final environment of the enclosing function.
Calls into functions that resolve through the index are summarised ("mutates parameter i" / "returns
alias of parameter i") lazily and to a bounded depth.  Unknown callees are assumed effect free and to
return fresh objects (stated assumption: this makes the analysis incomplete, never noisy).

A *sink* is a statement that writes through a T, L, E or I value.  Only sinks are reported.
"""

from __future__ import annotations

import ast
from dataclasses import dataclass, field

from .astutil import call_name
from .cfg import walk_shallow
from .core import norm
from .index import ClassInfo, FuncInfo

T, L, E, I, FT, FL, CT = "T", "L", "E", "I", "FT", "FL", "CT"
D, DL = "D", "DL"
ARRAY_MUT = {"fill", "sort", "itemset", "resize", "put", "partition", "setfield", "__setitem__", "__iadd__", "__imul__", "__isub__"}
LIST_MUT = {"append", "extend", "insert", "pop", "remove", "clear", "sort", "reverse", "__setitem__", "__delitem__", "__iadd__"}
DICT_MUT = {"update", "pop", "popitem", "setdefault", "clear", "__setitem__", "__delitem__"}
SET_MUT = {"add", "discard", "remove", "update", "clear", "pop"}
ITER_WRAPPERS = {"list", "tuple", "sorted", "reversed", "iter", "set", "frozenset", "filter"}


@dataclass
class Spec:
    """What the root object looks like (names read off the repository, confirmed by reading)."""

    name: str = "tape"
    alias_attrs: frozenset = frozenset()  # root.attr -> L
    fresh_attrs: frozenset = frozenset()  # root.attr -> FL (fresh container of owned elements)
    elem_internal_attrs: frozenset = frozenset()  # elem.attr -> I
    elem_sub_attrs: frozenset = frozenset()  # elem.attr -> E (owned sub-element)
    elem_subs_attrs: frozenset = frozenset()  # elem.attr -> FL (container of owned sub-elements)
    copy_methods: frozenset = frozenset()  # root.m(...) -> FT
    maybe_self_methods: frozenset = frozenset()  # root.m(...) -> FT or T (may return self)
    mutating_methods: frozenset = frozenset()  # root.m(...) mutates the root
    root_cache_attrs: frozenset = frozenset()  # lazily filled caches: stores are not sinks
    elem_cache_attrs: frozenset = frozenset()
    root_classes: frozenset = frozenset()  # constructor names producing FT when fed root parts
    elem_mutating_methods: frozenset = frozenset()
    share_attrs: frozenset = frozenset()  # sibling.attr = <owned container of the root> makes the two objects share it
    elem_data_attrs: frozenset = frozenset()  # elem.attr -> DL (fresh container of the element's parameter values)
    elem_datum_attrs: frozenset = frozenset()  # elem.attr -> D (one parameter value)
    elem_terms_methods: frozenset = frozenset()  # elem.m() -> (DL, FL)
    root_data_attrs: frozenset = frozenset()  # root.attr -> DL
    root_data_methods: frozenset = frozenset()  # root.m() -> DL
    root_expr_texts: frozenset = frozenset()  # normalised expressions that denote the root itself (e.g. kwargs.get("stim_circuit"))
    root_aug_mutates: bool = False  # `root += x` updates the root in place (mutable value types)


TAPE_SPEC = Spec(
    name="tape",
    alias_attrs=frozenset({"operations", "measurements", "_ops", "_measurements", "trainable_params", "_trainable_params"}),
    fresh_attrs=frozenset({"circuit", "observables", "diagonalizing_gates", "obs_sharing_wires", "obs_sharing_wires_id", "par_info"}),
    elem_internal_attrs=frozenset({"hyperparameters", "_hyperparameters", "__dict__"}),
    elem_sub_attrs=frozenset({"base", "obs", "mv", "then_op", "lcu"}),
    elem_subs_attrs=frozenset({"operands", "ops", "overlapping_ops"}),
    copy_methods=frozenset({"copy", "__copy__", "adjoint", "bind_new_parameters", "from_queue"}),
    maybe_self_methods=frozenset({"map_to_standard_wires", "expand"}),
    mutating_methods=frozenset({"_update", "_update_par_info", "_update_trainable_params", "set_parameters", "set_trainable_params"}),
    root_cache_attrs=frozenset({"_graph", "_specs", "_batch_size", "_obs_sharing_wires", "_obs_sharing_wires_id", "_output_dim", "_qfunc_output"}),
    # lazily computed caches / capture bookkeeping of operators: not part of the circuit's observable content
    # (_grouping_indices: LinearCombination.compute_grouping fills it on demand, the hash ignores it — probed;
    #  tracer: written by pop_op_eqns only while program capture is enabled)
    elem_cache_attrs=frozenset({"_batch_size", "_ndim_params", "_pauli_rep_cache", "_grouping_indices", "tracer"}),
    root_classes=frozenset({"QuantumScript", "QuantumTape", "OperationRecorder"}),
    elem_mutating_methods=frozenset(),
    # Operator.parameters = list(self.data); Operator.data is the stored tuple; SProd.scalar is data[0];
    # LinearCombination.coeffs / terms()[0] hand out the stored coefficient objects (read in operation.py / op_math)
    elem_data_attrs=frozenset({"parameters", "data", "coeffs"}),
    elem_datum_attrs=frozenset({"scalar"}),
    elem_terms_methods=frozenset({"terms"}),
    root_data_attrs=frozenset({"data"}),
    root_data_methods=frozenset({"get_parameters"}),
)


@dataclass
class Sink:
    func: FuncInfo
    node: ast.AST
    kind: str
    why: str
    chain: tuple = ()  # call chain from the root function to the function containing the write

    @property
    def line(self):
        return getattr(self.node, "lineno", 0)


@dataclass
class Result:
    sinks: list = field(default_factory=list)
    returns: set = field(default_factory=set)
    positions: object = "unset"  # per-position tags when every tracked return is a tuple display of one length; None = inconsistent
    cut: int = 0
    calls_resolved: int = 0
    calls_unresolved: int = 0


def _join(a, b):
    if a is None:
        return None if b is None else dict(b)
    if b is None:
        return dict(a)
    out = dict(a)
    for k, v in b.items():
        out[k] = out.get(k, frozenset()) | v
    return out


def _elem_of(tags):
    """tags of an element obtained by iterating / indexing a value with ``tags``"""
    out = set()
    if tags & {L, FL, T, FT}:
        out.add(E)
    if CT in tags:
        out.add(T)
    if I in tags:
        out |= {E, I}
    if DL in tags:
        out.add(D)
    for t in tags:
        if t.startswith("DHC:"):
            out.add("DH:" + t[4:])
    return frozenset(out)


def _container_of(elem_tags):
    out = set()
    if T in elem_tags or CT in elem_tags:
        out.add(CT)
    if E in elem_tags or FL in elem_tags or L in elem_tags:
        out.add(FL)
    if D in elem_tags:
        out.add(DL)
    return frozenset(out)


class Engine:
    def __init__(self, ix, spec: Spec = TAPE_SPEC, max_depth=3, dispatch_bases=()):
        self.ix = ix
        self.spec = spec
        self.max_depth = max_depth
        # names of base classes whose subclasses' methods are candidates for `elem.method(...)` calls (thorough tier)
        self.dispatch_bases = tuple(dispatch_bases)
        self._dispatch_cache = {}
        self._summaries = {}
        self._in_progress = set()
        self.stats = {"functions_analysed": 0, "summaries": 0, "depth_cuts": 0, "calls_resolved": 0, "calls_unresolved": 0}
        self.functions_seen = set()
        self._sd = None

    def registered_impls(self, g: FuncInfo):
        """implementations attached to a ``functools.singledispatch`` function with ``@g.register`` (any module)"""
        if self._sd is None:
            self._sd = {}
            for f in self.ix.functions:
                if f.cls is not None:
                    continue
                for d in f.node.decorator_list:
                    tgt = d.func if isinstance(d, ast.Call) else d
                    if isinstance(tgt, ast.Attribute) and tgt.attr == "register":
                        try:
                            r = self.ix.resolve_expr(f.module, tgt.value)
                        except RecursionError:
                            r = None
                        if isinstance(r, FuncInfo):
                            self._sd.setdefault(id(r.node), []).append(f)
        return self._sd.get(id(g.node), [])

    # ---------------------------------------------------------------------------------------
    def analyse(self, f: FuncInfo, init_env: dict, depth=None, chain=()):
        depth = self.max_depth if depth is None else depth
        run = _Run(self, f, depth, chain)
        env = {k: frozenset(v) for k, v in init_env.items()}
        self.stats["functions_analysed"] += 1
        self.functions_seen.add(f.fq)
        run.exec_function(f.node, env)
        return run.result

    def dispatch_candidates(self, method_name):
        """all definitions of ``method_name`` in classes deriving from the dispatch bases"""
        if not self.dispatch_bases:
            return []
        if method_name not in self._dispatch_cache:
            out = []
            for c in self.ix.classes:
                f = c.own_method(method_name)
                if f is not None and any(b.name in self.dispatch_bases for b in c.mro()):
                    out.append(f)
            self._dispatch_cache[method_name] = out
        return self._dispatch_cache[method_name]

    def summary(self, g: FuncInfo, param: str, tag: str, depth, chain):
        key = (g.fq, g.node.lineno, param, tag)
        if key in self._summaries:
            return self._summaries[key]
        if key in self._in_progress or depth <= 0:
            if depth <= 0:
                self.stats["depth_cuts"] += 1
            return Result()
        self._in_progress.add(key)
        try:
            res = self.analyse(g, {param: {tag}}, depth=depth - 1, chain=chain + (g,))
        finally:
            self._in_progress.discard(key)
        self._summaries[key] = res
        self.stats["summaries"] += 1
        return res


class _Run:
    def __init__(self, eng: Engine, f: FuncInfo, depth, chain):
        self.eng = eng
        self.ix = eng.ix
        self.spec = eng.spec
        self.f = f
        self.depth = depth
        self.chain = chain
        self.result = Result()
        self._seen_sinks = set()
        self.nested = []
        self.local_funcs = {}
        self.final_env = None
        self._call_positions = {}

    # -- sinks ------------------------------------------------------------------------------
    def sink(self, node, kind, why, func=None, chain=None):
        k = (id(node), kind)
        if k in self._seen_sinks:
            return
        self._seen_sinks.add(k)
        self.result.sinks.append(Sink(func or self.f, node, kind, why, self.chain if chain is None else chain))

    def note_positions(self, value, rt, env):
        res = self.result
        pos = None
        if isinstance(value, ast.Tuple) and not any(isinstance(e, ast.Starred) for e in value.elts):
            pos = [self.eval(e, env) for e in value.elts]
        elif isinstance(value, ast.Call) and id(value) in self._call_positions:
            pos = self._call_positions[id(value)]
        elif not rt:
            return  # an untracked value: says nothing about positions
        if pos is None:
            res.positions = None
        elif res.positions == "unset":
            res.positions = [frozenset(p) for p in pos]
        elif res.positions is not None:
            if len(res.positions) == len(pos):
                res.positions = [a | b for a, b in zip(res.positions, pos)]
            else:
                res.positions = None

    # -- function ---------------------------------------------------------------------------
    def exec_function(self, node, env):
        out = self.exec_block(node.body, env)
        self.final_env = _join(self.final_env, out)
        fenv = self.final_env or env
        # nested closures run later with the final values of captured variables
        done = set()
        while True:
            todo = [n for n in self.nested if id(n) not in done]
            if not todo:
                break
            for n in todo:
                done.add(id(n))
                inner_env = dict(fenv)
                for a in n.args.posonlyargs + n.args.args + n.args.kwonlyargs:
                    inner_env[a.arg] = frozenset()
                if n.args.vararg:
                    inner_env[n.args.vararg.arg] = frozenset()
                if n.args.kwarg:
                    inner_env[n.args.kwarg.arg] = frozenset()
                saved = self.final_env
                self.final_env = None
                self.exec_block(n.body, inner_env)
                self.final_env = saved

    def exec_block(self, stmts, env):
        for st in stmts:
            if env is None:
                return None
            env = self.exec_stmt(st, env)
        return env

    # -- statements -------------------------------------------------------------------------
    def exec_stmt(self, st, env):
        if isinstance(st, (ast.FunctionDef, ast.AsyncFunctionDef)):
            self.nested.append(st)
            self.local_funcs[st.name] = st
            env = dict(env)
            env[st.name] = frozenset()
            return env
        if isinstance(st, ast.ClassDef):
            return env
        if isinstance(st, ast.Return):
            if st.value is not None:
                rt = self.eval(st.value, env)
                self.result.returns |= rt
                self.note_positions(st.value, rt, env)
            self.final_env = _join(self.final_env, env)
            return None
        if isinstance(st, ast.Raise):
            if st.exc is not None:
                self.eval(st.exc, env)
            return None
        if isinstance(st, (ast.Break, ast.Continue)):
            self._loop_exits.append(env) if hasattr(self, "_loop_exits") and self._loop_exits is not None else None
            return None
        if isinstance(st, ast.Assign):
            tags = self.eval(st.value, env)
            env = dict(env)
            for t in st.targets:
                self.assign(t, tags, st.value, env, st)
            return env
        if isinstance(st, ast.AnnAssign):
            if st.value is None:
                return env
            tags = self.eval(st.value, env)
            env = dict(env)
            self.assign(st.target, tags, st.value, env, st)
            return env
        if isinstance(st, ast.AugAssign):
            vt = self.eval(st.value, env)
            tgt = st.target
            env = dict(env)
            if isinstance(tgt, ast.Name):
                cur = env.get(tgt.id, frozenset())
                if isinstance(st.op, ast.Add) and (L in cur or I in cur):
                    self.sink(st, "aug-assign", f"`{tgt.id} += …` extends in place a container owned by the input {self.spec.name}")
                if T in cur and self.spec.root_aug_mutates:
                    self.sink(st, "root-aug", f"`{norm(st)[:60]}` updates the {self.spec.name} in place")
                if D in cur:
                    self.sink(st, "aug-datum", f"`{norm(st)[:60]}` is an in-place update of `{tgt.id}`, which may be a parameter value of an operator "
                                               f"owned by the input {self.spec.name} (for an array-valued parameter the input's own array is changed)")
                    env[tgt.id] = cur - {D}
                if isinstance(st.op, ast.Add) and (vt & {E, FL, L}) and not (cur & {L}):
                    env[tgt.id] = cur | {FL}
            else:
                self.store(tgt, env, st, aug=True)
            return env
        if isinstance(st, ast.Delete):
            for t in st.targets:
                if isinstance(t, ast.Subscript):
                    bt = self.eval(t.value, env)
                    if bt & {L, I}:
                        self.sink(st, "del-item", f"deletes an item of a container owned by the input {self.spec.name}")
                elif isinstance(t, ast.Attribute):
                    bt = self.eval(t.value, env)
                    if T in bt and t.attr not in self.spec.root_cache_attrs:
                        self.sink(st, "del-attr", f"deletes attribute {t.attr} of the input {self.spec.name}")
                    if E in bt:
                        self.sink(st, "del-attr", f"deletes attribute {t.attr} of an operator/measurement owned by the input {self.spec.name}")
            return env
        if isinstance(st, ast.Expr):
            self.eval(st.value, env)
            return env
        if isinstance(st, ast.If):
            self.eval(st.test, env)
            env_t, env_f = self.refine(st.test, env)
            a = self.exec_block(st.body, env_t)
            b = self.exec_block(st.orelse, env_f) if st.orelse else env_f
            return _join(a, b)
        if isinstance(st, (ast.For, ast.AsyncFor)):
            return self.exec_loop(st, env, is_for=True)
        if isinstance(st, ast.While):
            return self.exec_loop(st, env, is_for=False)
        if isinstance(st, (ast.With, ast.AsyncWith)):
            env = dict(env)
            for it in st.items:
                tags = self.eval(it.context_expr, env)
                if it.optional_vars is not None:
                    self.assign(it.optional_vars, frozenset(), None, env, st)
            return self.exec_block(st.body, env)
        if isinstance(st, ast.Try) or type(st).__name__ == "TryStar":
            after_body = self.exec_block(st.body, env)
            handler_in = _join(env, after_body)
            outs = []
            if st.orelse:
                after_body = self.exec_block(st.orelse, after_body) if after_body is not None else None
            outs.append(after_body)
            for h in st.handlers:
                henv = dict(handler_in) if handler_in is not None else None
                if henv is not None and h.name:
                    henv[h.name] = frozenset()
                outs.append(self.exec_block(h.body, henv))
            res = None
            for o in outs:
                res = _join(res, o)
            if st.finalbody:
                fin_in = _join(res, handler_in)
                fout = self.exec_block(st.finalbody, fin_in)
                return fout if res is not None else None
            return res
        if isinstance(st, ast.Match):
            self.eval(st.subject, env)
            res = None
            for case in st.cases:
                cenv = dict(env)
                for n in ast.walk(case.pattern):
                    nm = getattr(n, "name", None)
                    if isinstance(nm, str):
                        cenv[nm] = self.eval(st.subject, env)
                res = _join(res, self.exec_block(case.body, cenv))
            return _join(res, env)
        if isinstance(st, ast.Assert):
            self.eval(st.test, env)
            return env
        return env  # pass, import, global, nonlocal

    _loop_exits = None

    def exec_loop(self, st, env, is_for):
        saved = self._loop_exits
        cur = dict(env)
        out_env = None
        for _ in range(6):
            self._loop_exits = []
            body_env = dict(cur)
            if is_for:
                et = self.iter_elem(st.iter, body_env)
                self.bind_target(st.target, et, body_env)
            else:
                self.eval(st.test, body_env)
            after = self.exec_block(st.body, body_env)
            exits = self._loop_exits
            nxt = _join(cur, after)
            for x in exits:
                nxt = _join(nxt, x)
            if nxt == cur:
                out_env = nxt
                break
            cur = nxt
            out_env = nxt
        self._loop_exits = saved
        if st.orelse:
            out_env = _join(out_env, self.exec_block(st.orelse, out_env))
        return out_env

    # -- refinement by identity guards ----------------------------------------------------------
    def refine(self, test, env):
        """(env_true, env_false): strip the root tags from X in the branch where `X is not <root>` holds."""
        env_t, env_f = env, env

        def base_name(e):
            while isinstance(e, (ast.Subscript, ast.Attribute)):
                e = e.value
            return e.id if isinstance(e, ast.Name) else None

        def strip(envx, name):
            envx = dict(envx)
            envx[name] = envx.get(name, frozenset()) - {T, CT}
            return envx

        def scan(t, positive):
            """yield (name, holds_in_true_branch) for comparisons X is not root / X is root"""
            if isinstance(t, ast.Compare) and len(t.ops) == 1 and isinstance(t.ops[0], (ast.IsNot, ast.Is)):
                l, r = t.left, t.comparators[0]
                for x, y in ((l, r), (r, l)):
                    if isinstance(y, ast.Name) and T in env.get(y.id, frozenset()):
                        nm = base_name(x)
                        if nm and nm != y.id:
                            yield nm, isinstance(t.ops[0], ast.IsNot)
            elif isinstance(t, ast.BoolOp):
                for v in t.values:
                    yield from scan(v, positive)
            elif isinstance(t, ast.UnaryOp) and isinstance(t.op, ast.Not):
                for nm, isnot in scan(t.operand, positive):
                    yield nm, not isnot

        for nm, isnot in scan(test, True):
            if isnot:
                env_t = strip(env_t, nm)
            else:
                env_f = strip(env_f, nm)
        return env_t, env_f

    # -- assignment -------------------------------------------------------------------------
    def assign(self, target, tags, value_node, env, st):
        if isinstance(target, ast.Name):
            env[target.id] = frozenset(tags)
        elif isinstance(target, (ast.Tuple, ast.List)):
            if isinstance(value_node, (ast.Tuple, ast.List)) and len(value_node.elts) == len(target.elts) \
                    and not any(isinstance(e, ast.Starred) for e in value_node.elts + target.elts):
                for t, v in zip(target.elts, value_node.elts):
                    self.assign(t, self.eval(v, env), v, env, st)
            elif isinstance(value_node, ast.Call) and isinstance(self._call_positions.get(id(value_node)), list) \
                    and len(self._call_positions[id(value_node)]) == len(target.elts) and not any(isinstance(e, ast.Starred) for e in target.elts):
                for t, ptags in zip(target.elts, self._call_positions[id(value_node)]):
                    self.assign(t, ptags, None, env, st)
            else:
                proj = set()
                if tags & {CT}:
                    proj |= {T} if value_node is None else {T, CT}
                if tags & {FL, L, FT} or (T in tags and CT not in tags):
                    proj |= {E, FL}
                if I in tags:
                    proj |= {I, E}
                for t in target.elts:
                    self.assign(t.value if isinstance(t, ast.Starred) else t, frozenset(proj), None, env, st)
        elif isinstance(target, ast.Starred):
            self.assign(target.value, tags, None, env, st)
        else:
            self.store(target, env, st, value_tags=tags)

    def store(self, target, env, st, aug=False, value_tags=frozenset()):
        sp = self.spec
        if isinstance(target, ast.Attribute):
            bt = self.eval(target.value, env)
            if T in bt and target.attr not in sp.root_cache_attrs:
                self.sink(st, "attr-store", f"assigns attribute `{target.attr}` of the input {sp.name}")
            if FT in bt and L in value_tags and target.attr in sp.share_attrs:
                self.sink(st, "share", f"stores a container owned by the input {sp.name} as `{target.attr}` of the new object without copying it: "
                                       "the two objects then share it and editing one edits the other")
            if E in bt and target.attr not in sp.elem_cache_attrs:
                self.sink(st, "elem-attr-store", f"assigns attribute `{target.attr}` of an operator/measurement owned by the input {sp.name}")
            if I in bt:
                self.sink(st, "internal-store", f"assigns into internals of an operator owned by the input {sp.name}")
            if D in bt and not aug:
                self.sink(st, "datum-attr-store", f"assigns attribute `{target.attr}` of `{norm(target.value)}`, which may be a parameter value owned by the input {sp.name}")
        elif isinstance(target, ast.Subscript):
            bt = self.eval(target.value, env)
            self.eval(target.slice, env)
            if L in bt:
                self.sink(st, "item-store", f"assigns an item of a list owned by the input {sp.name} (obtained by reference, not copied)")
            if I in bt:
                self.sink(st, "internal-store", f"assigns into `{norm(target.value)}`, a mutable internal of an operator owned by the input {sp.name}")
            if D in bt:
                self.sink(st, "datum-item-store", f"writes into `{norm(target.value)}`, which may be an array-valued parameter of an operator owned by the input {sp.name}")
            if aug and DL in bt and not isinstance(target.slice, ast.Slice):
                self.sink(st, "aug-datum", f"`{norm(st)[:80]}` updates in place an element of `{norm(target.value)}`; the element may be a parameter value "
                                           f"(coefficient) owned by the input {sp.name}: for an array-valued parameter the input's own array is changed")
            if not aug and isinstance(target.value, ast.Name):
                dh = {"DHC:" + t[3:] for t in value_tags if t.startswith("DH:")}
                if dh:
                    env[target.value.id] = env.get(target.value.id, frozenset()) | dh

    def bind_target(self, target, elem_tags, env):
        """bind loop / comprehension targets; elem_tags is a frozenset or ('tuple', [..])"""
        if isinstance(elem_tags, tuple):
            kind, parts = elem_tags
            if isinstance(target, (ast.Tuple, ast.List)) and len(target.elts) == len(parts):
                for t, p in zip(target.elts, parts):
                    self.bind_target(t, p, env)
                return
            flat = frozenset().union(*[p if isinstance(p, frozenset) else frozenset() for p in parts]) if parts else frozenset()
            self.bind_target(target, flat, env)
            return
        if isinstance(target, ast.Name):
            env[target.id] = elem_tags
        elif isinstance(target, (ast.Tuple, ast.List)):
            for t in target.elts:
                self.bind_target(t.value if isinstance(t, ast.Starred) else t, elem_tags, env)

    def iter_elem(self, it, env):
        """element tags when iterating expression ``it``"""
        if isinstance(it, ast.Call):
            cn = call_name(it)
            if cn == "enumerate" and it.args:
                return ("tuple", [frozenset(), self.iter_elem(it.args[0], env)])
            if cn == "zip":
                return ("tuple", [self.iter_elem(a, env) for a in it.args])
            if cn in ITER_WRAPPERS and it.args:
                return self.iter_elem(it.args[-1] if cn == "filter" else it.args[0], env)
        return _elem_of(self.eval(it, env))

    # -- expressions ------------------------------------------------------------------------
    def eval(self, e, env):
        sp = self.spec
        if e is None:
            return frozenset()
        if isinstance(e, ast.Name):
            return env.get(e.id, frozenset())
        if isinstance(e, ast.Constant):
            return frozenset()
        if sp.root_expr_texts and isinstance(e, (ast.Call, ast.Subscript)) and norm(e) in sp.root_expr_texts:
            return frozenset({T})
        if isinstance(e, ast.Attribute):
            bt = self.eval(e.value, env)
            out = set()
            if T in bt:
                if e.attr in sp.alias_attrs:
                    out.add(L)
                elif e.attr in sp.fresh_attrs:
                    out.add(FL)
            if FT in bt and (e.attr in sp.alias_attrs or e.attr in sp.fresh_attrs):
                out.add(FL)
            if E in bt:
                if e.attr in sp.elem_internal_attrs:
                    out.add(I)
                elif e.attr in sp.elem_sub_attrs:
                    out.add(E)
                elif e.attr in sp.elem_subs_attrs:
                    out.add(FL)
                elif e.attr in sp.elem_data_attrs:
                    out.add(DL)
                elif e.attr in sp.elem_datum_attrs:
                    out.add(D)
            if bt & {T, FT} and e.attr in sp.root_data_attrs:
                out.add(DL)
            if ("DH:" + e.attr) in bt:
                out.add(DL)
            return frozenset(out)
        if isinstance(e, ast.Subscript):
            bt = self.eval(e.value, env)
            self.eval(e.slice, env)
            if isinstance(e.slice, ast.Slice):
                out = set()
                if bt & {L, FL, T, FT}:
                    out.add(FL)
                if CT in bt:
                    out.add(CT)
                if DL in bt:
                    out.add(DL)
                return frozenset(out)
            return _elem_of(bt)
        if isinstance(e, ast.Call):
            return self.eval_call(e, env)
        if isinstance(e, (ast.List, ast.Tuple, ast.Set)):
            et = set()
            for x in e.elts:
                v = self.eval(x.value if isinstance(x, ast.Starred) else x, env)
                if isinstance(x, ast.Starred):
                    et |= _elem_of(v)
                else:
                    et |= v
            return _container_of(frozenset(et))
        if isinstance(e, (ast.ListComp, ast.SetComp, ast.GeneratorExp)):
            cenv = dict(env)
            for g in e.generators:
                self.bind_target(g.target, self.iter_elem(g.iter, cenv), cenv)
                for c in g.ifs:
                    self.eval(c, cenv)
            return _container_of(self.eval(e.elt, cenv))
        if isinstance(e, ast.DictComp):
            cenv = dict(env)
            for g in e.generators:
                self.bind_target(g.target, self.iter_elem(g.iter, cenv), cenv)
                for c in g.ifs:
                    self.eval(c, cenv)
            self.eval(e.key, cenv)
            self.eval(e.value, cenv)
            return frozenset()
        if isinstance(e, ast.Dict):
            for k, v in zip(e.keys, e.values):
                if k is not None:
                    self.eval(k, env)
                self.eval(v, env)
            return frozenset()
        if isinstance(e, ast.IfExp):
            self.eval(e.test, env)
            env_t, env_f = self.refine(e.test, env)
            return self.eval(e.body, env_t) | self.eval(e.orelse, env_f)
        if isinstance(e, ast.BoolOp):
            out = frozenset()
            for v in e.values:
                out |= self.eval(v, env)
            return out
        if isinstance(e, ast.BinOp):
            a, b = self.eval(e.left, env), self.eval(e.right, env)
            if isinstance(e.op, (ast.Add, ast.Mult)):
                out = set()
                if (a | b) & {L, FL}:
                    out.add(FL)
                if (a | b) & {CT}:
                    out.add(CT)
                if isinstance(e.op, ast.Add) and (a & {DL}) and (b & {DL} or isinstance(e.right, (ast.List, ast.Tuple))):
                    out.add(DL)  # list concatenation keeps the element objects
                return frozenset(out)
            return frozenset()
        if isinstance(e, ast.UnaryOp):
            self.eval(e.operand, env)
            return frozenset()
        if isinstance(e, ast.Compare):
            self.eval(e.left, env)
            for c in e.comparators:
                self.eval(c, env)
            return frozenset()
        if isinstance(e, ast.NamedExpr):
            v = self.eval(e.value, env)
            if isinstance(e.target, ast.Name):
                env[e.target.id] = v  # note: mutates the passed env (walrus binds in the enclosing scope)
            return v
        if isinstance(e, ast.Starred):
            return self.eval(e.value, env)
        if isinstance(e, (ast.Await, ast.Yield, ast.YieldFrom)):
            v = self.eval(e.value, env) if e.value is not None else frozenset()
            if isinstance(e, (ast.Yield, ast.YieldFrom)):
                self.result.returns |= v
            return frozenset()
        if isinstance(e, ast.JoinedStr):
            for v in e.values:
                if isinstance(v, ast.FormattedValue):
                    self.eval(v.value, env)
            return frozenset()
        if isinstance(e, ast.Lambda):
            return frozenset()
        if isinstance(e, ast.Slice):
            for x in (e.lower, e.upper, e.step):
                if x is not None:
                    self.eval(x, env)
            return frozenset()
        return frozenset()

    # -- calls --------------------------------------------------------------------------------
    def eval_call(self, c, env):
        sp = self.spec
        argt = [self.eval(a.value if isinstance(a, ast.Starred) else a, env) for a in c.args]
        kwt = {kw.arg: self.eval(kw.value, env) for kw in c.keywords}
        fn = c.func
        cn = call_name(c)
        short = cn.split(".")[-1] if cn else None

        # ---- method call on a tracked receiver
        if isinstance(fn, ast.Attribute):
            rt = self.eval(fn.value, env)
            m = fn.attr
            if rt:
                if (L in rt) and m in (LIST_MUT | DICT_MUT | SET_MUT):
                    self.sink(c, "list-mutation", f"`{norm(fn.value)}.{m}(…)` mutates a list owned by the input {sp.name} (obtained by reference, not copied)")
                if (I in rt) and m in (DICT_MUT | LIST_MUT | SET_MUT):
                    self.sink(c, "internal-mutation", f"`{norm(fn.value)}.{m}(…)` mutates internals of an operator owned by the input {sp.name}")
                if T in rt and m in sp.mutating_methods:
                    self.sink(c, "root-method", f"`{m}()` modifies the input {sp.name} in place")
                if E in rt and m in sp.elem_mutating_methods:
                    self.sink(c, "elem-method", f"`{m}()` modifies an operator owned by the input {sp.name} in place")
                if D in rt and m in ARRAY_MUT:
                    self.sink(c, "datum-method", f"`{norm(fn.value)}.{m}(…)` changes in place a value that may be an array-valued parameter owned by the input {sp.name}")
                out = set()
                if E in rt and m in sp.elem_terms_methods and not c.args:
                    self._call_positions[id(c)] = [frozenset({DL}), frozenset({FL})]
                    out |= {DL, FL}
                if rt & {T, FT} and m in sp.root_data_methods:
                    out.add(DL)
                if DL in rt and m == "copy":
                    out.add(DL)
                if DL in rt and m in ("pop", "__getitem__"):
                    out.add(D)
                for t_ in rt:
                    if t_.startswith("DHC:"):
                        if m in ("get", "pop", "setdefault"):
                            out.add("DH:" + t_[4:])
                        elif m in ("values", "copy"):
                            out.add(t_)
                if rt & {T, FT}:
                    if m in sp.copy_methods:
                        out.add(FT)
                    if m in sp.maybe_self_methods:
                        out |= {FT} | ({T} if T in rt else set())
                if rt & {L, FL}:
                    if m == "copy":
                        out.add(FL)
                    if m == "pop" and FL in rt:
                        out.add(E)
                    if m in ("__getitem__", "index"):
                        out |= _elem_of(rt)
                if CT in rt and m == "copy":
                    out.add(CT)
                if E in rt and self.eng.dispatch_bases and not m.startswith("__"):
                    # dynamic dispatch resolved by method name over the operator hierarchy: does any body write to self?
                    for g in self.eng.dispatch_candidates(m):
                        a_ = g.node.args.args
                        if not a_ or a_[0].arg != "self" or _is_static(g):
                            continue
                        res = self.eng.summary(g, "self", E, self.depth, self.chain)
                        for s_ in res.sinks:
                            self.sink(c, "via-dispatch", f"calls `.{m}()` on an operator owned by the input {sp.name}; the implementation "
                                      f"{g.qualname} ({g.module.relpath}:{s_.line}) {s_.why.replace('owned by the input ' + sp.name, 'that is self')}")
                if I in rt and m in ("get", "pop", "values", "items", "copy", "setdefault"):
                    out |= {E, FL} if m != "copy" else {FL}
                # a method of the root's own class: summarise through `self`
                if T in rt and isinstance(fn.value, ast.Name) and self.f.cls is not None and fn.value.id in ("self", "cls"):
                    dc, g = self.f.cls.lookup(m)
                    if isinstance(g, FuncInfo) and m not in sp.copy_methods and m not in sp.maybe_self_methods:
                        out |= self.call_summary(c, g, [rt] + argt, kwt, env, bound=True)
                return frozenset(out)
            # untracked receiver: resolve module.function(...)
            g = self.resolve_callee(fn)
            if isinstance(g, FuncInfo):
                return self.call_summary(c, g, argt, kwt, env)
            if isinstance(g, ClassInfo):
                return self.ctor(g, argt, kwt)
            # copy.copy / copy.deepcopy / qp.math...
            if short in ("copy",) and cn in ("copy.copy",):
                return self.copy_of(argt[0] if argt else frozenset())
            if short == "deepcopy":
                return frozenset()
            self.eng.stats["calls_unresolved"] += 1
            return frozenset()

        # ---- plain call
        if isinstance(fn, ast.Name):
            name = fn.id
            if name in self.local_funcs:
                return frozenset()  # closure: analysed once with the final environment
            if name in ("list", "tuple", "sorted", "reversed", "set", "frozenset", "iter", "enumerate", "zip", "filter", "map"):
                srcs = argt if name in ("zip",) else (argt[-1:] if name in ("filter", "map") else argt[:1])
                out = set()
                for t_ in srcs:
                    if t_ & {L, FL, T, FT}:
                        out.add(FL)
                    if CT in t_:
                        out.add(CT)
                    if I in t_:
                        out.add(FL)
                    if DL in t_:
                        out.add(DL)
                return frozenset(out)
            if name == "copy" or cn == "copy.copy":
                return self.copy_of(argt[0] if argt else frozenset())
            if name == "deepcopy":
                return frozenset()
            if name in ("len", "isinstance", "hasattr", "id", "hash", "str", "repr", "print", "type", "bool", "int", "float", "any", "all", "sum", "max", "min", "range", "callable"):
                if name == "type" and argt and T in argt[0]:
                    return frozenset({"CLS"})
                return frozenset()
            if name == "getattr" and len(c.args) >= 2 and isinstance(c.args[1], ast.Constant) and isinstance(c.args[1].value, str):
                return self.eval(ast.Attribute(value=c.args[0], attr=c.args[1].value, ctx=ast.Load()), env)
            if name == "setattr" and len(c.args) >= 2:
                attr = c.args[1].value if isinstance(c.args[1], ast.Constant) else None
                if argt and T in argt[0] and attr not in sp.root_cache_attrs:
                    self.sink(c, "setattr", f"setattr on the input {sp.name}")
                if argt and E in argt[0] and attr not in sp.elem_cache_attrs:
                    self.sink(c, "setattr", f"setattr on an operator/measurement owned by the input {sp.name}")
                return frozenset()
            if name == "next" and argt:
                return _elem_of(argt[0]) | (argt[0] & {E})
            g = self.resolve_callee(fn)
            if isinstance(g, FuncInfo):
                return self.call_summary(c, g, argt, kwt, env)
            if isinstance(g, ClassInfo):
                return self.ctor(g, argt, kwt)
            self.eng.stats["calls_unresolved"] += 1
            return frozenset()
        # call of a call / subscript … (e.g. type(tape)(...), tape.__class__(...))
        ft = self.eval(fn, env) if not isinstance(fn, ast.Call) else self.eval_call(fn, env)
        if "CLS" in ft:
            return frozenset({FT})
        return frozenset()

    def copy_of(self, t_):
        out = set()
        if t_ & {T, FT}:
            out.add(FT)
        if t_ & {L, FL}:
            out.add(FL)
        if CT in t_:
            out.add(CT)
        if DL in t_:
            out.add(DL)
        return frozenset(out)

    def ctor(self, cls: ClassInfo, argt, kwt):
        if cls.name in self.spec.root_classes or any(b.name in self.spec.root_classes for b in cls.mro()):
            return frozenset({FT})
        # a repository dataclass / NamedTuple record built from a list of parameter values keeps that list
        if any(norm(d).split("(")[0].split(".")[-1] == "dataclass" for d in cls.node.decorator_list) or any(
                norm(b).split(".")[-1] == "NamedTuple" for b in cls.node.bases):
            fields = [s_.target.id for s_ in cls.node.body if isinstance(s_, ast.AnnAssign) and isinstance(s_.target, ast.Name)]
            out = set()
            for i, t_ in enumerate(argt):
                if DL in t_ and i < len(fields):
                    out.add("DH:" + fields[i])
            for k, t_ in kwt.items():
                if DL in t_ and k in fields:
                    out.add("DH:" + k)
            return frozenset(out)
        return frozenset()

    def resolve_callee(self, fn):
        try:
            r = self.ix.resolve_expr(self.f.module, fn)
        except RecursionError:
            return None
        if isinstance(r, (FuncInfo, ClassInfo)):
            return r
        return None

    def call_summary(self, c, g: FuncInfo, argt, kwt, env, bound=False):
        """apply the summaries of ``g`` for every tracked argument; returns the result tags"""
        self._call_positions.pop(id(c), None)
        out = self._call_summary1(c, g, argt, kwt, env, bound)
        if not bound:
            for g2 in self.eng.registered_impls(g):
                out |= self._call_summary1(c, g2, argt, kwt, env, bound)  # singledispatch: any registered overload may run
        return out

    def _call_summary1(self, c, g: FuncInfo, argt, kwt, env, bound=False):
        self.eng.stats["calls_resolved"] += 1
        a = g.node.args
        params = [x.arg for x in a.posonlyargs + a.args]
        if g.cls is not None and not bound and params and params[0] in ("self", "cls") and not _is_static(g):
            params = params[1:]
        out = set()
        pairs = []
        positions = "unset"
        for i, t_ in enumerate(argt):
            if i < len(params):
                pairs.append((params[i], t_))
            elif a.vararg is not None:
                pairs.append((a.vararg.arg, _container_of(t_) | frozenset()))
        allp = set(params) | {x.arg for x in a.kwonlyargs}
        for k, t_ in kwt.items():
            if k in allp:
                pairs.append((k, t_))
        for pname, t_ in pairs:
            for tag in sorted(t_ & {T, L, E, I, CT, FL, D, DL}):
                if tag == FL:
                    # a fresh list of owned elements: the callee may mutate the list, not the elements
                    res = self.eng.summary(g, pname, FL, self.depth, self.chain)
                else:
                    res = self.eng.summary(g, pname, tag, self.depth, self.chain)
                for s in res.sinks:
                    self.sink(c, "via-call", f"passes {'the input ' + self.spec.name if tag == T else 'a value owned by the input ' + self.spec.name} to "
                              f"{g.qualname}(), which {s.why} ({s.func.module.relpath}:{s.line} `{norm(s.node)[:80]}`)",
                              chain=self.chain)
                out |= res.returns
                if res.returns:
                    if res.positions in (None, "unset"):
                        positions = None
                    elif positions == "unset":
                        positions = list(res.positions)
                    elif positions is not None:
                        positions = [a | b for a, b in zip(positions, res.positions)] if len(positions) == len(res.positions) else None
        prev = self._call_positions.get(id(c), "unset")
        if positions != "unset":
            if prev == "unset":
                self._call_positions[id(c)] = positions
            elif isinstance(prev, list) and isinstance(positions, list) and len(prev) == len(positions):
                self._call_positions[id(c)] = [a_ | b_ for a_, b_ in zip(prev, positions)]
            else:
                self._call_positions[id(c)] = None
        return frozenset(out)


def _is_static(g: FuncInfo):
    return any(norm(d) == "staticmethod" for d in g.node.decorator_list)

