"""E3 — rulescan: emission / resource summaries of decomposition rules (static, ast only).

For every function decorated ``@register_resources(...)`` the engine runs a small *symbolic
executor* twice: once over the rule body (mode ``body``: operator constructors in any position
are *emissions*; the wrappers adjoint/ctrl/pow/cond/prod/change_op_basis consume their operand
emissions) and once over the resource function / dict / lambda (mode ``res``: the value returned
is a dict ``type key -> count expression``).  Both runs share one key space and one condition
normaliser, so that paths of the two sides can be aligned.

Paths are enumerated by re-execution with a decision script (each undecidable ``if`` forks);
loops are executed once with a multiplier (trip count as a polynomial in symbolic atoms, or
``many``); branches that depend on a loop variable or on run-time data make their emissions
*optional*.  Nothing is ever imported or executed from the analysed tree.

Public API: ``scan_rules(ix)``, ``registrations(ix)``, ``get_scanner(ix)``, ``coarse_key``.
"""

from __future__ import annotations

import ast
import builtins as _builtins
import hashlib
import re
from dataclasses import dataclass, field
from fractions import Fraction

from .cfg import walk_shallow
from .core import AnalysisError, norm
from .index import ClassInfo, FuncInfo, Module, dotted_parts

MAX_PATHS = 40
_LOOP_TOK_FULL = re.compile(r"[\w.\[\], ()]{0,12}@L\d+_\d+")
MAX_INLINE = 4


# =============================================================================================
# counts: polynomials over canonical atoms, or MANY


class _Many:
    def __repr__(self):
        return "many"

    __str__ = __repr__


MANY = _Many()
ATOM_INFO: dict[str, tuple] = {}  # atom -> ("floordiv", Poly, Poly) ...


class Poly:
    __slots__ = ("t",)

    def __init__(self, t=None):
        self.t = {k: v for k, v in (t or {}).items() if v != 0}

    @staticmethod
    def const(c):
        return Poly({(): Fraction(c)})

    @staticmethod
    def atom(a):
        return Poly({((a, 1),): Fraction(1)})

    def is_const(self):
        return all(k == () for k in self.t)

    def const_value(self):
        return self.t.get((), Fraction(0))

    def as_int(self):
        if self.is_const():
            c = self.const_value()
            if c.denominator == 1:
                return int(c)
        return None

    def atoms(self):
        return {a for k in self.t for a, _ in k}

    def __add__(self, o):
        t = dict(self.t)
        for k, v in o.t.items():
            t[k] = t.get(k, 0) + v
        return Poly(t)

    def __neg__(self):
        return Poly({k: -v for k, v in self.t.items()})

    def __sub__(self, o):
        return self + (-o)

    def __mul__(self, o):
        t = {}
        for k1, v1 in self.t.items():
            for k2, v2 in o.t.items():
                d = dict(k1)
                for a, p in k2:
                    d[a] = d.get(a, 0) + p
                k = tuple(sorted(d.items()))
                t[k] = t.get(k, 0) + v1 * v2
        return Poly(t)

    def scale(self, c):
        return Poly({k: v * Fraction(c) for k, v in self.t.items()})

    def __eq__(self, o):
        return isinstance(o, Poly) and self.t == o.t

    def __hash__(self):
        return hash(frozenset(self.t.items()))

    def __str__(self):
        if not self.t:
            return "0"
        out = []
        for k in sorted(self.t, key=lambda k: (-sum(p for _, p in k), k)):
            v = self.t[k]
            mon = "*".join(a if p == 1 else f"{a}^{p}" for a, p in k)
            if not mon:
                s = str(v)
            elif v == 1:
                s = mon
            elif v == -1:
                s = "-" + mon
            else:
                s = f"{v}*{mon}"
            out.append(s)
        return "+".join(out).replace("+-", "-")

    __repr__ = __str__


ZERO = Poly()
ONE = Poly.const(1)


def c_add(a, b):
    if a is MANY or b is MANY:
        return MANY
    return a + b


def c_mul(a, b):
    if isinstance(a, Poly) and a == ZERO or isinstance(b, Poly) and b == ZERO:
        return ZERO
    if a is MANY or b is MANY:
        return MANY
    return a * b


def fn_atom(name, *args):
    """canonical atom for a non-polynomial function of counts"""
    a = f"{name}({','.join(str(x) for x in args)})"
    ATOM_INFO[a] = (name,) + tuple(args)
    return a


def counts_equal(e, d):
    """emitted count e vs declared count d (both Poly).  True / False / None (cannot tell)."""
    if e == d:
        return True
    # declared  P // c  (c constant) equals a rational polynomial E  iff  E * c == P  (E is integral)
    for x, y in ((e, d), (d, e)):
        if len(y.t) == 1:
            (k, v), = y.t.items()
            if v == 1 and len(k) == 1 and k[0][1] == 1:
                info = ATOM_INFO.get(k[0][0])
                if info and info[0] == "floordiv" and isinstance(info[2], Poly) and info[2].is_const() and info[2] != ZERO:
                    if x * info[2] == info[1]:
                        return True
    diff = e - d
    if diff.is_const():
        return False  # differ by a non-zero constant whatever the parameters are
    return None


# =============================================================================================
# abstract values


class V:
    pass


class ClsV(V):
    def __init__(self, cls):
        self.cls = cls


class FuncV(V):
    def __init__(self, func):
        self.func = func


class ModV(V):
    def __init__(self, mod):
        self.mod = mod


class ExtV(V):
    """a name from outside the analysed package (numpy, functools ...) — assumed pure"""

    def __init__(self, text):
        self.text = text


class BuiltinV(V):
    def __init__(self, name):
        self.name = name


class ConstV(V):
    def __init__(self, value):
        self.value = value


class NumV(V):
    def __init__(self, poly):
        self.poly = poly


class SymV(V):
    """opaque symbolic value derived from parameters; ``text`` is canonical"""

    def __init__(self, text, length=None, param=False, free=False):
        if len(text) > 72:
            toks = sorted(set(_LOOP_TOK_FULL.findall(text)))
            text = text[:36] + "~" + hashlib.md5(text.encode()).hexdigest()[:8] + "".join("," + t for t in toks)
        self.text = text
        self.length = length
        self.param = param  # directly a parameter of the rule / helper
        self.free = free  # a free variable of an enclosing factory function


class OpV(V):
    """an operator instance / abstract operator / resource rep"""

    def __init__(self, key, em=None, parts=None):
        self.key = key
        self.em = em
        self.parts = parts or []  # emissions captured by a transformed quantum function


class MeasV(V):
    def __init__(self, names):
        self.names = frozenset(names)


class TupleV(V):
    def __init__(self, items):
        self.items = list(items)


class StarV(V):
    def __init__(self, value):
        self.value = value


class MapV(V):
    """dict display with constant string keys (resource params ...)"""

    def __init__(self, items):
        self.items = dict(items)


class DictV(V):
    """resource dict: type key -> count"""

    def __init__(self, items=None, opaque=False, nodes=None):
        self.items = dict(items or {})
        self.opaque = opaque
        self.nodes = dict(nodes or {})  # key -> ast node of the count expression
        self.why = ""

    def copy(self):
        d = DictV(self.items, self.opaque, self.nodes)
        d.why = self.why
        return d

    def add(self, key, cnt, node=None):
        self.items[key] = c_add(self.items.get(key, ZERO), cnt)
        if node is not None:
            self.nodes.setdefault(key, node)

    def set(self, key, cnt, node=None):
        self.items[key] = cnt
        if node is not None:
            self.nodes[key] = node


class CondV(V):
    def __init__(self, text, neg=False):
        self.text = text
        self.neg = neg


class LocalFuncV(V):
    def __init__(self, node, frame, loop=None, odd=None):
        self.node = node
        self.frame = frame
        self.loop = loop  # None | ("for", start, stop, step) | ("while",)
        self.odd = odd  # text of a decorator that is not understood


class LambdaV(V):
    def __init__(self, node, frame):
        self.node = node
        self.frame = frame


class CurryV(V):
    def __init__(self, kind, target=None, **extra):
        self.kind = kind
        self.target = target
        self.extra = extra


class BoundV(V):
    def __init__(self, base, attr):
        self.base = base
        self.attr = attr


class AllocV(V):
    def __init__(self, site):
        self.site = site


class UnkV(V):
    def __init__(self, why=""):
        self.why = why


# =============================================================================================
# result records


@dataclass
class Emission:
    key: str
    count: object  # Poly | MANY
    node: ast.AST
    in_loop: bool = False
    cond: str | None = None  # text of the run-time / loop-variant condition guarding it ("mcm:<pred>" for measurement-conditioned)
    optional: bool = False  # emitted 0..count times (data dependent)
    fuzzy: bool = False  # key produced through a transformed quantum function: compare coarsely
    wires: ast.AST | None = None
    extra_wires: dict = field(default_factory=dict)
    func: str = ""  # qualified name of the function whose text contains the node
    module: str = ""
    consumed: bool = False

    def __repr__(self):
        return f"<{self.key} x{self.count}{' opt' if self.optional else ''}>"


@dataclass
class AllocSite:
    node: ast.AST
    num: object  # Poly | MANY
    state: str | None  # "zero" | "any" | ... | None (not literal)
    restored: bool | None
    depth: int  # nesting depth of allocation contexts (1 = outermost)
    managed: bool  # used as a context manager
    func: str = ""
    module: str = ""
    target: str = ""  # text of the ``as`` target

    @property
    def kind(self):
        if self.state not in ("zero", "any") or self.restored is None:
            return None
        return {("zero", True): "zeroed", ("any", True): "borrowed", ("zero", False): "burnable", ("any", False): "garbage"}[
            (self.state, self.restored)
        ]


@dataclass
class MeasureDef:
    var: str
    node: ast.AST
    kind: str  # "measure" | "pauli_measure"
    word: str | None
    wires: ast.AST | None
    func: str
    module: str
    uses: list = field(default_factory=list)  # (role, ast node)  role: cond-pred | return | other


@dataclass
class Path:
    conds: dict  # canonical condition text -> bool
    emissions: list = field(default_factory=list)
    declared: DictV | None = None
    unresolved: list = field(default_factory=list)
    allocs: list = field(default_factory=list)
    alloc_peak: dict = field(default_factory=dict)  # kind -> max simultaneously open wires (int) or None
    ret: V | None = None

    def multiset(self):
        """key -> (lo, hi) with lo/hi Poly or MANY"""
        out = {}
        for e in self.emissions:
            lo, hi = out.get(e.key, (ZERO, ZERO))
            if e.optional:
                hi = c_add(hi, e.count)
            else:
                lo, hi = c_add(lo, e.count), c_add(hi, e.count)
            out[e.key] = (lo, hi)
        return out


@dataclass
class RuleInfo:
    func: FuncInfo
    module: Module
    name: str
    deco: ast.Call
    resource_arg: ast.AST | None
    resource_func: object  # FuncInfo | ast.Lambda | ast.Dict | None
    resource_bound: dict  # keyword arguments bound by functools.partial
    exact: object  # True | False | None (not literal)
    exact_node: ast.AST | None
    work_wires: ast.AST | None
    paths: list = field(default_factory=list)
    emissions: list = field(default_factory=list)  # merged over paths (distinct nodes)
    resolved: bool = False
    unresolved: list = field(default_factory=list)
    declared_paths: list = field(default_factory=list)
    declared: list = field(default_factory=list)  # per path {key: count}
    declared_resolved: bool = False
    declared_why: list = field(default_factory=list)
    allocs: list = field(default_factory=list)
    measures: list = field(default_factory=list)
    factory: FuncInfo | None = None

    @property
    def qualname(self):
        return self.func.qualname

    @property
    def straight_line(self):
        return len(self.paths) == 1 and not self.paths[0].conds and all(
            not e.in_loop and not e.optional for e in self.paths[0].emissions
        )

    @property
    def wire_args(self):
        return [(e, e.wires) for e in self.emissions]

    def emitted_keys(self):
        return {e.key for p in self.paths for e in p.emissions}

    def declared_keys(self):
        return {k for p in self.declared_paths if p.declared is not None for k in p.declared.items}


@dataclass
class Registration:
    module: Module
    node: ast.Call
    target: object  # ClassInfo | str | None
    target_text: str
    kind: str | None  # None | "Adjoint" | "Pow" | "C"
    base: object  # ClassInfo | None  (class named inside Adjoint(...)/Pow(...)/C(...), or the target class)
    rules: list = field(default_factory=list)  # RuleRef


@dataclass
class RuleRef:
    node: ast.AST
    text: str
    rule: RuleInfo | None = None  # a decorated function
    factory: FuncInfo | None = None  # generic rule built by a factory, e.g. make_pow_decomp_with_period(4)
    factory_args: list = field(default_factory=list)  # ast nodes / nested RuleRef
    inner: list = field(default_factory=list)  # RuleRefs wrapped by the factory (flip_zero_control(rule))


# =============================================================================================
# executor plumbing


class _NeedDecision(Exception):
    pass


class _Return(Exception):
    def __init__(self, value):
        self.value = value


class _Abort(Exception):
    """the path raises"""


class _LoopCtl(Exception):
    """break / continue"""


class Frame:
    def __init__(self, module, parent=None, qual="", lazy=None):
        self.module = module
        self.parent = parent
        self.vars = {}
        self.qual = qual
        self.lazy = lazy  # factory frames: names assigned in the factory body -> free symbols

    def lookup(self, name):
        f = self
        while f is not None:
            if name in f.vars:
                return f.vars[name]
            if f.lazy and name in f.lazy:
                return SymV(name, free=True)
            f = f.parent
        return None

    def bind(self, name, v):
        self.vars[name] = v


class Run:
    def __init__(self, mode, script):
        self.mode = mode
        self.script = script
        self.pos = 0
        self.decided = {}
        self.emissions = []
        self.mult = []
        self.opt = []
        self.loopvars = []
        self.unresolved = []
        self.allocs = []
        self.open_allocs = []
        self.alloc_peak = {}
        self.depth = 0
        self.callstack = []
        self.measures = {}
        self.steps = 0
        self.capture = None

    def unres(self, why):
        if why not in self.unresolved:
            self.unresolved.append(why)

    def decide(self, text):
        if text in self.decided:
            return self.decided[text]
        if self.pos < len(self.script):
            d = self.script[self.pos]
            self.pos += 1
            self.decided[text] = d
            return d
        raise _NeedDecision()

    def count(self):
        c = ONE
        for m in self.mult:
            c = c_mul(c, m)
        if isinstance(c, Poly) and any(lv in a for a in c.atoms() for lv in self.loopvars):
            return MANY  # a trip count that depends on an enclosing loop variable
        return c


SYMBOLIC = {
    "Adjoint": "Adjoint", "Adjoint2": "Adjoint", "AdjointOperation": "Adjoint", "AdjointObs": "Adjoint", "AdjointOpObs": "Adjoint",
    "Pow": "Pow", "Pow2": "Pow", "PowOperation": "Pow", "PowObs": "Pow", "PowOpObs": "Pow",
    "Controlled": "C", "ControlledOp": "C", "Controlled2": "C", "ControlledOp2": "C",
}  # fmt: skip
HARMLESS_METHODS = {"append", "extend", "insert", "update", "pop", "remove", "clear", "sort", "reverse", "add", "setdefault",
                    "discard", "index", "count", "copy", "items", "keys", "values", "get", "join", "format", "split", "tolist",
                    "subset", "toarray", "reshape", "astype", "item", "flatten", "bit_length", "startswith", "endswith"}  # fmt: skip
IDENTITY_FUNCS = {"array", "asarray", "convert_like", "cast_like", "cast", "copy", "deepcopy", "unwrap", "toarray"}
SUSPICIOUS_METHODS = {"decomposition", "compute_decomposition", "queue", "_impl", "expand", "__call__", "_flatten_and_queue"}
_LOOP_TOK = re.compile(r"@L\d+")


def _wrap(kind, key):
    if key is None:
        return None
    if kind == "C" and key.startswith("C(") and key.endswith(")"):
        return key  # nested controls flatten
    if kind == "Adjoint" and key.startswith("Adjoint(") and key.endswith(")"):
        return key[len("Adjoint("):-1]
    return f"{kind}({key})"


def canon_atom(text):
    """heuristic link between body and resource parameters: len(X) == num_X == n_X"""
    m = re.fullmatch(r"(?:num|n)_(\w+)", text)
    if m:
        return "#" + m.group(1)
    return text


class Scanner:
    """holds the anchors resolved through the index and runs the symbolic executor"""

    WRAPPERS = {
        "adjoint": "pennylane.adjoint", "ctrl": "pennylane.ctrl", "pow": "pennylane.pow", "cond": "pennylane.cond",
        "prod": "pennylane.prod", "change_op_basis": "pennylane.change_op_basis", "apply": "pennylane.apply",
        "bind_new_parameters": "pennylane.ops.functions.bind_new_parameters.bind_new_parameters",
        "allocate": "pennylane.allocation.allocate", "measure": "pennylane.measure", "pauli_measure": "pennylane.pauli_measure",
        "for_loop": "pennylane.for_loop", "while_loop": "pennylane.while_loop",
        "register_resources": "pennylane.decomposition.decomposition_rule.register_resources",
        "add_decomps": "pennylane.decomposition.decomposition_rule.add_decomps",
        "resource_rep": "pennylane.decomposition.resources.resource_rep",
        "adjoint_resource_rep": "pennylane.decomposition.resources.adjoint_resource_rep",
        "controlled_resource_rep": "pennylane.decomposition.resources.controlled_resource_rep",
        "pow_resource_rep": "pennylane.decomposition.resources.pow_resource_rep",
        "change_op_basis_resource_rep": "pennylane.decomposition.resources.change_op_basis_resource_rep",
        "abstractify": "pennylane.core.operator.abstractify",
        "_adjoint_abstract": "pennylane.ops.op_math.adjoint2._adjoint_abstract",
        "_ctrl_abstract": "pennylane.ops.op_math.controlled2._ctrl_abstract",
        "_pow_abstract": "pennylane.ops.op_math.pow2._pow_abstract",
        "s_prod": "pennylane.s_prod", "exp": "pennylane.exp", "evolve": "pennylane.evolve",
    }  # fmt: skip
    REQUIRED = ("adjoint", "ctrl", "cond", "register_resources", "add_decomps", "resource_rep", "allocate", "for_loop")

    def __init__(self, ix):
        self.ix = ix
        self.anchor = {}
        self.by_func = {}
        for nm, path in self.WRAPPERS.items():
            r = ix.resolve_dotted(path)
            if isinstance(r, FuncInfo):
                self.anchor[nm] = r
                self.by_func[id(r)] = nm
            elif nm in self.REQUIRED:
                raise AnalysisError(f"anchor vanished: {path} does not resolve to a function")
        self._is_op = {}
        self._may_emit = {}
        self._init_sig = {}
        self._family = None
        self._rules = None
        self._by_func = {}
        self._regs = None

    # -- operator classes ---------------------------------------------------------------------
    def is_operator(self, cls: ClassInfo):
        r = self._is_op.get(cls)
        if r is None:
            r = any(c.name in ("Operator", "Operator2") and c.module.name.startswith("pennylane.core.operator") for c in cls.mro())
            self._is_op[cls] = r
        return r

    def init_params(self, cls: ClassInfo):
        """positional parameter names of the constructor (without self), or None"""
        if cls not in self._init_sig:
            c, f = cls.lookup("__init__")
            names = None
            if isinstance(f, FuncInfo):
                a = f.node.args
                names = [x.arg for x in a.posonlyargs + a.args][1:]
            self._init_sig[cls] = names
        return self._init_sig[cls]

    def class_key(self, cls: ClassInfo, args=(), kwargs=None, run=None):
        kwargs = kwargs or {}
        names = self.init_params(cls) or []
        kind = SYMBOLIC.get(cls.name)
        if kind:
            base = kwargs.get("base")
            if base is None and args and not isinstance(args[0], StarV):
                base = args[0]
            if base is None:
                return cls.name
            bk = self.key_of(base)
            return _wrap(kind, bk) if bk else None
        key = cls.name
        if "pauli_word" in names or "pauli_word" in kwargs:
            w = kwargs.get("pauli_word")
            if w is None and "pauli_word" in names:
                i = names.index("pauli_word")
                if i < len(args) and not any(isinstance(a, StarV) for a in args[: i + 1]):
                    w = args[i]
            if isinstance(w, ConstV) and isinstance(w.value, str):
                key = f"{cls.name}[{w.value}]"
        return key

    def key_of(self, v):
        if isinstance(v, OpV):
            return v.key
        if isinstance(v, ClsV):
            return v.cls.name if self.is_operator(v.cls) else None
        if isinstance(v, SymV):
            return None if v.free else "$"
        if isinstance(v, CurryV) and v.kind in ("adjoint", "ctrl", "pow"):
            k = self.key_of(v.target)
            return _wrap({"adjoint": "Adjoint", "ctrl": "C", "pow": "Pow"}[v.kind], k) if k else None
        return None

    # -- controlled-dispatch families (read from the tree) ------------------------------------
    def family(self):
        """class name of a custom controlled operator -> coarse key ``C(<base>)``"""
        if self._family is not None:
            return self._family
        ix = self.ix
        direct = {}  # custom class name -> base class name
        disp = ix.resolve_dotted("pennylane.ops.op_math.controlled.custom_ctrl_dispatch")
        for f in ix.functions:
            for d in f.node.decorator_list:
                if isinstance(d, ast.Attribute) and d.attr == "register" and ix.resolve_expr(f.module, d.value) is disp and disp is not None:
                    a = f.node.args.args
                    if not a or a[0].annotation is None:
                        continue
                    b = ix.resolve_expr(f.module, a[0].annotation)
                    if not isinstance(b, ClassInfo):
                        continue
                    for n in walk_shallow(f.node):
                        if isinstance(n, ast.Return) and n.value is not None:
                            for c in ast.walk(n.value):
                                if isinstance(c, ast.Call):
                                    k = ix.resolve_expr(f.module, c.func)
                                    if isinstance(k, ClassInfo) and self.is_operator(k) and k is not b:
                                        direct.setdefault(k.name, b.name)
        tab = ix.resolve_dotted("pennylane.ops.op_math.controlled.base_to_custom_ctrl_op")
        if isinstance(tab, FuncInfo):
            for n in ast.walk(tab.node):
                if isinstance(n, ast.Dict):
                    for k, v in zip(n.keys, n.values):
                        if isinstance(k, ast.Tuple) and k.elts:
                            b = ix.resolve_expr(tab.module, k.elts[0])
                            c = ix.resolve_expr(tab.module, v)
                            if isinstance(b, ClassInfo) and isinstance(c, ClassInfo):
                                direct.setdefault(c.name, b.name)
        fam = {}

        def root(name, seen=()):
            if name in direct and name not in seen:
                return root(direct[name], seen + (name,))
            return name

        for c in direct:
            fam[c] = f"C({root(c)})"
        # two bases dispatching to one custom op (PhaseShift / U1 -> ControlledPhaseShift)
        alias = {}
        if isinstance(tab, FuncInfo):
            for n in ast.walk(tab.node):
                if isinstance(n, ast.Dict):
                    for k, v in zip(n.keys, n.values):
                        if isinstance(k, ast.Tuple) and k.elts:
                            b = ix.resolve_expr(tab.module, k.elts[0])
                            c = ix.resolve_expr(tab.module, v)
                            if isinstance(b, ClassInfo) and isinstance(c, ClassInfo) and fam.get(c.name) != f"C({b.name})":
                                alias[f"C({b.name})"] = fam[c.name]
        fam.update(alias)
        self._family = fam
        return fam

    def coarse(self, key, strip=None):
        """coarse form of a key: custom controlled ops folded into C(base), ChangeOpBasis / Prod
        components dropped; the literal refinement ``Cls[word]`` is dropped for every class when
        ``strip`` is None, else only for the class names in ``strip`` (classes that appear
        unrefined on one of the two sides: aggregated per class)"""
        fam = self.family()
        if strip is None:
            key = re.sub(r"\[[^\]]*\]", "", key)
        else:
            key = re.sub(r"(\w+)\[[^\]]*\]", lambda m: m.group(1) if m.group(1) in strip else m.group(0), key)
        if key.startswith("ChangeOpBasis"):
            return "ChangeOpBasis"
        if key.startswith("Prod"):
            return "Prod"

        def rec(k):
            if "[" in k:
                return k
            m = re.fullmatch(r"(\w+)\((.*)\)", k)
            if m:
                inner = rec(m.group(2))
                k2 = _wrap(m.group(1), inner)
                return fam.get(k2, k2)
            return fam.get(k, k)

        prev = None
        while prev != key:
            prev, key = key, rec(key)
        return key

    # -- value helpers ------------------------------------------------------------------------
    def vtext(self, v):
        if isinstance(v, ConstV):
            return repr(v.value)
        if isinstance(v, NumV):
            return str(v.poly)
        if isinstance(v, SymV):
            return v.text
        if isinstance(v, ClsV):
            return v.cls.name
        if isinstance(v, FuncV):
            return v.func.qualname
        if isinstance(v, OpV):
            return f"<{v.key}>"
        if isinstance(v, CondV):
            return ("not " if v.neg else "") + v.text
        if isinstance(v, TupleV):
            return "[" + ",".join(self.vtext(x) for x in v.items) + "]"
        if isinstance(v, StarV):
            return "*" + self.vtext(v.value)
        if isinstance(v, MeasV):
            return "mcm(" + ",".join(sorted(v.names)) + ")"
        if isinstance(v, ExtV):
            return v.text
        if isinstance(v, ModV):
            return v.mod.name
        if isinstance(v, MapV):
            return "{" + ",".join(f"{k}:{self.vtext(x)}" for k, x in sorted(v.items.items())) + "}"
        if isinstance(v, DictV):
            return "{" + ",".join(f"{k}:{c}" for k, c in sorted(v.items.items())) + "}"
        if isinstance(v, BuiltinV):
            return v.name
        if isinstance(v, (LocalFuncV,)):
            return v.node.name
        return "?"

    def to_num(self, v):
        """numeric value as Poly, or None"""
        if isinstance(v, NumV):
            return v.poly
        if isinstance(v, ConstV):
            if isinstance(v.value, bool):
                return Poly.const(int(v.value))
            if isinstance(v.value, int):
                return Poly.const(v.value)
            if isinstance(v.value, float) and v.value == int(v.value):
                return Poly.const(int(v.value))
            return None
        if isinstance(v, SymV) and not v.free:
            return Poly.atom(canon_atom(v.text))
        if isinstance(v, SymV):
            return Poly.atom(v.text)
        if isinstance(v, CondV):
            return Poly.atom(fn_atom("int", self.vtext(v)))
        return None

    def to_count(self, v):
        p = self.to_num(v)
        return p if p is not None else MANY

    def length(self, v):
        """len(v) as Poly or None"""
        if isinstance(v, TupleV):
            n = ZERO
            for x in v.items:
                if isinstance(x, StarV):
                    l = self.length(x.value)
                    if l is None:
                        return None
                    n = n + l
                else:
                    n = n + ONE
            return n
        if isinstance(v, ConstV) and isinstance(v.value, (str, tuple, list)):
            return Poly.const(len(v.value))
        if isinstance(v, SymV):
            if v.length is not None:
                return v.length
            return Poly.atom("#" + v.text)
        if isinstance(v, (MapV, DictV)):
            return Poly.const(len(v.items))
        if isinstance(v, AllocV):
            return v.site.num if isinstance(v.site.num, Poly) else None
        return None

    def cond_key(self, v):
        """(canonical text, polarity) of a truth value, or a bool when decided, or None"""
        if isinstance(v, ConstV):
            return bool(v.value)
        if isinstance(v, CondV):
            return (v.text, not v.neg)
        if isinstance(v, TupleV):
            if not any(isinstance(x, StarV) for x in v.items):
                return len(v.items) > 0
        if isinstance(v, NumV):
            i = v.poly.as_int()
            if i is not None:
                return i != 0
            return (self._cmp_text(v.poly, "==")[0], False)
        if isinstance(v, (ClsV, FuncV, LocalFuncV, OpV, LambdaV, CurryV)):
            return True
        if isinstance(v, MapV):
            return len(v.items) > 0
        if isinstance(v, DictV) and not v.opaque:
            return len(v.items) > 0
        if isinstance(v, SymV):
            if v.length is not None and v.length.as_int() is not None:
                return v.length.as_int() > 0
            return (f"truthy({v.text})", True)
        if isinstance(v, MeasV):
            return (self.vtext(v), True)
        return None

    def _cmp_text(self, p, op):
        """canonical text of  p <op> 0  for op in ==, >= ; returns (text, polarity)"""
        if op == "==":
            # sign-normalise
            lead = sorted(p.t, key=lambda k: (-sum(q for _, q in k), k))
            if lead and p.t[lead[0]] < 0:
                p = -p
            return (f"{p}==0", True)
        lead = [k for k in sorted(p.t, key=lambda k: (-sum(q for _, q in k), k)) if k != ()]
        if lead and p.t[lead[0]] < 0:
            # p >= 0  <=>  not (-p - 1 >= 0)   (integers)
            return (f"{-p - ONE}>=0", False)
        return (f"{p}>=0", True)

    def compare(self, a, op, b):
        if isinstance(a, ConstV) and isinstance(b, ConstV):
            try:
                x, y = a.value, b.value
                r = {"Eq": x == y, "NotEq": x != y, "Is": x is y or x == y and x is None, "IsNot": not (x is y or (x is None and y is None)),
                     "Lt": None, "LtE": None, "Gt": None, "GtE": None, "In": None, "NotIn": None}[op]  # fmt: skip
                if r is None:
                    r = {"Lt": lambda: x < y, "LtE": lambda: x <= y, "Gt": lambda: x > y, "GtE": lambda: x >= y,
                         "In": lambda: x in y, "NotIn": lambda: x not in y}[op]()  # fmt: skip
                return ConstV(bool(r))
            except Exception:  # noqa: BLE001
                pass
        if op in ("Is", "IsNot") and isinstance(b, ConstV) and b.value is None:
            if isinstance(a, (ClsV, FuncV, OpV, NumV, TupleV, MapV, DictV, LocalFuncV)):
                return ConstV(op == "IsNot")
        pa, pb = self.to_num(a), self.to_num(b)
        numeric = pa is not None and pb is not None and not (isinstance(a, SymV) and isinstance(b, ConstV) and isinstance(b.value, str))
        if numeric and op in ("Eq", "NotEq", "Lt", "LtE", "Gt", "GtE"):
            if op in ("Eq", "NotEq"):
                d = pa - pb
                if d.is_const():
                    return ConstV((d == ZERO) == (op == "Eq"))
                t, pol = self._cmp_text(d, "==")
                return CondV(t, neg=(pol != (op == "Eq")))
            d = {"GtE": pa - pb, "Gt": pa - pb - ONE, "LtE": pb - pa, "Lt": pb - pa - ONE}[op]
            if d.is_const():
                return ConstV(d.const_value() >= 0)
            t, pol = self._cmp_text(d, ">=")
            return CondV(t, neg=not pol)
        sym = {"Eq": "==", "NotEq": "==", "Is": " is ", "IsNot": " is ", "In": " in ", "NotIn": " in ",
               "Lt": "<", "LtE": "<=", "Gt": ">", "GtE": ">="}[op]  # fmt: skip
        neg = op in ("NotEq", "IsNot", "NotIn")
        ta, tb = self.vtext(a), self.vtext(b)
        if sym == "==" and tb < ta:
            ta, tb = tb, ta
        return CondV(f"{ta}{sym}{tb}", neg=neg)

    def is_structural(self, v):
        """a condition on the *shape* of the arguments (lengths, literal hyperparameters), as opposed
        to one computed from run-time data (math.allclose(...), control_values[i])"""
        if isinstance(v, ConstV):
            return True
        if not isinstance(v, CondV):
            return False
        t = re.sub(r"\b(int|floordiv|mod|min|max|pow|div|truthy|not|and|or)\(", "", v.text)
        return "(" not in t.replace("(", "", t.count("(") - t.count("(")) if False else not re.search(r"[A-Za-z_\]]\(", t)

    def loop_variant(self, text, run):
        return any(lv in text for lv in run.loopvars)

    def branch(self, v, run, allow_fork=True):
        """decide a truth value: True / False, or None when both arms must be taken (loop-variant
        or data dependent)"""
        k = self.cond_key(v)
        if isinstance(k, bool):
            return k
        if k is None:
            k = (f"?{self.vtext(v)}", True)
        text, pol = k
        if self.loop_variant(text, run) or isinstance(v, MeasV) or not allow_fork:
            return None
        d = run.decide(text)
        return d if pol else not d

    # -- expression evaluation ---------------------------------------------------------------
    def conv(self, r, name=""):
        if r is None:
            return None
        if isinstance(r, ClassInfo):
            return ClsV(r)
        if isinstance(r, FuncInfo):
            return FuncV(r)
        if isinstance(r, Module):
            return ModV(r)
        if isinstance(r, tuple) and r and r[0] == "value":
            node = r[2]
            if isinstance(node, ast.Constant):
                return ConstV(node.value)
            if isinstance(node, (ast.Tuple, ast.List)) and all(isinstance(e, ast.Constant) for e in node.elts):
                return ConstV(tuple(e.value for e in node.elts))
            return SymV(name or norm(node)[:40], free=False)
        return None

    def ext_name(self, module, name):
        b = module.names.get(name)
        if b is None:
            return None
        kind, val = b
        if kind == "import" and not str(val).startswith("pennylane"):
            return str(val)
        if kind == "from" and not str(val[0]).startswith("pennylane"):
            return f"{val[0]}.{val[1]}"
        return None

    def ev_name(self, e, fr, run):
        v = fr.lookup(e.id)
        if v is not None:
            return v
        r = self.ix.resolve_expr(fr.module, e)
        v = self.conv(r, e.id)
        if v is not None:
            return v
        x = self.ext_name(fr.module, e.id)
        if x:
            return ExtV(x)
        if hasattr(_builtins, e.id):
            return BuiltinV(e.id)
        if e.id in fr.module.names:
            return ExtV(e.id)  # an import the index cannot follow
        return UnkV(f"free name {e.id}")

    def getattr_(self, base, attr, run):
        if isinstance(base, ClsV):
            if attr == "__name__":
                return ConstV(base.cls.name)
            c, f = base.cls.lookup(attr)
            if isinstance(f, FuncInfo):
                return FuncV(f)
            if isinstance(f, ast.Constant):
                return ConstV(f.value)
            return SymV(f"{base.cls.name}.{attr}")
        if isinstance(base, SymV):
            return SymV(f"{base.text}.{attr}", free=base.free)
        if isinstance(base, OpV):
            if attr in ("op_type", "params"):
                return base if attr == "op_type" else SymV(f"<{base.key}>.params")
            return SymV(f"<{base.key}>.{attr}")
        if isinstance(base, ModV):
            r = self.ix._member(base.mod, attr)  # noqa: SLF001
            v = self.conv(r, attr)
            if v is not None:
                return v
            x = self.ext_name(base.mod, attr)
            return ExtV(x or f"{base.mod.name}.{attr}")
        if isinstance(base, ExtV):
            return ExtV(f"{base.text}.{attr}")
        if isinstance(base, (DictV, MapV, TupleV, ConstV)):
            return BoundV(base, attr)
        if isinstance(base, MeasV):
            return base
        if isinstance(base, (FuncV, LocalFuncV, LambdaV, CurryV)):
            return SymV(f"{self.vtext(base)}.{attr}", free=True)
        if isinstance(base, AllocV):
            return SymV(f"alloc.{attr}")
        if isinstance(base, NumV):
            return BoundV(base, attr)
        if isinstance(base, UnkV):
            return base
        return UnkV(f"attribute {attr}")

    def ev_attr(self, e, fr, run):
        parts = dotted_parts(e)
        if parts and fr.lookup(parts[0]) is None:
            r = self.ix.resolve_expr(fr.module, e)
            v = self.conv(r, ".".join(parts))
            if v is not None:
                return v
        return self.getattr_(self.ev(e.value, fr, run), e.attr, run)

    def ev(self, e, fr, run):
        run.steps += 1
        if run.steps > 200000:
            raise AnalysisError("rulescan: step bound exceeded (non-terminating symbolic execution?)")
        if isinstance(e, ast.Constant):
            return ConstV(e.value)
        if isinstance(e, ast.Name):
            return self.ev_name(e, fr, run)
        if isinstance(e, ast.Attribute):
            return self.ev_attr(e, fr, run)
        if isinstance(e, ast.Call):
            return self.ev_call(e, fr, run)
        if isinstance(e, ast.BinOp):
            return self.ev_binop(e, fr, run)
        if isinstance(e, ast.UnaryOp):
            v = self.ev(e.operand, fr, run)
            if isinstance(e.op, ast.Not):
                k = self.cond_key(v)
                if isinstance(k, bool):
                    return ConstV(not k)
                if k is None:
                    return CondV(f"?{self.vtext(v)}", neg=True)
                return CondV(k[0], neg=k[1])
            if isinstance(e.op, ast.USub):
                if isinstance(v, ConstV) and isinstance(v.value, (int, float)):
                    return ConstV(-v.value)
                p = self.to_num(v)
                if p is not None and not isinstance(v, SymV):
                    return NumV(-p)
                return SymV(f"-({self.vtext(v)})")
            if isinstance(e.op, ast.UAdd):
                return v
            return SymV(f"~({self.vtext(v)})") if not isinstance(v, MeasV) else v
        if isinstance(e, ast.Compare):
            left = self.ev(e.left, fr, run)
            res = None
            for op, c in zip(e.ops, e.comparators):
                right = self.ev(c, fr, run)
                if isinstance(left, MeasV) or isinstance(right, MeasV):
                    names = set()
                    for x in (left, right):
                        if isinstance(x, MeasV):
                            names |= x.names
                    r = MeasV(names)
                else:
                    r = self.compare(left, type(op).__name__, right)
                res = r if res is None else self.boolop("and", [res, r])
                left = right
            return res
        if isinstance(e, ast.BoolOp):
            vals = []
            kind = "and" if isinstance(e.op, ast.And) else "or"
            for x in e.values:
                v = self.ev(x, fr, run)
                k = self.cond_key(v)
                if isinstance(k, bool):
                    if (kind == "and" and not k) or (kind == "or" and k):
                        return v if not vals else (ConstV(k))
                    continue  # neutral element
                vals.append(v)
            if not vals:
                return ConstV(kind == "and")
            if len(vals) == 1:
                return vals[0]
            return self.boolop(kind, vals)
        if isinstance(e, ast.IfExp):
            t = self.ev(e.test, fr, run)
            d = self.branch(t, run)
            if d is True:
                return self.ev(e.body, fr, run)
            if d is False:
                return self.ev(e.orelse, fr, run)
            run.opt.append(self.vtext(t))
            try:
                a = self.ev(e.body, fr, run)
                b = self.ev(e.orelse, fr, run)
            finally:
                run.opt.pop()
            if self.vtext(a) == self.vtext(b) and not isinstance(a, (UnkV, OpV)):
                return a
            return SymV(f"({self.vtext(a)} if {self.vtext(t)} else {self.vtext(b)})")
        if isinstance(e, ast.Subscript):
            return self.ev_subscript(e, fr, run)
        if isinstance(e, (ast.Tuple, ast.List, ast.Set)):
            return TupleV([self.ev(x, fr, run) for x in e.elts])
        if isinstance(e, ast.Starred):
            return StarV(self.ev(e.value, fr, run))
        if isinstance(e, ast.Dict):
            return self.ev_dict(e, fr, run)
        if isinstance(e, (ast.ListComp, ast.GeneratorExp, ast.SetComp, ast.DictComp)):
            return self.ev_comp(e, fr, run)
        if isinstance(e, ast.Lambda):
            return LambdaV(e, fr)
        if isinstance(e, ast.NamedExpr):
            v = self.ev(e.value, fr, run)
            fr.bind(e.target.id, v)
            return v
        if isinstance(e, ast.JoinedStr):
            return SymV("f" + repr(norm(e))[:40])
        if isinstance(e, ast.Slice):
            return SymV("slice")
        if isinstance(e, (ast.Yield, ast.YieldFrom, ast.Await)):
            run.unres("generator / coroutine rule body")
            return UnkV("yield")
        return SymV(norm(e)[:60])

    def boolop(self, kind, vals):
        if any(isinstance(v, MeasV) for v in vals):
            names = set()
            for v in vals:
                if isinstance(v, MeasV):
                    names |= v.names
            return MeasV(names)
        return CondV("(" + f" {kind} ".join(self.vtext(v) for v in vals) + ")")

    def ev_binop(self, e, fr, run):
        a = self.ev(e.left, fr, run)
        b = self.ev(e.right, fr, run)
        op = type(e.op).__name__
        if isinstance(a, MeasV) or isinstance(b, MeasV):
            names = set()
            for x in (a, b):
                if isinstance(x, MeasV):
                    names |= x.names
            return MeasV(names)
        if isinstance(a, ConstV) and isinstance(b, ConstV):
            try:
                x, y = a.value, b.value
                r = {"Add": lambda: x + y, "Sub": lambda: x - y, "Mult": lambda: x * y, "Div": lambda: x / y,
                     "FloorDiv": lambda: x // y, "Mod": lambda: x % y, "Pow": lambda: x**y,
                     "BitAnd": lambda: x & y, "BitOr": lambda: x | y, "LShift": lambda: x << y, "RShift": lambda: x >> y}[op]()  # fmt: skip
                if not isinstance(r, complex) and not (isinstance(r, int) and abs(r) > 10**12):
                    return ConstV(r)
            except Exception:  # noqa: BLE001
                pass
        # sequence concatenation / repetition
        if op == "Add" and (isinstance(a, TupleV) or isinstance(b, TupleV) or self._seq(a) or self._seq(b)):
            if isinstance(a, TupleV) and isinstance(b, TupleV):
                return TupleV(a.items + b.items)
            la, lb = self.length(a), self.length(b)
            return SymV(f"{self.vtext(a)}+{self.vtext(b)}", length=(la + lb) if la is not None and lb is not None else None)
        if op == "Mult" and isinstance(a, TupleV) and self.to_num(b) is not None:
            n = self.to_num(b)
            if n.as_int() is not None and 0 <= n.as_int() <= 16:
                return TupleV(a.items * n.as_int())
            la = self.length(a)
            return SymV(f"{self.vtext(a)}*{n}", length=la * n if la is not None else None)
        pa, pb = self.to_num(a), self.to_num(b)
        if pa is not None and pb is not None and not (isinstance(a, SymV) and self._seq(a)):
            if op == "Add":
                return NumV(pa + pb)
            if op == "Sub":
                return NumV(pa - pb)
            if op == "Mult":
                return NumV(pa * pb)
            if op == "Div" and pb.is_const() and pb != ZERO:
                return NumV(pa.scale(1 / pb.const_value()))
            if op == "Pow" and pb.as_int() is not None and 0 <= pb.as_int() <= 6:
                r = ONE
                for _ in range(pb.as_int()):
                    r = r * pa
                return NumV(r)
            name = {"FloorDiv": "floordiv", "Mod": "mod", "Pow": "pow", "Div": "div"}.get(op)
            if name:
                if name == "floordiv" and pb.as_int() == 1:
                    return NumV(pa)
                return NumV(Poly.atom(fn_atom(name, pa, pb)))
        sym = {"Add": "+", "Sub": "-", "Mult": "*", "Div": "/", "FloorDiv": "//", "Mod": "%", "Pow": "**", "MatMult": "@",
               "BitAnd": "&", "BitOr": "|", "BitXor": "^", "LShift": "<<", "RShift": ">>"}.get(op, op)  # fmt: skip
        if op == "MatMult" and (isinstance(a, OpV) or isinstance(b, OpV)):
            for x in (a, b):
                self.consume(x, run)
            return self.emit_value("Prod", e, run)
        return SymV(f"({self.vtext(a)}{sym}{self.vtext(b)})")

    def _seq(self, v):
        if not isinstance(v, SymV):
            return False
        if v.length is not None:
            return True
        if re.match(r"(num|n)_", v.text):
            return False
        return re.search(r"(^|[._])wires$|\[[^\]]*:[^\]]*\]$", v.text) is not None

    def ev_subscript(self, e, fr, run):
        base = self.ev(e.value, fr, run)
        sl = e.slice
        if isinstance(sl, ast.Slice):
            lo = self.ev(sl.lower, fr, run) if sl.lower is not None else None
            hi = self.ev(sl.upper, fr, run) if sl.upper is not None else None
            st = self.ev(sl.step, fr, run) if sl.step is not None else None
            if isinstance(base, TupleV) and all(x is None or isinstance(x, ConstV) for x in (lo, hi, st)) and not any(
                isinstance(x, StarV) for x in base.items
            ):
                try:
                    return TupleV(base.items[slice(*(x.value if x else None for x in (lo, hi, st)))])
                except Exception:  # noqa: BLE001
                    pass
            if isinstance(base, ConstV) and isinstance(base.value, (str, tuple)) and all(x is None or isinstance(x, ConstV) for x in (lo, hi, st)):
                try:
                    return ConstV(base.value[slice(*(x.value if x else None for x in (lo, hi, st)))])
                except Exception:  # noqa: BLE001
                    pass
            L = self.length(base)
            length = None
            stp = self.to_num(st).as_int() if st is not None and self.to_num(st) is not None else (1 if st is None else None)
            if L is not None and stp in (1, -1):
                def bound(x, default):
                    if x is None:
                        return default
                    p = self.to_num(x)
                    if p is None:
                        return None
                    i = p.as_int()
                    if i is not None and i < 0:
                        return L + p
                    return p
                if stp == 1:
                    s, t = bound(lo, ZERO), bound(hi, L)
                    if s is not None and t is not None:
                        length = t - s
                elif lo is None and hi is None:
                    length = L
            txt = f"{self.vtext(base)}[{self.vtext(lo) if lo else ''}:{self.vtext(hi) if hi else ''}{':' + self.vtext(st) if st else ''}]"
            return SymV(txt, length=length, free=getattr(base, "free", False))
        idx = self.ev(sl, fr, run)
        if isinstance(base, MeasV):
            return base
        if isinstance(base, TupleV) and isinstance(idx, ConstV) and isinstance(idx.value, int) and not any(isinstance(x, StarV) for x in base.items):
            try:
                return base.items[idx.value]
            except IndexError:
                pass
        if isinstance(base, ConstV) and isinstance(idx, ConstV):
            try:
                return ConstV(base.value[idx.value])
            except Exception:  # noqa: BLE001
                pass
        if isinstance(base, MapV) and isinstance(idx, ConstV) and idx.value in base.items:
            return base.items[idx.value]
        if isinstance(base, DictV):
            k = self.key_of(idx)
            if k is not None and k in base.items and isinstance(base.items[k], Poly):
                return NumV(base.items[k])
            if k is not None and not base.opaque and k not in base.items:
                return NumV(ZERO)
            return SymV(f"{self.vtext(base)}[{self.vtext(idx)}]")
        if isinstance(base, ExtV) and base.text.endswith("Wire"):
            p = self.to_num(idx)
            return SymV(f"Wire[{self.vtext(idx)}]", length=p)
        if isinstance(base, UnkV):
            return base
        return SymV(f"{self.vtext(base)}[{self.vtext(idx)}]", free=getattr(base, "free", False))

    def ev_dict(self, e, fr, run):
        if not e.keys:
            return DictV()
        if all(isinstance(k, ast.Constant) and isinstance(k.value, str) for k in e.keys):
            return MapV({k.value: self.ev(v, fr, run) for k, v in zip(e.keys, e.values)})
        d = DictV()
        seen_text = set()
        for k, v in zip(e.keys, e.values):
            if k is None:  # {**other}
                o = self.ev(v, fr, run)
                if isinstance(o, DictV):
                    for kk, c in o.items.items():
                        d.set(kk, c, o.nodes.get(kk))
                    d.opaque |= o.opaque
                elif isinstance(o, MapV) and not o.items:
                    pass
                else:
                    d.opaque = True
                    d.why = f"merges {self.vtext(o)[:40]}"
                continue
            kv = self.ev(k, fr, run)
            cv = self.ev(v, fr, run)
            key = self.key_of(kv)
            if key is None:
                d.opaque = True
                d.why = f"key {norm(k)[:50]} not understood"
                continue
            # two displays of one key overwrite (python dict semantics), the resource counter adds
            # equal abstract keys only after abstractify; literal duplicates are overwritten
            kt = norm(k)
            if key in d.items and kt not in seen_text:
                d.add(key, self.to_count(cv), v)
            else:
                d.set(key, self.to_count(cv), v)
            seen_text.add(kt)
        return d

    def ev_comp(self, e, fr, run):
        # never executed: an emitting call inside a comprehension is not modelled
        for n in ast.walk(e):
            if isinstance(n, ast.Call) and self.call_may_emit(n, fr):
                if run.mode == "body":
                    run.unres(f"operator constructed inside a comprehension: {norm(n)[:50]}")
                break
        length = None
        if not isinstance(e, ast.DictComp) and len(e.generators) == 1 and not e.generators[0].ifs:
            sub = Frame(fr.module, fr)
            it = self.ev(e.generators[0].iter, sub, run)
            length = self.iter_len(it)
        if isinstance(e, ast.DictComp):
            d = DictV(opaque=True)
            d.why = "dict comprehension"
            return d
        return SymV("comp:" + norm(e)[:50], length=length)

    # -- emissions ------------------------------------------------------------------------------
    def consume(self, v, run):
        """an operator value handed to a wrapper / another operator leaves the queue"""
        if isinstance(v, OpV):
            if v.em is not None:
                v.em.consumed = True
            for p in v.parts:
                p.consumed = True
        elif isinstance(v, TupleV):
            for x in v.items:
                self.consume(x, run)
        elif isinstance(v, StarV):
            self.consume(v.value, run)

    def emit_value(self, key, node, run, wires=None, fuzzy=False, cond=None, extra=None, fr=None):
        if run.mode != "body":
            return OpV(key)
        if key is None:
            run.unres(f"operator type not understood: {norm(node)[:60]}")
            return OpV("?")
        em = Emission(key=key, count=run.count(), node=node, in_loop=bool(run.mult), optional=bool(run.opt),
                      cond=cond or (run.opt[-1] if run.opt else None), fuzzy=fuzzy, wires=wires, extra_wires=extra or {},
                      func=run.callstack[-1][1] if run.callstack else "", module=run.callstack[-1][0] if run.callstack else "")  # fmt: skip
        run.emissions.append(em)
        return OpV(key, em)

    def wire_argnames(self, cls):
        """names of the constructor arguments that carry wires: the class's ``wire_argnames`` tuple
        when it is a literal, else ("wires",)"""
        if cls is None:
            return ("wires",)
        c, v = cls.lookup("wire_argnames")
        if isinstance(v, (ast.Tuple, ast.List)) and all(isinstance(x, ast.Constant) and isinstance(x.value, str) for x in v.elts):
            return tuple(x.value for x in v.elts)
        return ("wires",)

    def ctor_params(self, cls):
        """positional parameter names of the constructor: ``__init__`` (own or inherited below the
        operator base classes), else the keys of a literal ``arg_specs``; None when unknown"""
        if cls is None:
            return None
        for c in cls.mro():
            if c.name in ("Operator", "Operator2") and c.module.name.startswith("pennylane.core.operator"):
                break
            f = c.own_method("__init__")
            if f is not None:
                a = f.node.args
                return [x.arg for x in a.posonlyargs + a.args][1:]
        c, v = cls.lookup("arg_specs")
        if isinstance(v, ast.Dict) and all(isinstance(k, ast.Constant) for k in v.keys):
            return [k.value for k in v.keys]
        return None

    def wire_args_of(self, cls, call):
        """{wire argument name: ast} of an operator constructor call, through the resolved signature
        (never by position alone); {} when the signature is not known"""
        out = {}
        wn = self.wire_argnames(cls)
        for kw in call.keywords:
            if kw.arg in wn or kw.arg == "wires":
                out[kw.arg] = kw.value
        names = self.ctor_params(cls)
        if names is None:
            if cls is None and call.args and not call.keywords and len(call.args) == 1:
                return out
            return out
        for i, a in enumerate(call.args):
            if isinstance(a, ast.Starred):
                break
            if i < len(names) and (names[i] in wn or names[i] == "wires") and names[i] not in out:
                out[names[i]] = a
        return out

    def wires_arg(self, cls, call):
        w = self.wire_args_of(cls, call)
        if "wires" in w:
            return w["wires"]
        for n in self.wire_argnames(cls):
            if n in w:
                return w[n]
        return None

    def may_emit(self, f: FuncInfo, _depth=0):
        """does calling ``f`` (transitively, resolved callees only) construct operators?"""
        k = id(f)
        if k in self._may_emit:
            return self._may_emit[k]
        mod = f.module.name
        if mod.startswith(("pennylane.math", "pennylane.numpy", "pennylane.wires", "pennylane.typing", "pennylane.pauli",
                           "pennylane.capture", "pennylane.compiler", "pennylane.exceptions", "pennylane.decomposition.resources")):
            self._may_emit[k] = False
            return False
        self._may_emit[k] = False  # cycle guard
        res = False
        if _depth < 6:
            fr = Frame(f.module)
            for n in ast.walk(f.node):
                if isinstance(n, ast.Call) and self.call_may_emit(n, fr, _depth + 1):
                    res = True
                    break
        self._may_emit[k] = res
        return res

    def call_may_emit(self, call, fr, _depth=0):
        fn = call.func
        while isinstance(fn, ast.Call):
            fn = fn.func
        if not isinstance(fn, (ast.Name, ast.Attribute)):
            return False
        r = self.ix.resolve_expr(fr.module, fn)
        if isinstance(r, ClassInfo):
            return self.is_operator(r)
        if isinstance(r, Module):
            r = r.functions.get(r.name.split(".")[-1])
        if isinstance(r, FuncInfo):
            nm = self.by_func.get(id(r))
            if nm in ("adjoint", "ctrl", "pow", "prod", "change_op_basis", "apply", "bind_new_parameters", "measure",
                      "pauli_measure", "s_prod", "exp", "evolve", "cond"):
                return True
            if nm is not None:
                return False
            return self.may_emit(r, _depth)
        return False

    def iter_len(self, it):
        if isinstance(it, CurryV) and it.kind == "range":
            return it.extra["n"]
        return self.length(it)

    # -- calls ----------------------------------------------------------------------------------
    def ev_args(self, e, fr, run):
        args = [self.ev(a, fr, run) for a in e.args]
        kwargs, starkw = {}, None
        for kw in e.keywords:
            if kw.arg is None:
                starkw = self.ev(kw.value, fr, run)
                if isinstance(starkw, MapV):
                    kwargs.update(starkw.items)
                    starkw = None
            else:
                kwargs[kw.arg] = self.ev(kw.value, fr, run)
        return args, kwargs, starkw

    def ev_call(self, e, fr, run, curried=False):
        if isinstance(e.func, ast.Call):
            fv = self.ev_call(e.func, fr, run, curried=True)
        else:
            fv = self.ev(e.func, fr, run)
        args, kwargs, starkw = self.ev_args(e, fr, run)
        return self.call(fv, args, kwargs, starkw, e, fr, run, curried)

    def call(self, fv, args, kwargs, starkw, e, fr, run, curried=False):
        if isinstance(fv, ModV):
            f = fv.mod.functions.get(fv.mod.name.split(".")[-1])
            fv = FuncV(f) if f is not None else UnkV(f"module {fv.mod.name} called")
        if isinstance(fv, ClsV):
            cls = fv.cls
            if self.is_operator(cls):
                key = self.class_key(cls, args, kwargs)
                for a in list(args) + list(kwargs.values()):
                    self.consume(a, run)
                if starkw is not None:
                    self.consume(starkw, run)
                wa = self.wire_args_of(cls, e)
                return self.emit_value(key, e, run, wires=self.wires_arg(cls, e), extra={k: v for k, v in wa.items() if k != "wires"})
            return SymV(f"{cls.name}(...)")
        if isinstance(fv, FuncV):
            return self.call_func(fv.func, args, kwargs, starkw, e, fr, run, curried)
        if isinstance(fv, LocalFuncV):
            return self.call_local(fv, args, kwargs, e, run)
        if isinstance(fv, LambdaV):
            sub = Frame(fv.frame.module, fv.frame, fv.frame.qual)
            self.bind_params(fv.node.args, args, kwargs, starkw, sub, run)
            return self.ev(fv.node.body, sub, run)
        if isinstance(fv, CurryV):
            return self.call_curry(fv, args, kwargs, starkw, e, fr, run)
        if isinstance(fv, BuiltinV):
            return self.call_builtin(fv.name, args, kwargs, e, fr, run)
        if isinstance(fv, BoundV):
            return self.call_method(fv, args, kwargs, e, run)
        if isinstance(fv, ExtV):
            return self.call_ext(fv, args, kwargs, e, run)
        if isinstance(fv, SymV):
            if fv.param and not fv.free:
                # a parameter holding an operator class / instance factory: `rotation(angle, wires=w)`
                for a in list(args) + list(kwargs.values()):
                    self.consume(a, run)
                return self.emit_value("$", e, run, wires=self.wires_arg(None, e))
            last = fv.text.rsplit(".", 1)[-1]
            if fv.free or last in SUSPICIOUS_METHODS:
                if run.mode == "body":
                    run.unres(f"call through {fv.text}(...) cannot be resolved")
                return UnkV(f"call of {fv.text}")
            return SymV(f"{fv.text}({','.join(self.vtext(a) for a in args)})")
        if isinstance(fv, MeasV):
            return fv
        if run.mode == "body":
            run.unres(f"unresolved callee: {norm(e.func)[:60]}")
        return UnkV("unresolved callee")

    def call_ext(self, fv, args, kwargs, e, run):
        t = fv.text
        if t in ("functools.partial", "partial") and args:
            return CurryV("partial", args[0], args=args[1:], kwargs=kwargs)
        if t.endswith("defaultdict") or t.endswith("Counter"):
            for a in args:
                if isinstance(a, DictV):
                    return a.copy()
                if isinstance(a, MapV) and not a.items:
                    return DictV()
            if all(isinstance(a, (ExtV, BuiltinV, ClsV)) for a in args):
                return DictV()
            d = DictV(opaque=True)
            d.why = "defaultdict/Counter built from a value that is not understood"
            return d
        if t.split(".")[-1] in IDENTITY_FUNCS and args and isinstance(args[0], (SymV, TupleV, NumV, ConstV)):
            return args[0]
        for a in list(args) + list(kwargs.values()):
            if isinstance(a, OpV) and a.em is not None and run.mode == "body":
                run.unres(f"operator passed to external function {t}")
        if t.split(".")[-1] in ("ceil", "floor", "int", "log2", "sqrt", "ceil_log2") and len(args) == 1:
            p = self.to_num(args[0])
            if p is not None:
                if p.as_int() is not None and t.split(".")[-1] in ("ceil", "floor", "int"):
                    return ConstV(p.as_int())
                return NumV(Poly.atom(fn_atom(t.split(".")[-1], p)))
        if t.split(".")[-1] in ("shape",) and args:
            return SymV(f"shape({self.vtext(args[0])})")
        return SymV(f"{t}({','.join(self.vtext(a) for a in args)})")

    def call_builtin(self, name, args, kwargs, e, fr, run):
        a0 = args[0] if args else None
        if name == "len" and a0 is not None:
            l = self.length(a0)
            return NumV(l) if l is not None else SymV(f"len({self.vtext(a0)})")
        if name == "range":
            ps = [self.to_num(a) for a in args]
            if all(p is not None for p in ps) and 1 <= len(ps) <= 3:
                if len(ps) == 1:
                    n = ps[0]
                elif len(ps) == 2:
                    n = ps[1] - ps[0]
                else:
                    s = ps[2].as_int()
                    if s == 1:
                        n = ps[1] - ps[0]
                    elif s == -1:
                        n = ps[0] - ps[1]
                    elif s and (ps[1] - ps[0]).as_int() is not None:
                        n = Poly.const(len(range(0, (ps[1] - ps[0]).as_int(), s)))
                    else:
                        n = Poly.atom(fn_atom("rangelen", *ps))
                i = n.as_int()
                if i is not None and i < 0:
                    n = ZERO
                return CurryV("range", None, n=n, text=f"range({','.join(str(p) for p in ps)})")
            return CurryV("range", None, n=None, text="range(?)")
        if name in ("int", "float", "bool") and a0 is not None:
            if isinstance(a0, ConstV):
                try:
                    return ConstV({"int": int, "float": float, "bool": bool}[name](a0.value))
                except Exception:  # noqa: BLE001
                    return SymV(f"{name}({self.vtext(a0)})")
            if isinstance(a0, NumV) and name != "bool":
                return a0
            if isinstance(a0, CondV):
                return NumV(Poly.atom(fn_atom("int", self.vtext(a0))))
            if isinstance(a0, SymV) and name == "int":
                p = self.to_num(a0)
                return NumV(p)
            return SymV(f"{name}({self.vtext(a0)})")
        if name in ("min", "max", "abs", "sum", "pow", "round", "divmod"):
            ps = [self.to_num(a) for a in args]
            if ps and all(p is not None for p in ps):
                if all(p.as_int() is not None for p in ps) and name in ("min", "max", "abs") and not (name != "abs" and len(ps) < 2):
                    return ConstV({"min": min, "max": max, "abs": abs}[name](*[p.as_int() for p in ps]))
                if name in ("min", "max"):
                    ps = sorted(ps, key=str)
                return NumV(Poly.atom(fn_atom(name, *ps)))
            return SymV(f"{name}({','.join(self.vtext(a) for a in args)})")
        if name in ("list", "tuple", "sorted", "set", "reversed", "iter", "frozenset"):
            if a0 is None:
                return TupleV([])
            if isinstance(a0, TupleV):
                return TupleV(a0.items[::-1]) if name == "reversed" else a0
            if isinstance(a0, CurryV) and a0.kind == "range":
                return a0
            if name == "set":
                return SymV(f"set({self.vtext(a0)})")
            return SymV(f"{self.vtext(a0)}", length=self.iter_len(a0), free=getattr(a0, "free", False)) if isinstance(a0, SymV) else a0
        if name == "enumerate" and a0 is not None:
            return CurryV("enumerate", a0)
        if name == "zip":
            return CurryV("zip", None, items=args, strict=kwargs.get("strict"))
        if name == "dict":
            if a0 is None:
                return DictV() if not kwargs else MapV(kwargs)
            if isinstance(a0, (DictV, MapV)):
                return a0.copy() if isinstance(a0, DictV) else a0
            d = DictV(opaque=True)
            d.why = f"dict({self.vtext(a0)[:40]})"
            return d
        if name == "type" and a0 is not None and len(args) == 1:
            k = self.key_of(a0)
            return CurryV("type", a0) if k else SymV(f"type({self.vtext(a0)})")
        if name in ("isinstance", "issubclass", "hasattr", "callable", "all", "any"):
            if name == "isinstance" and isinstance(a0, ConstV) and len(args) == 2 and isinstance(args[1], BuiltinV):
                t = getattr(_builtins, args[1].name, None)
                if isinstance(t, type):
                    return ConstV(isinstance(a0.value, t))
            return CondV(f"{name}({','.join(self.vtext(a) for a in args)})")
        if name == "getattr" and len(args) >= 2 and isinstance(args[1], ConstV):
            return self.getattr_(a0, str(args[1].value), run)
        if name in ("print", "str", "repr", "id", "hash", "next", "map", "filter", "slice", "super", "vars", "format", "ValueError"):
            return SymV(f"{name}(...)")
        return SymV(f"{name}({','.join(self.vtext(a) for a in args)})")

    def call_method(self, bv, args, kwargs, e, run):
        base, attr = bv.base, bv.attr
        if isinstance(base, DictV):
            if attr == "items":
                return CurryV("items", base)
            if attr in ("keys", "values"):
                return SymV(f"dict.{attr}", length=Poly.const(len(base.items)) if not base.opaque else None)
            if attr == "copy":
                return base.copy()
            if attr == "get" and args:
                k = self.key_of(args[0])
                if k is not None and k in base.items:
                    return self.from_count(base.items[k])
                if k is not None and not base.opaque:
                    return args[1] if len(args) > 1 else ConstV(None)
                return SymV("dict.get(...)")
            if attr == "update":
                o = args[0] if args else None
                if isinstance(o, DictV):
                    for k, c in o.items.items():
                        base.set(k, MANY if (run.mult or run.opt) else c, o.nodes.get(k))
                    base.opaque |= o.opaque
                elif o is not None and not (isinstance(o, MapV) and not o.items):
                    base.opaque = True
                    base.why = "update() with a value that is not understood"
                return ConstV(None)
            if attr in ("pop", "setdefault", "clear", "popitem"):
                base.opaque = True
                base.why = f"dict.{attr}()"
                return SymV(f"dict.{attr}()")
        if isinstance(base, MapV):
            if attr == "get" and args and isinstance(args[0], ConstV):
                return base.items.get(args[0].value, args[1] if len(args) > 1 else ConstV(None))
            if attr == "copy":
                return MapV(base.items)
            if attr == "items":
                return SymV("map.items()", length=Poly.const(len(base.items)))
            if attr == "update":
                if args and isinstance(args[0], MapV):
                    base.items.update(args[0].items)
                base.items.update(kwargs)
                return ConstV(None)
        if isinstance(base, TupleV):
            if attr == "append" and args:
                base.items.append(args[0])
                return ConstV(None)
            if attr == "extend" and args:
                base.items.append(StarV(args[0]))
                return ConstV(None)
            if attr == "copy":
                return TupleV(base.items)
            if attr in ("index", "count"):
                return SymV(f"list.{attr}()")
        if isinstance(base, ConstV) and isinstance(base.value, str):
            if all(isinstance(a, ConstV) for a in args) and attr in ("upper", "lower", "strip", "count", "replace", "startswith", "endswith"):
                try:
                    return ConstV(getattr(base.value, attr)(*[a.value for a in args]))
                except Exception:  # noqa: BLE001
                    pass
        return SymV(f"{self.vtext(base)}.{attr}()")

    def from_count(self, c):
        return NumV(c) if isinstance(c, Poly) else SymV("many")

    # -- repository functions: wrappers, resource reps, helpers --------------------------------
    def rep_key(self, clsv, params):
        """key of resource_rep(cls, **params) / (base_class, base_params) pairs"""
        if isinstance(clsv, OpV):
            return clsv.key
        if isinstance(clsv, SymV):
            return None if clsv.free else "$"
        if not isinstance(clsv, ClsV):
            return None
        cls = clsv.cls
        kind = SYMBOLIC.get(cls.name)
        items = params.items if isinstance(params, MapV) else (params if isinstance(params, dict) else {})
        if kind:
            if "base_class" in items:
                bk = self.rep_key(items["base_class"], items.get("base_params"))
                return _wrap(kind, bk) if bk else None
            if "base" in items:
                bk = self.key_of(items["base"])
                return _wrap(kind, bk) if bk else None
            if isinstance(params, SymV) or not items:
                return _wrap(kind, "$")
            return None
        if cls.name in ("Prod", "Prod2"):
            return "Prod"
        if cls.name == "ChangeOpBasis":
            ks = [self.key_of(items.get(n)) if items.get(n) is not None else None for n in ("compute_op", "target_op", "uncompute_op")]
            return self.cob_key(*ks)
        if not self.is_operator(cls):
            return None
        key = cls.name
        w = items.get("pauli_word")
        if isinstance(w, ConstV) and isinstance(w.value, str):
            key = f"{key}[{w.value}]"
        return key

    def cob_key(self, a, b, c):
        if a is None or b is None:
            return "ChangeOpBasis"
        if c is None:
            c = _wrap("Adjoint", a)
        return f"ChangeOpBasis({a},{b},{c})"

    def call_func(self, f, args, kwargs, starkw, e, fr, run, curried=False):
        nm = self.by_func.get(id(f))

        def arg(i, name, default=None):
            if name in kwargs:
                return kwargs[name]
            if i < len(args) and not any(isinstance(a, StarV) for a in args[: i + 1]):
                return args[i]
            return default

        if nm in ("adjoint", "ctrl", "pow"):
            kind = {"adjoint": "Adjoint", "ctrl": "C", "pow": "Pow"}[nm]
            x = arg(0, {"adjoint": "fn", "ctrl": "op", "pow": "base"}[nm])
            lazy = kwargs.get("lazy")
            fuzzy = isinstance(lazy, ConstV) and lazy.value is False
            extra = {}
            if nm == "ctrl" and isinstance(e, ast.Call):
                for kw in e.keywords:
                    if kw.arg in ("control", "work_wires"):
                        extra[kw.arg] = kw.value
                if "control" not in extra and len(e.args) > 1:
                    extra["control"] = e.args[1]
            if isinstance(x, OpV) and not curried:
                self.consume(x, run)
                w = x.em.wires if x.em is not None else None
                return self.emit_value(_wrap(kind, x.key), e, run, wires=w, fuzzy=fuzzy, extra=extra)
            if isinstance(x, SymV) and x.param and not x.free and not curried:
                return self.emit_value(_wrap(kind, "$"), e, run, fuzzy=fuzzy, extra=extra)
            if isinstance(x, SymV) and not x.free and not curried and x.text.rsplit(".", 1)[-1] not in SUSPICIOUS_METHODS:
                return self.emit_value(_wrap(kind, "$"), e, run, fuzzy=fuzzy, extra=extra)  # base.base, hyperparameters["base"]
            if x is None:
                run.unres(f"{nm}() without operand") if run.mode == "body" else None
                return UnkV(nm)
            return CurryV(nm, x, fuzzy=fuzzy, extra=extra)
        if nm == "prod":
            if args and all(isinstance(a, (FuncV, LocalFuncV, LambdaV)) for a in args):
                return CurryV("prod", args[0])
            ok = all(self.key_of(a) is not None or isinstance(a, (StarV, TupleV)) for a in args)
            for a in args:
                self.consume(a, run)
            if not ok and run.mode == "body":
                run.unres("prod() of values that are not operators")
            return self.emit_value("Prod", e, run)
        if nm in ("s_prod", "exp", "evolve"):
            for a in args:
                self.consume(a, run)
            return self.emit_value({"s_prod": "SProd", "exp": "Exp", "evolve": "Evolution"}[nm], e, run)
        if nm == "change_op_basis":
            ops = [arg(0, "compute_op"), arg(1, "target_op"), arg(2, "uncompute_op")]
            ks = []
            for o in ops:
                if o is None or (isinstance(o, ConstV) and o.value is None):
                    ks.append(None)
                    continue
                self.consume(o, run)
                ks.append(self.key_of(o))
            if ks[0] is None or ks[1] is None:
                return self.emit_value("ChangeOpBasis", e, run, fuzzy=True)
            return self.emit_value(self.cob_key(*ks), e, run)
        if nm == "apply":
            x = arg(0, "op")
            k = self.key_of(x)
            if k is None:
                if run.mode == "body":
                    run.unres(f"apply() of a value that is not understood: {norm(e)[:50]}")
                return UnkV("apply")
            w = x.em.wires if isinstance(x, OpV) and x.em is not None else None
            if isinstance(x, OpV) and x.em is not None and not x.em.consumed and run.mode == "body":
                return x  # apply() of an operator that is already queued re-queues the same object
            return self.emit_value(k, e, run, wires=w)
        if nm == "bind_new_parameters":
            k = self.key_of(arg(0, "op"))
            if k is None:
                if run.mode == "body":
                    run.unres("bind_new_parameters() of a value that is not understood")
                return UnkV("bind_new_parameters")
            return self.emit_value(k, e, run)
        if nm == "cond":
            return CurryV("cond", None, pred=arg(0, "condition"), true=arg(1, "true_fn"), false=arg(2, "false_fn"), elifs=arg(3, "elifs"))
        if nm == "allocate":
            return self.do_allocate(f, args, kwargs, e, fr, run, managed=False)
        if nm in ("measure", "pauli_measure"):
            word = arg(0, "pauli_word") if nm == "pauli_measure" else None
            wnode = None
            if isinstance(e, ast.Call):
                wi = 1 if nm == "pauli_measure" else 0
                wnode = next((kw.value for kw in e.keywords if kw.arg == "wires"), e.args[wi] if len(e.args) > wi else None)
            if nm == "pauli_measure":
                key = "PauliMeasure" + (f"[{word.value}]" if isinstance(word, ConstV) and isinstance(word.value, str) else "")
            else:
                key = "MidMeasure"
            ov = self.emit_value(key, e, run, wires=wnode)
            tok = f"m{len(run.measures)}"
            run.measures[tok] = MeasureDef(var="", node=e, kind=nm, word=word.value if isinstance(word, ConstV) else None, wires=wnode,
                                           func=run.callstack[-1][1] if run.callstack else "", module=run.callstack[-1][0] if run.callstack else "")  # fmt: skip
            mv = MeasV({tok})
            mv.op = ov
            return mv
        if nm in ("for_loop", "while_loop"):
            return CurryV(nm, None, args=args, kwargs=kwargs)
        if nm == "resource_rep":
            k = self.rep_key(arg(0, "op_type"), {k: v for k, v in kwargs.items() if k != "op_type"} if starkw is None else (
                kwargs if kwargs else starkw))
            return OpV(k) if k else UnkV("resource_rep")
        if nm == "adjoint_resource_rep":
            k = self.rep_key(arg(0, "base_class"), arg(1, "base_params"))
            return OpV(_wrap("Adjoint", k)) if k else UnkV(nm)
        if nm == "controlled_resource_rep":
            k = self.rep_key(arg(0, "base_class"), arg(1, "base_params"))
            return OpV(_wrap("C", k)) if k else UnkV(nm)
        if nm == "pow_resource_rep":
            k = self.rep_key(arg(0, "base_class"), arg(1, "base_params"))
            return OpV(_wrap("Pow", k)) if k else UnkV(nm)
        if nm == "change_op_basis_resource_rep":
            ks = [self.key_of(a) if a is not None and not (isinstance(a, ConstV) and a.value is None) else None
                  for a in (arg(0, "compute_op"), arg(1, "target_op"), arg(2, "uncompute_op"))]
            return OpV(self.cob_key(*ks))
        if nm in ("abstractify", "_adjoint_abstract", "_ctrl_abstract", "_pow_abstract"):
            x = arg(0, "op")
            k = self.key_of(x)
            if k is None:
                return x if nm == "abstractify" and x is not None else UnkV(nm)
            kind = {"_adjoint_abstract": "Adjoint", "_ctrl_abstract": "C", "_pow_abstract": "Pow"}.get(nm)
            return OpV(_wrap(kind, k) if kind else k)
        if nm in ("register_resources", "add_decomps"):
            return UnkV(nm)
        # ---- a helper of the repository
        if f.name in IDENTITY_FUNCS and f.module.name.startswith(("pennylane.math", "pennylane.numpy")) and args and isinstance(
            args[0], (SymV, TupleV, NumV, ConstV)
        ):
            return args[0]
        if run.mode == "body":
            if f.cls is None and self.may_emit(f):
                return self.inline(f, args, kwargs, starkw, e, run)
            if f.cls is not None and self.may_emit(f):
                run.unres(f"method {f.qualname}() may construct operators and is not inlined")
                return UnkV(f.qualname)
            return SymV(f"{f.qualname}({','.join(self.vtext(a) for a in args)})")
        # res mode: value helpers of the same package are inlined
        if f.cls is None and f.module.name.split(".")[:2] == fr.module.name.split(".")[:2] and not f.module.name.startswith("pennylane.math"):
            return self.inline(f, args, kwargs, starkw, e, run)
        return SymV(f"{f.qualname}({','.join(self.vtext(a) for a in args)})")

    def bind_params(self, a: ast.arguments, args, kwargs, starkw, frame, run, default_frame=None):
        names = [x.arg for x in a.posonlyargs + a.args]
        defaults = dict(zip(names[len(names) - len(a.defaults):], a.defaults))
        for x, d in zip(a.kwonlyargs, a.kw_defaults):
            if d is not None:
                defaults[x.arg] = d
        names_all = names + [x.arg for x in a.kwonlyargs]
        bound = {}
        i = 0
        star_seen = False
        for v in args:
            if isinstance(v, StarV):
                star_seen = True
                break
            if i < len(names):
                bound[names[i]] = v
                i += 1
        rest = dict(kwargs)
        for n in names_all:
            if n in rest:
                bound[n] = rest.pop(n)
        for n in names_all:
            if n in bound:
                continue
            if n in defaults and not star_seen and starkw is None:
                bound[n] = self.ev(defaults[n], default_frame or frame, run)
            else:
                bound[n] = SymV(n, param=True)
        for n, v in bound.items():
            frame.bind(n, v)
        if a.vararg:
            frame.bind(a.vararg.arg, SymV("*" + a.vararg.arg, param=False))
        if a.kwarg:
            frame.bind(a.kwarg.arg, MapV(rest) if rest and starkw is None else SymV("**" + a.kwarg.arg))

    def inline(self, f, args, kwargs, starkw, e, run):
        if run.depth >= MAX_INLINE or any(c[2] is f for c in run.callstack):
            if run.mode == "body":
                run.unres(f"helper {f.qualname}() not inlined (depth / recursion)")
            return UnkV("inline bound")
        parent = self.factory_frame(f.parent) if f.parent is not None else None
        sub = Frame(f.module, parent, f.qualname)
        self.bind_params(f.node.args, args, kwargs, starkw, sub, run, default_frame=Frame(f.module))
        run.depth += 1
        run.callstack.append((f.module.relpath, f.qualname, f))
        try:
            self.exec_block(f.node.body, sub, run)
            return ConstV(None)
        except _Return as r:
            return r.value if r.value is not None else ConstV(None)
        finally:
            run.depth -= 1
            run.callstack.pop()

    def factory_frame(self, f):
        """frame for the enclosing function of a nested rule / helper: everything is a free symbol,
        nested defs are callable"""
        if f is None:
            return None
        fr = Frame(f.module, self.factory_frame(f.parent), f.qualname, lazy=set())
        a = f.node.args
        for x in a.posonlyargs + a.args + a.kwonlyargs + ([a.vararg] if a.vararg else []) + ([a.kwarg] if a.kwarg else []):
            fr.lazy.add(x.arg)
        for n in walk_shallow(f.node):
            if isinstance(n, (ast.Assign, ast.AnnAssign, ast.AugAssign)):
                for t in (n.targets if isinstance(n, ast.Assign) else [n.target]):
                    for nn in ast.walk(t):
                        if isinstance(nn, ast.Name):
                            fr.lazy.add(nn.id)
        for st in f.node.body:
            if isinstance(st, ast.FunctionDef):
                fr.vars[st.name] = self.make_local(st, fr, None)
        return fr

    def make_local(self, node, fr, run):
        loop, odd = None, None
        for d in node.decorator_list:
            dv = None
            if isinstance(d, ast.Call):
                r = self.ix.resolve_expr(fr.module, d.func) if fr.lookup((dotted_parts(d.func) or [""])[0]) is None else None
                if isinstance(r, Module):
                    r = r.functions.get(r.name.split(".")[-1])
                nm = self.by_func.get(id(r)) if isinstance(r, FuncInfo) else None
                if nm == "for_loop":
                    loop = ("for", d)
                    continue
                if nm == "while_loop":
                    loop = ("while", d)
                    continue
            odd = norm(d)[:50]
        return LocalFuncV(node, fr, loop, odd)

    def call_local(self, lf, args, kwargs, e, run):
        if lf.odd:
            if run.mode == "body":
                run.unres(f"nested function {lf.node.name} has decorator {lf.odd}")
            return UnkV("decorated local")
        if any(c[2] is lf.node for c in run.callstack) or run.depth >= MAX_INLINE + 4:
            if run.mode == "body":
                run.unres(f"recursive nested function {lf.node.name}")
            return UnkV("recursion")
        sub = Frame(lf.frame.module, lf.frame, lf.frame.qual)
        a = lf.node.args
        run.callstack.append((lf.frame.module.relpath, lf.frame.qual or lf.node.name, lf.node))
        run.depth += 1
        pushed = False
        try:
            if lf.loop is not None:
                trip, tok = MANY, f"{(a.args[0].arg if a.args else 'i')}@L{len(run.loopvars)}_{lf.node.lineno}"
                if lf.loop[0] == "for":
                    d = lf.loop[1]
                    vals = [self.ev(x, lf.frame, run) for x in d.args]
                    kw = {k.arg: self.ev(k.value, lf.frame, run) for k in d.keywords if k.arg}
                    start, stop, step = (vals + [None] * 3)[:3]
                    start, stop, step = kw.get("start", start), kw.get("stop", stop), kw.get("step", step)
                    if stop is None:
                        start, stop = ConstV(0), start
                    ps, pe = self.to_num(start), self.to_num(stop)
                    st = self.to_num(step).as_int() if step is not None and self.to_num(step) is not None else (1 if step is None else None)
                    if ps is not None and pe is not None and st in (1, -1):
                        trip = (pe - ps) if st == 1 else (ps - pe)
                        if trip.as_int() is not None and trip.as_int() < 0:
                            trip = ZERO
                run.mult.append(trip)
                run.loopvars.append(tok)
                pushed = True
                bind_args = [SymV(tok)] + list(args)
            else:
                bind_args = list(args)
            self.bind_params(a, bind_args, kwargs, None, sub, run, default_frame=lf.frame)
            try:
                self.exec_block(lf.node.body, sub, run)
                return ConstV(None)
            except _Return as r:
                return r.value if r.value is not None else ConstV(None)
        finally:
            run.depth -= 1
            run.callstack.pop()
            if pushed:
                run.mult.pop()
                run.loopvars.pop()

    def capture_call(self, target, args, kwargs, starkw, e, fr, run):
        """run a callable and return (value, emissions produced by it)"""
        n0 = len(run.emissions)
        v = self.call(target, args, kwargs, starkw, e, fr, run)
        return v, [em for em in run.emissions[n0:] if not em.consumed]

    def call_curry(self, cv, args, kwargs, starkw, e, fr, run):
        k = cv.kind
        if k in ("adjoint", "ctrl", "pow"):
            kind = {"adjoint": "Adjoint", "ctrl": "C", "pow": "Pow"}[k]
            t = cv.target
            fuzzy = cv.extra.get("fuzzy", False)
            extra = cv.extra.get("extra", {})
            if isinstance(t, ClsV) and self.is_operator(t.cls):
                key = self.class_key(t.cls, args, kwargs)
                for a in list(args) + list(kwargs.values()):
                    self.consume(a, run)
                return self.emit_value(_wrap(kind, key), e, run, wires=self.wires_arg(t.cls, e), fuzzy=fuzzy, extra=extra)
            if isinstance(t, SymV) and t.param and not t.free:
                return self.emit_value(_wrap(kind, "$"), e, run, fuzzy=fuzzy, extra=extra)
            if isinstance(t, (FuncV, LocalFuncV, LambdaV, CurryV)):
                if run.mode != "body":
                    return OpV(_wrap(kind, "$"))
                v, ems = self.capture_call(t, args, kwargs, starkw, e, fr, run)
                for em in ems:
                    em.key = _wrap(kind, em.key)
                    em.fuzzy = True
                    em.extra_wires = {**em.extra_wires, **extra}
                return OpV("?transformed", parts=ems)
            if run.mode == "body":
                run.unres(f"{k}() of a callable that cannot be resolved: {norm(e)[:50]}")
            return UnkV(k)
        if k == "prod":
            if run.mode != "body":
                return OpV("Prod")
            v, ems = self.capture_call(cv.target, args, kwargs, starkw, e, fr, run)
            for em in ems:
                em.consumed = True
            return self.emit_value("Prod", e, run, fuzzy=True)
        if k == "type":
            return self.emit_value(self.key_of(cv.target), e, run)
        if k == "partial":
            a2 = list(cv.extra.get("args", [])) + list(args)
            kw2 = {**cv.extra.get("kwargs", {}), **kwargs}
            return self.call(cv.target, a2, kw2, starkw, e, fr, run)
        if k == "cond":
            return self.run_cond(cv, args, kwargs, starkw, e, fr, run)
        if run.mode == "body":
            run.unres(f"call of {k} object")
        return UnkV(k)

    def run_cond(self, cv, args, kwargs, starkw, e, fr, run):
        x = cv.extra
        chain = [(x["pred"], x["true"])]
        el = x.get("elifs")
        if isinstance(el, TupleV):
            items = el.items
            if items and not isinstance(items[0], TupleV):
                items = [el]
            for it in items:
                if isinstance(it, TupleV) and len(it.items) == 2:
                    chain.append((it.items[0], it.items[1]))
                else:
                    run.unres("cond(elifs=...) shape not understood")
        elif el is not None and not (isinstance(el, ConstV) and not el.value):
            run.unres("cond(elifs=...) not a literal tuple")
        false = x.get("false")
        if isinstance(false, ConstV) and false.value is None:
            false = None

        def fire(target):
            if target is None or (isinstance(target, ConstV) and target.value is None):
                return ConstV(None)
            return self.call(target, args, kwargs, starkw, e, fr, run)

        for i, (pred, target) in enumerate(chain):
            if isinstance(pred, MeasV):
                # measurement-conditioned operation: declared as its target (repository convention)
                n0 = len(run.emissions)
                v = fire(target)
                for em in run.emissions[n0:]:
                    em.cond = "mcm:" + ",".join(sorted(pred.names))
                for t in pred.names:
                    if t in run.measures:
                        run.measures[t].uses.append(("cond-pred", e))
                if false is not None or len(chain) > 1:
                    run.opt.append("mcm-else")
                    try:
                        for _, t2 in chain[i + 1:]:
                            fire(t2)
                        fire(false)
                    finally:
                        run.opt.pop()
                return v
            d = self.branch(pred, run, allow_fork=self.is_structural(pred)) if pred is not None else None
            if d is True:
                return fire(target)
            if d is False:
                continue
            # data dependent / loop variant: every remaining arm may or may not run
            run.opt.append(self.vtext(pred) if pred is not None else "?")
            try:
                for _, t2 in chain[i:]:
                    fire(t2)
                fire(false)
            finally:
                run.opt.pop()
            return SymV("cond(...)")
        return fire(false)

    def do_allocate(self, f, args, kwargs, e, fr, run, managed):
        a = f.node.args
        sub = Frame(f.module)
        self.bind_params(a, args, kwargs, None, sub, run, default_frame=Frame(f.module))
        names = [x.arg for x in a.posonlyargs + a.args + a.kwonlyargs]
        n = self.to_count(sub.vars.get(names[0])) if names else MANY
        st = sub.vars.get("state")
        rs = sub.vars.get("restored")
        state = st.value if isinstance(st, ConstV) and isinstance(st.value, str) else None
        restored = rs.value if isinstance(rs, ConstV) and isinstance(rs.value, bool) else None
        site = AllocSite(node=e, num=n, state=state, restored=restored, depth=len(run.open_allocs) + 1, managed=managed,
                         func=run.callstack[-1][1] if run.callstack else "", module=run.callstack[-1][0] if run.callstack else "")  # fmt: skip
        run.allocs.append(site)
        return AllocV(site)

    # -- statements -----------------------------------------------------------------------------
    def exec_block(self, stmts, fr, run):
        for st in stmts:
            self.exec_stmt(st, fr, run)

    def assign(self, target, v, fr, run, node=None):
        if isinstance(target, ast.Name):
            if isinstance(v, MeasV) and len(v.names) == 1:
                t = next(iter(v.names))
                if t in run.measures and not run.measures[t].var:
                    run.measures[t].var = target.id
            fr.bind(target.id, v)
        elif isinstance(target, (ast.Tuple, ast.List)):
            items = None
            if isinstance(v, TupleV) and not any(isinstance(x, StarV) for x in v.items):
                items = v.items
            elif isinstance(v, ConstV) and isinstance(v.value, (tuple, list, str)):
                items = [ConstV(x) for x in v.value]
            has_star = any(isinstance(t, ast.Starred) for t in target.elts)
            if items is not None and not has_star and len(items) == len(target.elts):
                for t, x in zip(target.elts, items):
                    self.assign(t, x, fr, run)
            else:
                base = self.vtext(v)
                for i, t in enumerate(target.elts):
                    if isinstance(t, ast.Starred):
                        self.assign(t.value, SymV(f"{base}[{i}:]", free=getattr(v, "free", False)), fr, run)
                    else:
                        x = v if isinstance(v, (MeasV, UnkV)) else SymV(f"{base}[{i}]", free=getattr(v, "free", False))
                        self.assign(t, x, fr, run)
        elif isinstance(target, ast.Subscript):
            base = self.ev(target.value, fr, run)
            if isinstance(base, DictV):
                kv = self.ev(target.slice, fr, run)
                k = self.key_of(kv)
                if k is None:
                    base.opaque = True
                    base.why = f"key {norm(target.slice)[:50]} not understood"
                elif run.mult or run.opt:
                    base.set(k, MANY, node)
                else:
                    base.set(k, self.to_count(v), node)
            elif isinstance(base, MapV):
                kv = self.ev(target.slice, fr, run)
                if isinstance(kv, ConstV) and isinstance(kv.value, str):
                    base.items[kv.value] = v
        # attribute targets: no effect on the analysis

    def exec_stmt(self, st, fr, run):
        if isinstance(st, ast.Expr):
            if isinstance(st.value, ast.Constant):
                return
            self.ev(st.value, fr, run)
        elif isinstance(st, ast.Assign):
            v = self.ev(st.value, fr, run)
            for t in st.targets:
                self.assign(t, v, fr, run, st.value)
        elif isinstance(st, ast.AnnAssign):
            if st.value is not None:
                self.assign(st.target, self.ev(st.value, fr, run), fr, run, st.value)
        elif isinstance(st, ast.AugAssign):
            v = self.ev(st.value, fr, run)
            if isinstance(st.target, ast.Subscript):
                base = self.ev(st.target.value, fr, run)
                if isinstance(base, DictV):
                    k = self.key_of(self.ev(st.target.slice, fr, run))
                    if k is None:
                        base.opaque = True
                        base.why = f"key {norm(st.target.slice)[:50]} not understood"
                    elif isinstance(st.op, ast.Add):
                        c = self.to_count(v)
                        if run.opt:
                            c = MANY
                        elif isinstance(c, Poly) and any(lv in a for a in c.atoms() for lv in run.loopvars):
                            c = MANY
                        else:
                            c = c_mul(c, run.count())
                        base.add(k, c, st.value)
                    else:
                        base.set(k, MANY, st.value)
            elif isinstance(st.target, ast.Name):
                cur = fr.lookup(st.target.id)
                fake = ast.BinOp(left=ast.Name(id=st.target.id, ctx=ast.Load()), op=st.op, right=st.value)
                if run.mult or run.opt:
                    fr.bind(st.target.id, SymV(f"{st.target.id}@aug{st.lineno}"))
                elif isinstance(cur, DictV):
                    cur.opaque = True
                    cur.why = "augmented assignment of the whole dict"
                else:
                    ast.copy_location(fake, st)
                    ast.fix_missing_locations(fake)
                    sub = Frame(fr.module, fr)
                    a, b = cur if cur is not None else UnkV(), v
                    pa, pb = self.to_num(a), self.to_num(b)
                    if isinstance(a, TupleV) and isinstance(st.op, ast.Add):
                        fr.bind(st.target.id, TupleV(a.items + [StarV(b)]) if not isinstance(b, TupleV) else TupleV(a.items + b.items))
                    elif pa is not None and pb is not None and isinstance(st.op, (ast.Add, ast.Sub, ast.Mult)) and not isinstance(a, SymV):
                        r = pa + pb if isinstance(st.op, ast.Add) else pa - pb if isinstance(st.op, ast.Sub) else pa * pb
                        fr.bind(st.target.id, NumV(r))
                    else:
                        fr.bind(st.target.id, SymV(f"({self.vtext(a)} {type(st.op).__name__} {self.vtext(b)})"))
        elif isinstance(st, ast.If):
            t = self.ev(st.test, fr, run)
            d = self.branch(t, run)
            if d is True:
                self.exec_block(st.body, fr, run)
            elif d is False:
                self.exec_block(st.orelse, fr, run)
            else:
                run.opt.append(self.vtext(t))
                try:
                    for blk in (st.body, st.orelse):
                        try:
                            self.exec_block(blk, fr, run)
                        except (_Return, _LoopCtl, _Abort):
                            run.unres("return/break under a loop-variant condition")
                finally:
                    run.opt.pop()
        elif isinstance(st, (ast.For, ast.AsyncFor)):
            self.exec_for(st, fr, run)
        elif isinstance(st, ast.While):
            run.mult.append(MANY)
            run.loopvars.append(f"while@L{len(run.loopvars)}_{st.lineno}")
            try:
                self.mark_loop_assigned(st, fr)
                try:
                    self.exec_block(st.body, fr, run)
                except _LoopCtl:
                    pass
            finally:
                run.mult.pop()
                run.loopvars.pop()
        elif isinstance(st, (ast.With, ast.AsyncWith)):
            self.exec_with(st, fr, run)
        elif isinstance(st, ast.Return):
            v = self.ev(st.value, fr, run) if st.value is not None else None
            if isinstance(v, MeasV):
                for t in v.names:
                    if t in run.measures:
                        run.measures[t].uses.append(("return", st))
            raise _Return(v)
        elif isinstance(st, ast.Raise):
            raise _Abort()
        elif isinstance(st, (ast.FunctionDef, ast.AsyncFunctionDef)):
            fr.bind(st.name, self.make_local(st, fr, run))
        elif isinstance(st, ast.ImportFrom):
            base = self.ix._abs_from(fr.module, st)  # noqa: SLF001
            for a in st.names:
                r = self.ix.resolve_dotted(f"{base}.{a.name}")
                v = self.conv(r, a.name)
                fr.bind(a.asname or a.name, v if v is not None else ExtV(f"{base}.{a.name}"))
        elif isinstance(st, ast.Import):
            for a in st.names:
                r = self.ix.resolve_dotted(a.name)
                v = self.conv(r, a.name)
                fr.bind((a.asname or a.name).split(".")[0], v if v is not None and a.asname else ExtV(a.name.split(".")[0]))
        elif isinstance(st, ast.Try):
            self.exec_block(st.body, fr, run)
            self.exec_block(st.orelse, fr, run)
            self.exec_block(st.finalbody, fr, run)
        elif isinstance(st, (ast.Break, ast.Continue)):
            raise _LoopCtl()
        elif isinstance(st, ast.Match):
            if run.mode == "body":
                run.unres("match statement")
        elif isinstance(st, ast.Assert):
            pass
        # pass / global / nonlocal / delete / class: nothing to do

    def mark_loop_assigned(self, st, fr):
        """names re-assigned inside a loop body are not tracked across iterations"""
        for n in walk_shallow(st):
            if isinstance(n, ast.AugAssign) and isinstance(n.target, ast.Name):
                cur = fr.lookup(n.target.id)
                if not isinstance(cur, (DictV, TupleV)):
                    fr.bind(n.target.id, SymV(f"{n.target.id}@loop{st.lineno}"))

    def exec_for(self, st, fr, run):
        it = self.ev(st.iter, fr, run)
        # unroll iteration over the items of a known resource dict
        if isinstance(it, CurryV) and it.kind == "items" and isinstance(it.target, DictV) and not it.target.opaque and len(it.target.items) <= 40:
            for k, c in list(it.target.items.items()):
                self.assign(st.target, TupleV([OpV(k), self.from_count(c)]), fr, run)
                try:
                    self.exec_block(st.body, fr, run)
                except _LoopCtl:
                    pass
            return
        if isinstance(it, TupleV) and not any(isinstance(x, StarV) for x in it.items) and len(it.items) <= 16 and not run.mult:
            for x in it.items:
                self.assign(st.target, x, fr, run)
                try:
                    self.exec_block(st.body, fr, run)
                except _LoopCtl:
                    pass
            self.exec_block(st.orelse, fr, run)
            return
        trip = None
        elem = None
        if isinstance(it, CurryV) and it.kind == "enumerate":
            trip = self.iter_len(it.target)
        elif isinstance(it, CurryV) and it.kind == "zip":
            ls = [self.iter_len(x) for x in it.extra["items"]]
            known = [l for l in ls if l is not None]
            strict = it.extra.get("strict")
            if known and (len({str(l) for l in known}) == 1 or (isinstance(strict, ConstV) and strict.value is True)):
                trip = known[0]
        else:
            trip = self.iter_len(it)
        if trip is None:
            trip = MANY
        tok = f"{norm(st.target)[:12]}@L{len(run.loopvars)}_{st.lineno}"
        run.mult.append(trip)
        run.loopvars.append(tok)
        try:
            self.mark_loop_assigned(st, fr)
            if isinstance(st.target, ast.Name):
                free = getattr(it, "free", False)
                fr.bind(st.target.id, SymV(tok, free=False) if not isinstance(it, MeasV) else it)
            else:
                self.assign(st.target, SymV(tok), fr, run)
            try:
                self.exec_block(st.body, fr, run)
            except _LoopCtl:
                run.unres("break/continue in a loop")
        finally:
            run.mult.pop()
            run.loopvars.pop()
        self.exec_block(st.orelse, fr, run)

    def exec_with(self, st, fr, run):
        opened = 0
        for item in st.items:
            ce = item.context_expr
            v = None
            if isinstance(ce, ast.Call):
                fv = self.ev(ce.func, fr, run) if not isinstance(ce.func, ast.Call) else None
                if isinstance(fv, FuncV) and self.by_func.get(id(fv.func)) == "allocate":
                    args, kwargs, _ = self.ev_args(ce, fr, run)
                    v = self.do_allocate(fv.func, args, kwargs, ce, fr, run, managed=True)
                    site = v.site
                    run.open_allocs.append(site)
                    opened += 1
                    kind = site.kind or "?"
                    tot = ZERO
                    for s in run.open_allocs:
                        if (s.kind or "?") == kind:
                            tot = c_add(tot, s.num)
                    prev = run.alloc_peak.get(kind)
                    if prev is None:
                        run.alloc_peak[kind] = tot
                    elif isinstance(prev, Poly) and isinstance(tot, Poly) and prev.as_int() is not None and tot.as_int() is not None:
                        run.alloc_peak[kind] = Poly.const(max(prev.as_int(), tot.as_int()))
                    elif str(prev) != str(tot):
                        run.alloc_peak[kind] = MANY
            if v is None:
                v = self.ev(ce, fr, run)
                if run.mode == "body" and not isinstance(v, AllocV):
                    run.unres(f"context manager {norm(ce)[:50]}")
            if item.optional_vars is not None:
                if isinstance(v, AllocV):
                    v.site.target = norm(item.optional_vars)
                    self.assign(item.optional_vars, SymV(f"alloc{len(run.allocs)}", length=v.site.num if isinstance(v.site.num, Poly) else None), fr, run)
                else:
                    self.assign(item.optional_vars, SymV(norm(item.optional_vars)), fr, run)
        try:
            self.exec_block(st.body, fr, run)
        finally:
            for _ in range(opened):
                run.open_allocs.pop()

    # -- path exploration ------------------------------------------------------------------------
    def explore(self, mode, runner):
        """runner(run) executes one path; returns (paths, overflow)"""
        work = [[]]
        out = []
        overflow = False
        n = 0
        while work:
            script = work.pop()
            n += 1
            if n > 4 * MAX_PATHS or len(out) > MAX_PATHS:
                overflow = True
                break
            run = Run(mode, script)
            try:
                ret = runner(run)
            except _NeedDecision:
                work.append(script + [False])
                work.append(script + [True])
                continue
            except _Abort:
                continue
            except _LoopCtl:
                ret = None
            out.append(Path(conds=dict(run.decided), emissions=[e for e in run.emissions if not e.consumed], unresolved=list(run.unresolved),
                            allocs=list(run.allocs), alloc_peak=dict(run.alloc_peak), ret=ret))  # fmt: skip
            out[-1].measures = run.measures
        return out, overflow

    @staticmethod
    def payload(p):
        if p.declared is not None or p.emissions == [] and p.ret is not None and isinstance(p.ret, DictV):
            d = p.declared if p.declared is not None else p.ret
            return ("D", tuple(sorted((k, str(c)) for k, c in d.items.items())), d.opaque)
        return ("E", tuple(sorted((k, str(lo), str(hi)) for k, (lo, hi) in p.multiset().items())), tuple(p.unresolved),
                tuple(sorted((str(k), str(v)) for k, v in p.alloc_peak.items())))

    def simplify(self, paths):
        """merge paths that differ in one condition only and carry the same payload"""
        changed = True
        while changed and len(paths) > 1:
            changed = False
            for i in range(len(paths)):
                for j in range(i + 1, len(paths)):
                    a, b = paths[i], paths[j]
                    if set(a.conds) != set(b.conds):
                        continue
                    diff = [k for k in a.conds if a.conds[k] != b.conds[k]]
                    if len(diff) == 1 and self.payload(a) == self.payload(b):
                        a.conds = {k: v for k, v in a.conds.items() if k != diff[0]}
                        del paths[j]
                        changed = True
                        break
                if changed:
                    break
        return paths

    # -- rules ------------------------------------------------------------------------------------
    def find_decorator(self, f: FuncInfo):
        rr = self.anchor["register_resources"]
        for d in f.node.decorator_list:
            if isinstance(d, ast.Call) and isinstance(d.func, (ast.Name, ast.Attribute)):
                r = self.ix.resolve_expr(f.module, d.func)
                if r is rr:
                    return d
        return None

    def rules(self):
        if self._rules is not None:
            return self._rules
        out = []
        for f in self.ix.functions:
            d = self.find_decorator(f)
            if d is not None:
                ri = self.scan_rule(f, d)
                out.append(ri)
                self._by_func[id(f)] = ri
        self._rules = out
        return out

    def rule_frame(self, f):
        parent = self.factory_frame(f.parent) if f.parent is not None else None
        return Frame(f.module, parent, f.qualname)

    def scan_rule(self, f: FuncInfo, d: ast.Call):
        fr0 = self.rule_frame(f)
        res_arg = d.args[0] if d.args else next((kw.value for kw in d.keywords if kw.arg == "ops"), None)
        kw = {k.arg: k.value for k in d.keywords if k.arg}
        exact, exact_node = True, kw.get("exact")
        if exact_node is not None:
            exact = exact_node.value if isinstance(exact_node, ast.Constant) and isinstance(exact_node.value, bool) else None
        ri = RuleInfo(func=f, module=f.module, name=f.name, deco=d, resource_arg=res_arg, resource_func=None, resource_bound={},
                      exact=exact, exact_node=exact_node, work_wires=kw.get("work_wires"), factory=f.parent)  # fmt: skip

        # ---- body
        def run_body(run):
            fr = Frame(f.module, fr0.parent, f.qualname)
            a = f.node.args
            for x in a.posonlyargs + a.args + a.kwonlyargs:
                fr.bind(x.arg, SymV(x.arg, param=True))
            if a.vararg:
                fr.bind(a.vararg.arg, SymV("*" + a.vararg.arg))
            if a.kwarg:
                fr.bind(a.kwarg.arg, SymV("**" + a.kwarg.arg))
            run.callstack.append((f.module.relpath, f.qualname, f))
            try:
                self.exec_block(f.node.body, fr, run)
            except _Return as r:
                return r.value
            return None

        paths, overflow = self.explore("body", run_body)
        paths = self.simplify(paths)
        ri.paths = paths
        if overflow:
            ri.unresolved.append("path bound exceeded")
        for p in paths:
            for u in p.unresolved:
                if u not in ri.unresolved:
                    ri.unresolved.append(u)
        seen = set()
        for p in paths:
            for e in p.emissions:
                if id(e.node) not in seen or True:
                    k = (id(e.node), e.key)
                    if k not in seen:
                        seen.add(k)
                        ri.emissions.append(e)
            for s in p.allocs:
                if not any(s.node is t.node for t in ri.allocs):
                    ri.allocs.append(s)
            for tok, m in getattr(p, "measures", {}).items():
                prev = next((x for x in ri.measures if x.node is m.node), None)
                if prev is None:
                    ri.measures.append(m)
                else:
                    prev.uses.extend(u for u in m.uses if not any(u[1] is w[1] for w in prev.uses))
        ri.resolved = not ri.unresolved and bool(paths)
        self.measure_uses(ri)

        # ---- declared
        self.scan_declared(ri, fr0)
        return ri

    def measure_uses(self, ri):
        """flow-insensitive def/use of measurement variables inside the functions where they are bound"""
        for m in ri.measures:
            if not m.var:
                continue
            fn = None
            for g in self.ix.functions:
                if g.module.relpath == m.module and g.qualname == m.func:
                    fn = g
                    break
            if fn is None:
                continue
            parents = {}
            for p in ast.walk(fn.node):
                for c in ast.iter_child_nodes(p):
                    parents[c] = p
            m.uses = []  # the syntactic scan below covers what the executor recorded for a named outcome
            for n in ast.walk(fn.node):
                if isinstance(n, ast.Name) and n.id == m.var and isinstance(n.ctx, ast.Load):
                    role, cur = "other", n
                    while cur in parents:
                        par = parents[cur]
                        if isinstance(par, ast.Call) and par.args and cur is par.args[0] and isinstance(par.func, (ast.Name, ast.Attribute)):
                            r = self.ix.resolve_expr(fn.module, par.func)
                            if r is self.anchor.get("cond"):
                                role = "cond-pred"
                                break
                        if isinstance(par, ast.Return):
                            role = "return"
                            break
                        if isinstance(par, ast.stmt):
                            break
                        cur = par
                    if not any(u[1] is n for u in m.uses):
                        m.uses.append((role, n))

    def scan_declared(self, ri, fr0):
        f = ri.func
        arg = ri.resource_arg
        if arg is None:
            ri.declared_why.append("no resource argument")
            return
        probe = Run("res", [])
        target = None
        try:
            target = self.ev(arg, fr0, probe) if not isinstance(arg, ast.Dict) else None
        except (_NeedDecision, _Abort, _Return, _LoopCtl):
            target = None
        bound_args, bound_kw = [], {}
        t = target
        if isinstance(t, CurryV) and t.kind == "partial":
            bound_args, bound_kw = list(t.extra.get("args", [])), dict(t.extra.get("kwargs", {}))
            t = t.target
        if isinstance(arg, ast.Dict):
            ri.resource_func = arg
        elif isinstance(t, FuncV):
            ri.resource_func = t.func
        elif isinstance(t, LocalFuncV):
            ri.resource_func = next((g for g in self.ix.functions if g.node is t.node), t.node)
        elif isinstance(t, LambdaV):
            ri.resource_func = t.node
        elif isinstance(t, (DictV, MapV)):
            ri.resource_func = arg
        else:
            ri.declared_why.append(f"resource argument {norm(arg)[:50]} does not resolve to a function / dict")
            return
        ri.resource_bound = bound_kw

        def run_res(run):
            if isinstance(arg, ast.Dict) or isinstance(t, (DictV, MapV)):
                return self.ev(arg, Frame(f.module, fr0.parent, f.qualname), run)
            if isinstance(t, FuncV):
                g = t.func
                parent = self.factory_frame(g.parent) if g.parent is not None else None
                sub = Frame(g.module, parent, g.qualname)
                node_args, body = g.node.args, g.node.body
                run.callstack.append((g.module.relpath, g.qualname, g))
            elif isinstance(t, LocalFuncV):
                sub = Frame(t.frame.module, t.frame, t.frame.qual)
                node_args, body = t.node.args, t.node.body
                run.callstack.append((t.frame.module.relpath, t.node.name, t.node))
            else:
                sub = Frame(t.frame.module, t.frame, t.frame.qual)
                node_args, body = t.node.args, None
                run.callstack.append((t.frame.module.relpath, "<lambda>", t.node))
            # parameters not bound by partial stay symbolic
            names = [x.arg for x in node_args.posonlyargs + node_args.args + node_args.kwonlyargs]
            pos = dict(zip(names, bound_args))
            for n in names:
                v = bound_kw.get(n, pos.get(n))
                sub.bind(n, v if v is not None else SymV(n, param=True))
            if node_args.vararg:
                sub.bind(node_args.vararg.arg, SymV("*" + node_args.vararg.arg))
            if node_args.kwarg:
                sub.bind(node_args.kwarg.arg, SymV("**" + node_args.kwarg.arg))
            if body is None:
                return self.ev(t.node.body, sub, run)
            try:
                self.exec_block(body, sub, run)
            except _Return as r:
                return r.value
            return None

        paths, overflow = self.explore("res", run_res)
        ok = bool(paths) and not overflow
        for p in paths:
            v = p.ret
            if isinstance(v, MapV) and not v.items:
                v = DictV()
            if isinstance(v, DictV):
                p.declared = v
                if p.unresolved:
                    v.opaque = True
                    v.why = v.why or p.unresolved[0]
                if v.opaque:
                    ok = False
                    ri.declared_why.append(v.why or "resource dict partly opaque")
                if any(c is MANY for c in v.items.values()):
                    pass
            else:
                ok = False
                p.declared = None
                ri.declared_why.append(f"resource function returns {self.vtext(v) if v is not None else 'None'}"[:80])
        if overflow:
            ri.declared_why.append("path bound exceeded in the resource function")
        paths = self.simplify(paths)
        ri.declared_paths = paths
        ri.declared = [dict(p.declared.items) if p.declared is not None else None for p in paths]
        ri.declared_resolved = ok

    # -- registrations ------------------------------------------------------------------------------
    def rule_ref(self, module, node, depth=0):
        ref = RuleRef(node=node, text=norm(node)[:80])
        if depth > 6:
            return ref
        if isinstance(node, (ast.Name, ast.Attribute)):
            r = self.ix.resolve_expr(module, node)
            if isinstance(r, FuncInfo):
                self.rules()
                ref.rule = self._by_func.get(id(r))
                return ref
            if isinstance(r, tuple) and r[0] == "value":
                inner = self.rule_ref(r[1], r[2], depth + 1)
                inner.text = ref.text
                inner.node = node
                return inner
            return ref
        if isinstance(node, ast.Call) and isinstance(node.func, (ast.Name, ast.Attribute)):
            r = self.ix.resolve_expr(module, node.func)
            if isinstance(r, FuncInfo):
                ref.factory = r
                ref.factory_args = list(node.args) + [k.value for k in node.keywords]
                for a in node.args:
                    if isinstance(a, (ast.Name, ast.Attribute, ast.Call)):
                        sub = self.rule_ref(module, a, depth + 1)
                        if sub.rule is not None or sub.factory is not None:
                            ref.inner.append(sub)
        return ref

    def registrations(self):
        if self._regs is not None:
            return self._regs
        add = self.anchor["add_decomps"]
        out = []
        for m in self.ix.modules.values():
            if "add_decomps" not in m.source:
                continue
            for n in ast.walk(m.tree):
                if not (isinstance(n, ast.Call) and isinstance(n.func, (ast.Name, ast.Attribute)) and n.args):
                    continue
                if self.ix.resolve_expr(m, n.func) is not add:
                    continue
                t = n.args[0]
                reg = Registration(module=m, node=n, target=None, target_text=norm(t), kind=None, base=None)
                if isinstance(t, ast.Constant) and isinstance(t.value, str):
                    reg.target = t.value
                    mm = re.fullmatch(r"(Adjoint|Pow|C|Controlled)\((.+)\)", t.value)
                    name = t.value
                    if mm:
                        reg.kind = "C" if mm.group(1) == "Controlled" else mm.group(1)
                        name = mm.group(2)
                    reg.base = self.class_by_name(name)
                elif isinstance(t, (ast.Name, ast.Attribute)):
                    r = self.ix.resolve_expr(m, t)
                    if isinstance(r, ClassInfo):
                        reg.target = r
                        reg.base = r
                for a in n.args[1:]:
                    if isinstance(a, ast.Starred):
                        reg.rules.append(RuleRef(node=a, text=norm(a)[:80]))
                    else:
                        reg.rules.append(self.rule_ref(m, a))
                out.append(reg)
        self._regs = out
        return out

    def class_by_name(self, name):
        r = self.ix.resolve_dotted(f"pennylane.{name}")
        if isinstance(r, ClassInfo):
            return r
        r = self.ix.resolve_dotted(f"pennylane.ops.{name}")
        if isinstance(r, ClassInfo):
            return r
        cands = [c for c in self.ix.classes_named(name) if self.is_operator(c)]
        return cands[0] if len(cands) == 1 else None


# =============================================================================================
# public API

_SCANNERS = {}


def get_scanner(ix) -> Scanner:
    s = _SCANNERS.get(id(ix))
    if s is None or s.ix is not ix:
        _SCANNERS.clear()
        s = Scanner(ix)
        _SCANNERS[id(ix)] = s
    return s


def scan_rules(ix) -> list[RuleInfo]:
    """one RuleInfo per function decorated ``@register_resources(...)``"""
    return get_scanner(ix).rules()


def registrations(ix) -> list[Registration]:
    """every ``add_decomps(target, rule...)`` call site"""
    return get_scanner(ix).registrations()


def coarse_key(ix, key):
    return get_scanner(ix).coarse(key)
