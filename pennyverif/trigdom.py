"""E4 — abstract interpreter over ``compute_matrix`` bodies in the Fourier-support domain.

Nothing is executed and no array of numbers is built: the interpreter walks the ``ast`` of a
``compute_matrix`` (and of the helpers / other classes' ``compute_matrix`` it calls) and keeps, for
every value, a *symbolic trigonometric polynomial*

    sum_k  coef_k * exp(i * sum_p f_{k,p} * p)          (p: gate parameters, f: exact Fractions)

whose coefficients are exact Gaussian rationals where the source spells them (``1j``, ``0.5``,
``/ 2``) and the opaque marks ``U`` (unknown constant assumed non-zero: ``np.pi``, ``sqrt(2)``)
or ``UZ`` (unknown, may vanish: anything summed with an unknown) otherwise.  ``cos(phi/2)`` is
``1/2 e^{+i phi/2} + 1/2 e^{-i phi/2}``; products are polynomial products, so ``c*c + s*s``
really collapses to ``1`` and ``c**2`` really has the frequencies ``{0, +-1}``.

Elements of the domain (DESIGN.md section 2.1, E4):
  Zero        the empty polynomial (literal 0 / zeros_like): no frequency at all, absorbing for
              products, neutral for sums and unions
  Const       a polynomial with the single key ``()``
  Lin         a*p + b*q + offset (arguments of exp/cos/sin); a Lin that reaches the matrix is Top
  Trig        any other polynomial
  Top         anything not understood (never a guess)
Arrays are either concrete (``Arr``: known shape, one abstract scalar per entry — the literal
nested lists, ``eye(4)``, ``diag([...])`` of the gate files), or a ``Blob`` (unknown shape: the set
of alternatives its entries are drawn from, e.g. ``pauli_eigs(n)`` -> {+1, -1}), which is the
``ConstSet`` of the design generalised to polynomials.  Gate parameters are interpreted as scalars:
a broadcast (batched) parameter only stacks scalar matrices, so leading batch axes are dropped
(``outer(arg, signs)`` is ``arg*signs``; an excess leading ``:`` in a subscript and the leading
einsum letter of a scalar operand are ignored).  All branches of every ``if`` are joined.

A frequency of the final support is *sure* when some entry that certainly occurs carries it with
a coefficient that is known non-zero; the support of a parameter is ``exact`` when every
frequency is sure on every return path.  Only exact supports may be used to refute.

The second, tiny domain (shape in {diagonal, notdiagonal, unknown}) is read off the same values.
"""

from __future__ import annotations

import ast
from dataclasses import dataclass, field
from fractions import Fraction
from math import gcd

from .index import ClassInfo, FuncInfo, Module, dotted_parts

BASE_STOP = (
    "pennylane.core.operator.base.Operator",
    "pennylane.core.operator.base.Operator1",
    "pennylane.core.operator.base.Operation",
    "pennylane.core.operator.operator2.Operator2",
)
OPERATOR_ROOTS = (
    "pennylane.core.operator.base.Operator",
    "pennylane.core.operator.operator2.Operator2",
)


class GiveUp(Exception):
    """Raised inside the algebra when a construct is outside the domain -> Top."""


# =============================================================================================
# exact complex rationals and coefficients


class Cx:
    __slots__ = ("re", "im")

    def __init__(self, re=0, im=0):
        self.re = Fraction(re)
        self.im = Fraction(im)

    def __eq__(self, o):
        return isinstance(o, Cx) and self.re == o.re and self.im == o.im

    def __hash__(self):
        return hash((self.re, self.im))

    def __repr__(self):
        if not self.im:
            return str(self.re)
        if not self.re:
            return f"{self.im}j"
        return f"({self.re}{'+' if self.im > 0 else '-'}{abs(self.im)}j)"

    def __bool__(self):
        return bool(self.re or self.im)

    def __add__(self, o):
        return Cx(self.re + o.re, self.im + o.im)

    def __sub__(self, o):
        return Cx(self.re - o.re, self.im - o.im)

    def __neg__(self):
        return Cx(-self.re, -self.im)

    def __mul__(self, o):
        return Cx(self.re * o.re - self.im * o.im, self.re * o.im + self.im * o.re)

    def conj(self):
        return Cx(self.re, -self.im)

    def inv(self):
        d = self.re * self.re + self.im * self.im
        if not d:
            raise GiveUp("division by zero")
        return Cx(self.re / d, -self.im / d)

    def as_int(self):
        if not self.im and self.re.denominator == 1:
            return int(self.re)
        return None


def _frac(x):
    if isinstance(x, bool):
        return Fraction(int(x))
    if isinstance(x, int):
        return Fraction(x)
    if isinstance(x, float):
        if x != x or x in (float("inf"), float("-inf")):
            return None
        return Fraction(repr(x))  # 0.5 -> 1/2, 0.1 -> 1/10: the spelling, not the binary float
    return None


def cx_of(v):
    """Python literal number -> Cx (None if not representable)."""
    if isinstance(v, complex):
        r, i = _frac(v.real), _frac(v.imag)
        return None if r is None or i is None else Cx(r, i)
    r = _frac(v)
    return None if r is None else Cx(r, 0)


U = "U"  # unknown constant, assumed non-zero
UZ = "UZ"  # unknown constant that may vanish
ONE = Cx(1)


def cmul(a, b):
    if a == UZ or b == UZ:
        return UZ
    if a == U or b == U:
        return U
    return a * b


def cadd(a, b):
    if isinstance(a, Cx) and isinstance(b, Cx):
        return a + b
    return UZ


def cconj(a):
    return a.conj() if isinstance(a, Cx) else a


# =============================================================================================
# trigonometric polynomials and linear forms


def kmul(k1, k2):
    if not k1:
        return k2
    if not k2:
        return k1
    d = dict(k1)
    for p, f in k2:
        d[p] = d.get(p, 0) + f
    return tuple(sorted((p, f) for p, f in d.items() if f))


class Poly:
    """sum coef * exp(i sum f_p p); terms: {key: coef}, key = sorted ((param, Fraction), ...)."""

    __slots__ = ("terms", "_h")
    MAX_TERMS = 600

    def __init__(self, terms=None):
        t = {}
        for k, c in (terms or {}).items():
            if isinstance(c, Cx) and not c:
                continue
            t[k] = c
        if len(t) > self.MAX_TERMS:
            raise GiveUp("polynomial too large")
        self.terms = t
        self._h = None

    @staticmethod
    def const(c):
        return Poly({(): c})

    def __eq__(self, o):
        return isinstance(o, Poly) and self.terms == o.terms

    def __hash__(self):
        if self._h is None:
            self._h = hash(frozenset(self.terms.items()))
        return self._h

    def __repr__(self):
        if not self.terms:
            return "Zero"
        out = []
        for k, c in sorted(self.terms.items(), key=lambda kv: repr(kv[0])):
            e = "".join(f"e^({f}i{p})" for p, f in k)
            out.append(f"{c}{'*' + e if e else ''}")
        return " + ".join(out)

    def is_zero(self):
        return not self.terms

    def is_const(self):
        return all(k == () for k in self.terms)

    def const_coef(self):
        """coefficient of a constant polynomial (Cx(0) for Zero)."""
        return self.terms.get((), Cx(0))

    def known_nonzero(self):
        return any(c != UZ for c in self.terms.values())

    def params(self):
        return {p for k in self.terms for p, _ in k}

    def add(self, o):
        t = dict(self.terms)
        for k, c in o.terms.items():
            t[k] = cadd(t[k], c) if k in t else c
        return Poly(t)

    def mul(self, o):
        if not self.terms or not o.terms:
            return ZERO
        t = {}
        for k1, c1 in self.terms.items():
            for k2, c2 in o.terms.items():
                k = kmul(k1, k2)
                c = cmul(c1, c2)
                t[k] = cadd(t[k], c) if k in t else c
        return Poly(t)

    def scale(self, c):
        if isinstance(c, Cx) and not c:
            return ZERO
        return Poly({k: cmul(v, c) for k, v in self.terms.items()})

    def conj(self):
        return Poly({tuple((p, -f) for p, f in k): cconj(c) for k, c in self.terms.items()})

    def blur(self):
        """same keys, every coefficient unknown-maybe-zero (generic linear combination)."""
        return Poly({k: UZ for k in self.terms})


ZERO = Poly()
P_ONE = Poly.const(ONE)
P_U = Poly.const(U)
P_UZ = Poly.const(UZ)


class Lin:
    """sum a_p * p + offset (a_p: non-zero Cx; offset: Cx or None = unknown)."""

    __slots__ = ("coeffs", "offset", "_h")

    def __init__(self, coeffs, offset):
        self.coeffs = {p: a for p, a in coeffs.items() if a}
        self.offset = offset
        self._h = None

    def __eq__(self, o):
        return isinstance(o, Lin) and self.coeffs == o.coeffs and self.offset == o.offset

    def __hash__(self):
        if self._h is None:
            self._h = hash((frozenset(self.coeffs.items()), self.offset))
        return self._h

    def __repr__(self):
        s = " + ".join(f"{a}*{p}" for p, a in sorted(self.coeffs.items()))
        return f"Lin({s}{'' if self.offset == Cx(0) else ' + ' + str(self.offset if self.offset is not None else '?')})"


def mk_lin(coeffs, offset):
    coeffs = {p: a for p, a in coeffs.items() if a}
    if not coeffs:
        return Poly.const(offset) if offset is not None else P_UZ
    return Lin(coeffs, offset)


def _const_of(x):
    """coefficient if ``x`` is a constant polynomial, else None."""
    if isinstance(x, Poly) and x.is_const():
        return x.const_coef()
    return None


def a_add(x, y):
    if isinstance(x, Poly) and isinstance(y, Poly):
        return x.add(y)
    if isinstance(x, Lin) and isinstance(y, Lin):
        co = dict(x.coeffs)
        for p, a in y.coeffs.items():
            co[p] = co.get(p, Cx(0)) + a
        off = None if x.offset is None or y.offset is None else x.offset + y.offset
        return mk_lin(co, off)
    if isinstance(y, Lin):
        x, y = y, x
    c = _const_of(y)
    if c is None:
        raise GiveUp("sum of a linear form and a trigonometric term")
    off = None if x.offset is None or not isinstance(c, Cx) else x.offset + c
    return mk_lin(x.coeffs, off)


def a_neg(x):
    return a_mul(x, Poly.const(Cx(-1)))


def a_mul(x, y):
    if isinstance(x, Poly) and isinstance(y, Poly):
        return x.mul(y)
    if isinstance(x, Lin) and isinstance(y, Lin):
        raise GiveUp("product of two linear forms")
    if isinstance(y, Lin):
        x, y = y, x
    c = _const_of(y)
    if c is None:
        raise GiveUp("parameter multiplied by a parameter-dependent factor")
    if not isinstance(c, Cx):
        raise GiveUp("parameter scaled by an unknown constant")
    if not c:
        return ZERO
    return mk_lin({p: a * c for p, a in x.coeffs.items()}, None if x.offset is None else x.offset * c)


def a_div(x, y):
    c = _const_of(y)
    if c is None:
        raise GiveUp("division by a parameter-dependent value")
    if c == UZ or (isinstance(c, Cx) and not c):
        raise GiveUp("division by a possibly vanishing constant")
    if c == U:
        if isinstance(x, Lin):
            raise GiveUp("parameter divided by an unknown constant")
        return x.scale(U)
    return a_mul(x, Poly.const(c.inv()))


def a_pow(x, y):
    cy = _const_of(y)
    if cy is None:
        raise GiveUp("parameter-dependent exponent")
    n = cy.as_int() if isinstance(cy, Cx) else None
    cx = _const_of(x)
    if cx is not None:
        if isinstance(cx, Cx) and n is not None and abs(n) <= 64:
            if n >= 0:
                r = ONE
                for _ in range(n):
                    r = r * cx
                return Poly.const(r)
            if cx:
                inv, r = cx.inv(), ONE
                for _ in range(-n):
                    r = r * inv
                return Poly.const(r)
        if isinstance(cy, Cx) and not cy:
            return P_ONE
        return P_U if (cx == U or (isinstance(cx, Cx) and cx)) else P_UZ
    if n is None or n < 0 or n > 12:
        raise GiveUp("non-integer power of a parameter-dependent value")
    if n == 0:
        return P_ONE
    if isinstance(x, Lin):
        if n == 1:
            return x
        raise GiveUp("power of a linear form")
    r = x
    for _ in range(n - 1):
        r = r.mul(x)
    return r


def _lin_key(x, sign, part):
    key = []
    for p, a in sorted(x.coeffs.items()):
        if part == "im":
            if a.re:
                raise GiveUp("exp of a parameter with a real (non-oscillating) coefficient")
            f = a.im
        else:
            if a.im:
                raise GiveUp("cos/sin of a parameter with a complex coefficient")
            f = a.re
        key.append((p, sign * f))
    return tuple(key)


def a_fn(name, x):
    """elementwise function on an atom."""
    if name == "exp":
        if isinstance(x, Lin):
            off0 = x.offset is not None and not x.offset
            return Poly({_lin_key(x, 1, "im"): ONE if off0 else U})
        if x.is_zero():
            return P_ONE
        if x.is_const():
            return P_U
        raise GiveUp("exp of a trigonometric term")
    if name in ("cos", "sin"):
        if isinstance(x, Lin):
            kp, km = _lin_key(x, 1, "re"), _lin_key(x, -1, "re")
            if x.offset is not None and not x.offset:
                if name == "cos":
                    return Poly({kp: Cx(Fraction(1, 2)), km: Cx(Fraction(1, 2))})
                return Poly({kp: Cx(0, Fraction(-1, 2)), km: Cx(0, Fraction(1, 2))})
            return Poly({kp: U, km: U})
        if x.is_zero():
            return P_ONE if name == "cos" else ZERO
        if x.is_const():
            return P_UZ
        raise GiveUp(f"{name} of a trigonometric term")
    if name in ("conj", "conjugate"):
        if isinstance(x, Lin):
            return Lin({p: a.conj() for p, a in x.coeffs.items()}, None if x.offset is None else x.offset.conj())
        return x.conj()
    if name in ("real", "imag"):
        if isinstance(x, Lin):
            if all(not a.im for a in x.coeffs.values()) and x.offset is not None and not x.offset.im:
                return x if name == "real" else ZERO
            raise GiveUp(f"{name} of a complex linear form")
        if name == "real":
            return x.add(x.conj()).scale(Cx(Fraction(1, 2)))
        return x.add(x.conj().scale(Cx(-1))).scale(Cx(0, Fraction(-1, 2)))
    if name == "negative":
        return a_neg(x)
    # any other elementwise function: constants only
    c = _const_of(x)
    if c is None:
        raise GiveUp(f"{name} of a parameter-dependent value")
    if name in ("sqrt", "abs", "absolute"):
        if isinstance(c, Cx) and not c:
            return ZERO
        if name != "sqrt" and isinstance(c, Cx) and not c.im:
            return Poly.const(Cx(abs(c.re)))
        return P_U if c != UZ else P_UZ
    return P_UZ


UNARY_FUNCS = {
    "exp", "cos", "sin", "conj", "conjugate", "real", "imag", "negative", "sqrt", "abs", "absolute",
    "tan", "arctan", "arcsin", "arccos", "sinh", "cosh", "tanh", "log", "sign", "angle", "expm1", "log2",
}  # fmt: skip


# =============================================================================================
# abstract values

MAX_ALTS = 48


class Sc:
    """abstract scalar: one of ``alts`` (atoms).  ``sure``: every alternative really occurs."""

    __slots__ = ("alts", "sure")

    def __init__(self, alts, sure=True):
        self.alts = frozenset(alts)
        self.sure = bool(sure) or len(self.alts) <= 0
        if len(self.alts) > MAX_ALTS:
            raise GiveUp("too many alternatives")

    def __eq__(self, o):
        return isinstance(o, Sc) and self.alts == o.alts and self.sure == o.sure

    def __hash__(self):
        return hash((self.alts, self.sure))

    def __repr__(self):
        return "Sc{" + " | ".join(sorted(map(repr, self.alts))) + ("}" if self.sure else "}?")

    def single(self):
        return next(iter(self.alts)) if len(self.alts) == 1 else None


def K(c):
    return Sc([Poly.const(c)])


SC_ZERO = Sc([ZERO])
SC_ONE = K(ONE)


class Arr:
    """concrete array: ``shape`` and one Sc per entry (row-major)."""

    __slots__ = ("shape", "flat")

    def __init__(self, shape, flat):
        self.shape = tuple(shape)
        self.flat = tuple(flat)
        n = 1
        for s in self.shape:
            n *= s
        assert n == len(self.flat), (shape, len(self.flat))

    def __eq__(self, o):
        return isinstance(o, Arr) and self.shape == o.shape and self.flat == o.flat

    def __hash__(self):
        return hash((self.shape, self.flat))

    def __repr__(self):
        return f"Arr{self.shape}"

    @property
    def rank(self):
        return len(self.shape)

    def sub(self, i):
        """i-th slice along axis 0 (Sc for rank 1)."""
        if self.rank == 1:
            return self.flat[i]
        n = len(self.flat) // self.shape[0]
        return Arr(self.shape[1:], self.flat[i * n : (i + 1) * n])

    def subs(self):
        return [self.sub(i) for i in range(self.shape[0])]


class Blob:
    """array of unknown shape whose entries are drawn from ``alts``.

    ``diag``: known to be a diagonal matrix (or a batch/list of diagonal matrices);
    ``pylist``: it is a Python list of unknown length (``[c] * k``), so ``+`` concatenates."""

    __slots__ = ("alts", "sure", "diag", "pylist", "tag")

    def __init__(self, alts, sure=False, diag=False, pylist=False, tag=None):
        self.tag = tag  # "eye": identity of unknown size; "col": vector[..., newaxis]
        self.alts = frozenset(alts)
        if len(self.alts) > MAX_ALTS:
            lin = [a for a in self.alts if isinstance(a, Lin)]
            if lin:
                raise GiveUp("too many alternatives")
            t = {}
            for a in self.alts:
                for k in a.terms:
                    t[k] = UZ
            self.alts = frozenset([Poly(t), ZERO])
            sure = False
        self.sure = bool(sure)
        self.diag = bool(diag)
        self.pylist = bool(pylist)

    def __eq__(self, o):
        return isinstance(o, Blob) and (self.alts, self.sure, self.diag, self.pylist, self.tag) == (o.alts, o.sure, o.diag, o.pylist, o.tag)

    def __hash__(self):
        return hash((self.alts, self.sure, self.diag, self.pylist, self.tag))

    def __repr__(self):
        return "Blob{" + " | ".join(sorted(map(repr, self.alts))) + "}" + ("" if self.sure else "?") + ("D" if self.diag else "") + ("L" if self.pylist else "")


class PyList:
    """Python list/tuple display (heterogeneous, concrete length)."""

    __slots__ = ("items",)

    def __init__(self, items):
        self.items = tuple(items)

    def __eq__(self, o):
        return isinstance(o, PyList) and self.items == o.items

    def __hash__(self):
        return hash(self.items)

    def __repr__(self):
        return f"PyList{list(self.items)}"


class Opaque:
    """a value that cannot depend on the gate parameters (wires, interface names, hyperparameters,
    module-level objects, results of pure calls on such values)."""

    __slots__ = ("is_int",)

    def __init__(self, is_int=False):
        self.is_int = is_int

    def __eq__(self, o):
        return isinstance(o, Opaque) and self.is_int == o.is_int

    def __hash__(self):
        return hash(("Opaque", self.is_int))

    def __repr__(self):
        return "Opaque" + ("(int)" if self.is_int else "")


class PyStr:
    __slots__ = ("s",)

    def __init__(self, s):
        self.s = s

    def __eq__(self, o):
        return isinstance(o, PyStr) and self.s == o.s

    def __hash__(self):
        return hash(("PyStr", self.s))

    def __repr__(self):
        return f"PyStr({self.s!r})"


class _None:
    def __repr__(self):
        return "PyNone"


PYNONE = _None()
ELLIPSIS = Opaque()


class TopV:
    __slots__ = ("why",)

    def __init__(self, why="?"):
        self.why = why

    def __eq__(self, o):
        return isinstance(o, TopV)

    def __hash__(self):
        return hash("Top")

    def __repr__(self):
        return f"Top({self.why})"


class FuncV:
    """callable: kind 'table' (numpy-like by name), 'builtin', 'repo' (FuncInfo), 'unknown'."""

    __slots__ = ("kind", "target", "args", "kwargs")

    def __init__(self, kind, target, args=(), kwargs=()):
        self.kind, self.target, self.args, self.kwargs = kind, target, tuple(args), tuple(kwargs)

    def __eq__(self, o):
        return isinstance(o, FuncV) and (self.kind, self.target, self.args, self.kwargs) == (o.kind, o.target, o.args, o.kwargs)

    def __hash__(self):
        return hash((self.kind, id(self.target) if not isinstance(self.target, str) else self.target))

    def __repr__(self):
        t = self.target if isinstance(self.target, str) else getattr(self.target, "qualname", "?")
        return f"FuncV({self.kind}:{t})"


class ClassV:
    __slots__ = ("cls",)

    def __init__(self, cls):
        self.cls = cls

    def __eq__(self, o):
        return isinstance(o, ClassV) and self.cls is o.cls

    def __hash__(self):
        return hash(id(self.cls))


class ModV:
    """an external / numeric module (numpy, pennylane.math, math, functools, scipy...)."""

    __slots__ = ("name",)

    def __init__(self, name):
        self.name = name

    def __eq__(self, o):
        return isinstance(o, ModV) and self.name == o.name

    def __hash__(self):
        return hash(("ModV", self.name))


class PathAlts:
    """the return values of an inlined call with several return statements (kept apart so that a
    ``return helper(...)`` keeps one value per path)."""

    def __init__(self, vals):
        self.vals = list(vals)


def is_num(v):
    return isinstance(v, (Sc, Arr, Blob))


def depends(v):
    """may ``v`` depend on a gate parameter?"""
    if isinstance(v, (TopV, _CondV, _BoundMethod)):
        return True
    if isinstance(v, Sc):
        return any(_atom_dep(a) for a in v.alts)
    if isinstance(v, Arr):
        return any(depends(s) for s in v.flat)
    if isinstance(v, Blob):
        return any(_atom_dep(a) for a in v.alts)
    if isinstance(v, PyList):
        return any(depends(i) for i in v.items)
    if isinstance(v, PathAlts):
        return any(depends(i) for i in v.vals)
    if isinstance(v, FuncV):
        return any(depends(a) for a in v.args) or any(depends(a) for _, a in v.kwargs)
    return False


def _atom_dep(a):
    return isinstance(a, Lin) or not a.is_const()


def to_int(v):
    if isinstance(v, Sc):
        a = v.single()
        if isinstance(a, Poly) and a.is_const() and isinstance(a.const_coef(), Cx):
            return a.const_coef().as_int()
    return None


def arr_is_diag(a):
    """concrete 2-D square array whose off-diagonal entries are all the literal Zero."""
    if not isinstance(a, Arr) or a.rank != 2 or a.shape[0] != a.shape[1]:
        return False
    n = a.shape[0]
    return all(a.flat[i * n + j] == SC_ZERO for i in range(n) for j in range(n) if i != j)


def sc_surely_nonzero(s):
    return all(isinstance(a, Lin) or (not a.is_zero() and a.known_nonzero()) for a in s.alts)


def as_array(v):
    """PyList (nested) of numeric values -> Arr / Blob; numeric values unchanged."""
    if is_num(v) or isinstance(v, TopV):
        return v
    if isinstance(v, Opaque):
        return Blob([P_UZ])
    if isinstance(v, PyList):
        items = [as_array(i) for i in v.items]
        if any(isinstance(i, TopV) for i in items):
            return next(i for i in items if isinstance(i, TopV))
        if not items:
            return Arr((0,), ())
        if all(isinstance(i, Sc) for i in items):
            return Arr((len(items),), items)
        if all(isinstance(i, Arr) for i in items) and len({i.shape for i in items}) == 1:
            return Arr((len(items),) + items[0].shape, [s for i in items for s in i.flat])
        if all(is_num(i) for i in items):
            bl = [to_blob(i) for i in items]
            return Blob(set().union(*[b.alts for b in bl]), all(b.sure for b in bl), False)
    raise GiveUp(f"not an array: {type(v).__name__}")


def to_blob(v):
    v = as_array(v)
    if isinstance(v, Blob):
        return v
    if isinstance(v, Sc):
        return Blob(v.alts, v.sure)
    if isinstance(v, Arr):
        alts = set()
        for s in v.flat:
            alts |= s.alts
        return Blob(alts or [ZERO], all(s.sure for s in v.flat), arr_is_diag(v))
    raise GiveUp("Top")


def sc_bin(op, a, b):
    alts = {op(x, y) for x in a.alts for y in b.alts}
    return Sc(alts, a.sure and b.sure and (len(a.alts) == 1 or len(b.alts) == 1))


def sc_map(fn, a):
    return Sc({fn(x) for x in a.alts}, a.sure)


def _bshape(s1, s2):
    n = max(len(s1), len(s2))
    a = (1,) * (n - len(s1)) + tuple(s1)
    b = (1,) * (n - len(s2)) + tuple(s2)
    out = []
    for x, y in zip(a, b):
        if x == y or y == 1:
            out.append(x)
        elif x == 1:
            out.append(y)
        else:
            return None
    return tuple(out), a, b


def _unravel(i, shape):
    idx = []
    for s in reversed(shape):
        idx.append(i % s)
        i //= s
    return idx[::-1]


def _ravel(idx, shape):
    i = 0
    for k, s in zip(idx, shape):
        i = i * s + (k if s != 1 else 0)
    return i


def arr_bin(op, a, b):
    r = _bshape(a.shape, b.shape)
    if r is None:
        return None
    shape, sa, sb = r
    n = 1
    for s in shape:
        n *= s
    if n > 70000:
        raise GiveUp("array too large")
    cache = {}
    flat = []
    for i in range(n):
        idx = _unravel(i, shape)
        x, y = a.flat[_ravel(idx, sa)], b.flat[_ravel(idx, sb)]
        k = (x, y)
        if k not in cache:
            cache[k] = sc_bin(op, x, y)
        flat.append(cache[k])
    return Arr(shape, flat)


def num_bin(opname, a, b):
    """elementwise binary operation with broadcasting on Sc / Arr / Blob."""
    op = {"add": a_add, "sub": lambda x, y: a_add(x, a_neg(y)), "mul": a_mul, "div": a_div, "pow": a_pow}[opname]
    a, b = as_array(a), as_array(b)
    if isinstance(a, TopV):
        return a
    if isinstance(b, TopV):
        return b
    if isinstance(a, Sc) and isinstance(b, Sc):
        return sc_bin(op, a, b)
    if isinstance(a, Arr) and isinstance(b, Sc):
        cache = {}
        return Arr(a.shape, [cache.setdefault(s, sc_bin(op, s, b)) if s not in cache else cache[s] for s in a.flat])
    if isinstance(a, Sc) and isinstance(b, Arr):
        cache = {}
        return Arr(b.shape, [cache.setdefault(s, sc_bin(op, a, s)) if s not in cache else cache[s] for s in b.flat])
    if isinstance(a, Arr) and isinstance(b, Arr):
        r = arr_bin(op, a, b)
        if r is not None:
            return r
    a_sc, b_sc = isinstance(a, Sc), isinstance(b, Sc)
    A, B = to_blob(a), to_blob(b)
    if opname == "mul" and {A.tag, B.tag} == {"col", "eye"}:
        # the idiom  vector[..., newaxis] * eye(n)  == diag(vector)   (DESIGN 2.1, shape domain)
        V = A if A.tag == "col" else B
        return Blob(V.alts | {ZERO}, V.sure, True)
    alts = {op(x, y) for x in A.alts for y in B.alts}
    sure = A.sure and B.sure and (len(A.alts) == 1 or len(B.alts) == 1)
    if opname == "mul":
        diag = A.diag or B.diag
    elif opname == "div":
        diag = A.diag
    elif opname in ("add", "sub"):
        diag = A.diag and B.diag and not a_sc and not b_sc
    else:
        diag = False
    return Blob(alts, sure, diag)


def num_map(fn, v):
    """elementwise unary function."""
    if isinstance(v, (TopV, Opaque)):
        return v
    v = as_array(v)
    if isinstance(v, Sc):
        return sc_map(fn, v)
    if isinstance(v, Arr):
        cache = {}
        out = []
        for s in v.flat:
            if s not in cache:
                cache[s] = sc_map(fn, s)
            out.append(cache[s])
        return Arr(v.shape, out)
    if isinstance(v, Blob):
        return Blob({fn(x) for x in v.alts}, v.sure, False, v.pylist)
    return v


def lincomb(*blobs):
    """generic (unknown-coefficient) linear combination of products of entries: a contraction."""
    keys = None
    for b in blobs:
        ks = set()
        for a in b.alts:
            if isinstance(a, Lin):
                raise GiveUp("contraction over a linear form")
            ks |= set(a.terms)
        keys = ks if keys is None else {kmul(k1, k2) for k1 in keys for k2 in ks}
        if len(keys) > Poly.MAX_TERMS:
            raise GiveUp("polynomial too large")
    return Poly({k: UZ for k in keys or ()})


def join(a, b):
    """control-flow join of two values."""
    if isinstance(a, PathAlts):
        a = join_all(a.vals)
    if isinstance(b, PathAlts):
        b = join_all(b.vals)
    if a is b:
        return a
    if isinstance(a, TopV):
        return a
    if isinstance(b, TopV):
        return b
    if a is PYNONE or b is PYNONE:
        if a is b:
            return a
        o = b if a is PYNONE else a
        return o if isinstance(o, Opaque) else (TopV("None joined with a value") if depends(o) else Opaque())
    try:
        if a == b:
            return a
    except Exception:  # noqa: BLE001
        pass
    if isinstance(a, Sc) and isinstance(b, Sc):
        return Sc(a.alts | b.alts, a.alts == b.alts and a.sure and b.sure)
    if isinstance(a, Arr) and isinstance(b, Arr) and a.shape == b.shape:
        return Arr(a.shape, [join(x, y) for x, y in zip(a.flat, b.flat)])
    if isinstance(a, PyList) and isinstance(b, PyList) and len(a.items) == len(b.items):
        return PyList([join(x, y) for x, y in zip(a.items, b.items)])
    if isinstance(a, (Opaque, PyStr)) and isinstance(b, (Opaque, PyStr)):
        return Opaque()
    if (is_num(a) or isinstance(a, (PyList, Opaque))) and (is_num(b) or isinstance(b, (PyList, Opaque))):
        try:
            A, B = to_blob(a), to_blob(b)
        except GiveUp:
            if not depends(a) and not depends(b):
                return Opaque()
            return TopV("join of unlike values")
        pl = (A.pylist or isinstance(a, PyList)) and (B.pylist or isinstance(b, PyList))
        return Blob(A.alts | B.alts, A.alts == B.alts and A.sure and B.sure, A.diag and B.diag, pl)
    if not depends(a) and not depends(b):
        return Opaque()
    return TopV("join of unlike values")


def join_all(vals):
    vals = list(vals)
    if not vals:
        return PYNONE
    r = vals[0]
    for v in vals[1:]:
        r = join(r, v)
    return r


# =============================================================================================
# array helpers used by the semantic table


def _nested(a):
    """Arr -> nested Python lists of Sc."""
    if isinstance(a, Sc):
        return a
    return [_nested(x) for x in a.subs()]


def _from_nested(n):
    if isinstance(n, Sc):
        return n
    items = [_from_nested(x) for x in n]
    return as_array(PyList(items))


def arr_stack(items, axis):
    """stack equally shaped Arr/Sc along a new axis (already normalised, >= 0)."""
    nested = [_nested(i) for i in items]

    def rec(ns, ax):
        if ax == 0:
            return list(ns)
        return [rec([n[i] for n in ns], ax - 1) for i in range(len(ns[0]))]

    return _from_nested(rec(nested, axis))


def arr_diag(v):
    if v.rank == 1:
        n = v.shape[0]
        return Arr((n, n), [v.flat[i] if i == j else SC_ZERO for i in range(n) for j in range(n)])
    if v.rank == 2:
        n = min(v.shape)
        return Arr((n,), [v.flat[i * v.shape[1] + i] for i in range(n)])
    raise GiveUp("diag of rank > 2")


def arr_eye(n):
    return Arr((n, n), [SC_ONE if i == j else SC_ZERO for i in range(n) for j in range(n)])


def arr_matmul(a, b):
    """contraction of the last axis of a with the first of b (ranks 1/2 only)."""
    if a.rank not in (1, 2) or b.rank not in (1, 2) or a.shape[-1] != b.shape[0]:
        return None
    A = a if a.rank == 2 else Arr((1,) + a.shape, a.flat)
    B = b if b.rank == 2 else Arr(b.shape + (1,), b.flat)
    n, k, m = A.shape[0], A.shape[1], B.shape[1]
    flat = []
    for i in range(n):
        for j in range(m):
            acc = SC_ZERO
            for t in range(k):
                x, y = A.flat[i * k + t], B.flat[t * m + j]
                if x == SC_ZERO or y == SC_ZERO:
                    continue
                acc = sc_bin(a_add, acc, sc_bin(a_mul, x, y))
            flat.append(acc)
    shape = ((n,) if a.rank == 2 else ()) + ((m,) if b.rank == 2 else ())
    if not shape:
        return flat[0]
    return Arr(shape, flat)


def arr_outer(a, b):
    """tensor (outer) product: shape a.shape + b.shape."""
    cache = {}
    flat = []
    for x in a.flat:
        for y in b.flat:
            if (x, y) not in cache:
                cache[(x, y)] = sc_bin(a_mul, x, y)
            flat.append(cache[(x, y)])
    return Arr(a.shape + b.shape, flat)


def arr_kron(a, b):
    if a.rank != 2 or b.rank != 2:
        return None
    (n, m), (p, q) = a.shape, b.shape
    flat = []
    for i in range(n * p):
        for j in range(m * q):
            flat.append(sc_bin(a_mul, a.flat[(i // p) * m + j // q], b.flat[(i % p) * q + j % q]))
    return Arr((n * p, m * q), flat)


def arr_transpose(a):
    if a.rank != 2:
        return None
    n, m = a.shape
    return Arr((m, n), [a.flat[i * m + j] for j in range(m) for i in range(n)])


def contraction(a, b):
    """generic contraction fallback: one blob whose only alternative is a linear combination."""
    A, B = to_blob(a), to_blob(b)
    return Blob([lincomb(A, B), ZERO], False, False)


def products(a, b, diag=None):
    """outer/kron-like product without summation: every entry is a product of two entries."""
    A, B = to_blob(a), to_blob(b)
    alts = {a_mul(x, y) for x in A.alts for y in B.alts}
    return Blob(alts, A.sure and B.sure and (len(A.alts) == 1 or len(B.alts) == 1), (A.diag and B.diag) if diag is None else diag)


def do_einsum(subs, ops):
    subs = subs.replace(" ", "")
    if "->" not in subs or "." in subs:
        raise _Fallback()
    lhs, out = subs.split("->")
    ins = lhs.split(",")
    if len(ins) != len(ops):
        raise GiveUp("einsum operand count")
    ops = [as_array(o) for o in ops]
    if not all(isinstance(o, (Sc, Arr)) for o in ops):
        raise _Fallback()
    rank = [0 if isinstance(o, Sc) else o.rank for o in ops]
    drop = set()
    for s, r in zip(ins, rank):
        if len(s) == r + 1:
            drop.add(s[0])  # the batch axis of a parameter interpreted as a scalar
        elif len(s) != r:
            raise _Fallback()
    ins = ["".join(ch for ch in s if ch not in drop) for s in ins]
    out = "".join(ch for ch in out if ch not in drop)
    if any(len(s) != r for s, r in zip(ins, rank)) or any(len(set(s)) != len(s) for s in ins + [out]):
        raise _Fallback()
    dim = {}
    for s, o in zip(ins, ops):
        for ch, n in zip(s, () if isinstance(o, Sc) else o.shape):
            if dim.setdefault(ch, n) != n:
                raise _Fallback()
    summed = [ch for ch in dim if ch not in out]
    if any(ch not in dim for ch in out):
        raise _Fallback()
    total = 1
    for ch in dim:
        total *= dim[ch]
    if total > 70000:
        raise _Fallback()
    letters = list(out) + summed
    oshape = tuple(dim[ch] for ch in out)
    acc = {}
    cache = {}
    for i in range(total):
        idx = dict(zip(letters, _unravel(i, [dim[ch] for ch in letters])))
        term = SC_ONE
        for s, o in zip(ins, ops):
            e = o if isinstance(o, Sc) else o.flat[_ravel([idx[ch] for ch in s], o.shape)]
            if e == SC_ZERO:
                term = SC_ZERO
                break
            k = (term, e)
            if k not in cache:
                cache[k] = sc_bin(a_mul, term, e)
            term = cache[k]
        oi = tuple(idx[ch] for ch in out)
        if term == SC_ZERO:
            acc.setdefault(oi, SC_ZERO)
            continue
        acc[oi] = sc_bin(a_add, acc[oi], term) if oi in acc and acc[oi] != SC_ZERO else term
    if not oshape:
        return acc[()]
    n = 1
    for s in oshape:
        n *= s
    return Arr(oshape, [acc[tuple(_unravel(i, oshape))] for i in range(n)])


class _Fallback(Exception):
    pass


def einsum_has_sum(subs):
    subs = subs.replace(" ", "").replace("...", "")
    if "->" not in subs:
        return True
    lhs, out = subs.split("->")
    return any(ch not in out for ch in lhs if ch != ",")


# =============================================================================================
# the interpreter

EXTERNAL_TOPS = {"numpy", "math", "cmath", "scipy", "autoray", "functools", "itertools", "jax", "torch", "tensorflow", "autograd", "operator"}
IDENTITY_FUNCS = {
    "cast_like", "convert_like", "asarray", "array", "cast", "copy", "astype", "to", "toarray", "squeeze",
    "stop_gradient", "unwrap", "to_numpy", "ascontiguousarray", "float", "complex", "tensor", "requires_grad_", "numpy",
    "coerce", "convert_to_tensor", "detach", "cpu",
}  # fmt: skip
INDEP_FUNCS = {
    "ndim", "shape", "get_interface", "get_deep_interface", "is_abstract", "requires_grad", "size", "isinstance",
    "type", "get_dtype_name", "in_backprop", "dtype", "device", "hasattr", "callable", "id", "iscomplexobj", "issubclass",
    "result_type", "is_tensor", "get_batch_size", "_get_batch_size",
}  # fmt: skip
RESHAPE_FUNCS = {"reshape", "flatten", "ravel", "moveaxis", "swapaxes", "flip", "roll", "tile", "broadcast_to", "expand_dims",
                 "concatenate", "hstack", "vstack", "take", "gather", "repeat", "atleast_1d", "atleast_2d"}  # fmt: skip
BUILTINS_PURE = {"range", "list", "tuple", "int", "len", "zip", "enumerate", "reversed", "sorted", "set", "dict", "str", "bool",
                 "min", "max", "sum", "abs", "any", "all", "print", "float", "complex", "isinstance", "type", "round", "map", "filter",
                 "hasattr", "getattr", "callable", "iter", "next", "frozenset", "divmod", "pow", "issubclass", "id", "repr"}  # fmt: skip
ATTR_CONSTS = {"pi": P_U, "e": P_U, "inf": P_U, "euler_gamma": P_U}
NONMUTATING_METHODS = {"copy", "to", "astype", "conj", "conjugate", "reshape", "flatten", "ravel", "tolist", "item", "index", "count",
                       "keys", "values", "items", "get", "numpy", "detach", "cpu", "transpose", "squeeze", "real", "imag", "sum", "dot"}  # fmt: skip


class Frame:
    def __init__(self, module, func=None, cls=None):
        self.module = module
        self.func = func
        self.cls = cls  # class scope evaluation
        self.returns = []


class Budget(Exception):
    pass


class Interp:
    MAX_DEPTH = 8
    MAX_STEPS = 400000

    def __init__(self, ix):
        self.ix = ix
        self.stack = []
        self.steps = 0
        self.tops = []  # reasons, in order of appearance
        self._scope_cache = {}
        self._scope_busy = set()
        self.touched = set()  # (relpath, qualname) of every function body interpreted

    # ------------------------------------------------------------------ helpers
    def top(self, why):
        if len(self.tops) < 20:
            self.tops.append(why)
        return TopV(why)

    def tick(self):
        self.steps += 1
        if self.steps > self.MAX_STEPS:
            raise Budget()

    # ------------------------------------------------------------------ globals
    def module_is_numeric(self, m):
        return isinstance(m, Module) and (m.name == "pennylane.math" or m.name.startswith("pennylane.math."))

    def global_value(self, fr, expr):
        """value of a non-local Name / dotted Attribute seen from fr.module."""
        parts = dotted_parts(expr)
        if not parts:
            return None
        m = fr.module
        name = parts[-1]
        # class scope: sibling class-level names
        if fr.cls is not None and len(parts) == 1 and name in fr.cls.assigns:
            return self.scope_value(fr.module, fr.cls, name)
        root = m.names.get(parts[0])
        if root is None and len(parts) == 1:
            if name in BUILTINS_PURE or name in ("True", "False"):
                return FuncV("builtin", name)
            r = self.ix.resolve_expr(m, expr)  # star imports
            if r is None:
                return Opaque()
        if root is not None and root[0] == "import" and root[1].split(".")[0] in EXTERNAL_TOPS:
            return self._external(parts)
        if root is not None and root[0] == "from" and root[1][0].split(".")[0] in EXTERNAL_TOPS:
            return self._external([root[1][0]] + [root[1][1]] + parts[1:])
        r = self.ix.resolve_expr(m, expr)
        if r is None:
            # unresolvable attribute of a resolvable owner
            if len(parts) > 1:
                owner = self.ix.resolve_expr(m, expr.value)
                if self.module_is_numeric(owner):
                    return self._external(["math", name])
                if isinstance(owner, ClassInfo):
                    return Opaque()
                if owner is None:
                    ov = self.global_value(fr, expr.value)
                    if isinstance(ov, ModV):
                        return self._external([ov.name, name])
            return Opaque()
        return self._resolved(r, parts, expr, fr)

    def _external(self, parts):
        name = parts[-1]
        if name in ATTR_CONSTS:
            return Sc([ATTR_CONSTS[name]])
        if name == "newaxis":
            return PYNONE
        if len(parts) == 1:
            return ModV(name)
        if name in ("linalg", "numpy", "math", "fft", "special", "sparse", "random"):
            return ModV(name)
        return FuncV("table", name)

    def _resolved(self, r, parts, expr, fr):
        name = parts[-1]
        if isinstance(r, Module):
            return ModV("math" if self.module_is_numeric(r) else r.name)
        if isinstance(r, FuncInfo):
            if r.module.relpath.startswith("pennylane/math/"):
                return FuncV("table", r.name)
            if r.fq in REPO_TABLE:
                return FuncV("table", REPO_TABLE[r.fq])
            return FuncV("repo", r)
        if isinstance(r, ClassInfo):
            return ClassV(r)
        if isinstance(r, tuple) and r[0] == "value":
            _, mod, node = r
            if self.module_is_numeric(mod):
                return self._external(["math", name])
            # class attribute ?
            if len(parts) > 1:
                owner = self.ix.resolve_expr(fr.module, expr.value)
                if isinstance(owner, ClassInfo):
                    dc, _v = owner.lookup(name)
                    if dc is not None:
                        return self.scope_value(dc.module, dc, name)
            # module-level name (possibly imported from another module): find its home module
            home = mod
            return self.scope_value(home, None, self._home_name(mod, node, name))
        return Opaque()

    @staticmethod
    def _home_name(mod, node, fallback):
        for nm, vals in mod.all_assigns.items():
            if any(v is node for v in vals):
                return nm
        return fallback

    def scope_value(self, module, cls, name):
        """value of a module-level / class-level name: every statement of that scope targeting the
        name is interpreted in order (``mask = np.zeros((16,16)); mask[3, 12] = -1``).  Such values
        cannot depend on gate parameters, so anything not understood is Opaque, never Top."""
        key = (module.relpath, cls.fq if cls else None, name)
        if key in self._scope_cache:
            return self._scope_cache[key]
        if key in self._scope_busy:
            return Opaque()
        self._scope_busy.add(key)
        try:
            body = cls.node.body if cls is not None else module.tree.body
            fr = Frame(module, cls=cls)
            env = {}
            found = False
            n_top = 0
            for st in body:
                tg = _stmt_targets_name(st, name)
                if not tg:
                    continue
                found = True
                n_top += 1
                try:
                    env = self.exec_block([st], env, fr) or env
                except (GiveUp, RecursionError):
                    env[name] = Opaque()
            if cls is None and len(module.all_assigns.get(name, [])) > n_top:
                val = Opaque()  # also assigned in a nested block
            elif not found:
                val = Opaque()
            else:
                val = env.get(name, Opaque())
            if isinstance(val, TopV) or depends(val):
                val = Opaque()
        finally:
            self._scope_busy.discard(key)
        self._scope_cache[key] = val
        return val

    # ------------------------------------------------------------------ expressions
    def eval(self, node, env, fr):
        v = self.eval_raw(node, env, fr)
        if isinstance(v, PathAlts):
            v = join_all(v.vals)
        return v

    def eval_raw(self, node, env, fr):
        self.tick()
        try:
            return self._eval(node, env, fr)
        except GiveUp as e:
            return self.top(f"{e} at `{_short(node)}`")

    def _eval(self, node, env, fr):
        if isinstance(node, ast.Constant):
            v = node.value
            if isinstance(v, bool):
                return Opaque(True)
            if isinstance(v, (int, float, complex)):
                c = cx_of(v)
                return K(c) if c is not None else Sc([P_U])
            if isinstance(v, str):
                return PyStr(v)
            if v is None:
                return PYNONE
            return Opaque()
        if isinstance(node, ast.Name):
            if node.id in env:
                return env[node.id]
            g = self.global_value(fr, node)
            return g if g is not None else Opaque()
        if isinstance(node, ast.Attribute):
            parts = dotted_parts(node)
            if parts and parts[0] not in env:
                g = self.global_value(fr, node)
                return g if g is not None else Opaque()
            base = self.eval(node.value, env, fr)
            return self.attr_of(base, node.attr)
        if isinstance(node, ast.BinOp):
            a = self.eval(node.left, env, fr)
            b = self.eval(node.right, env, fr)
            return self.binop(node.op, a, b)
        if isinstance(node, ast.UnaryOp):
            a = self.eval(node.operand, env, fr)
            if isinstance(node.op, ast.USub):
                if isinstance(a, Opaque):
                    return a
                return num_map(a_neg, a)
            if isinstance(node.op, ast.UAdd):
                return a
            return Opaque() if not depends(a) else self.top("boolean/bitwise operator on a parameter")
        if isinstance(node, (ast.Compare, ast.BoolOp)):
            subs = [node.left] + list(node.comparators) if isinstance(node, ast.Compare) else node.values
            vals = [self.eval(s, env, fr) for s in subs]
            if isinstance(node, ast.BoolOp) and any(depends(v) for v in vals):
                return join_all(vals)
            # a comparison is only ever used as a condition (all branches are joined); as a number
            # (mask) it would be piecewise constant, which is outside the domain
            return Opaque() if not any(depends(v) for v in vals) else _CondV()
        if isinstance(node, ast.IfExp):
            self.eval(node.test, env, fr)
            return join(self.eval(node.body, env, fr), self.eval(node.orelse, env, fr))
        if isinstance(node, (ast.List, ast.Tuple)):
            items = []
            for e in node.elts:
                if isinstance(e, ast.Starred):
                    v = self.eval(e.value, env, fr)
                    if isinstance(v, PyList):
                        items.extend(v.items)
                    elif isinstance(v, Arr):
                        items.extend(v.subs())
                    elif not depends(v):
                        return Opaque()
                    else:
                        return self.top("starred value of unknown length")
                else:
                    items.append(self.eval(e, env, fr))
            return PyList(items)
        if isinstance(node, (ast.Dict, ast.Set)):
            vals = [self.eval(v, env, fr) for v in (node.values if isinstance(node, ast.Dict) else node.elts) if v is not None]
            return Opaque() if not any(depends(v) for v in vals) else self.top("dict/set display holding a parameter")
        if isinstance(node, (ast.ListComp, ast.GeneratorExp)):
            return self.comprehension(node, env, fr)
        if isinstance(node, (ast.SetComp, ast.DictComp)):
            return Opaque()
        if isinstance(node, ast.Subscript):
            base = self.eval(node.value, env, fr)
            return self.subscript(base, node.slice, env, fr)
        if isinstance(node, ast.Call):
            return self.call(node, env, fr)
        if isinstance(node, ast.Lambda):
            return FuncV("unknown", "lambda")
        if isinstance(node, (ast.JoinedStr, ast.FormattedValue)):
            return Opaque()
        if isinstance(node, ast.NamedExpr):
            v = self.eval(node.value, env, fr)
            if isinstance(node.target, ast.Name):
                env[node.target.id] = v
            return v
        if isinstance(node, ast.Starred):
            return self.top("starred expression")
        if isinstance(node, ast.Slice):
            return Opaque()
        return self.top(f"unmodelled expression {type(node).__name__}")

    def attr_of(self, base, attr):
        if isinstance(base, TopV):
            return base
        if attr == "T":
            if isinstance(base, Arr):
                t = arr_transpose(base)
                if t is not None:
                    return t
            if is_num(base):
                b = to_blob(base)
                return Blob(b.alts, b.sure, b.diag)
        if attr in ("real", "imag") and is_num(base):
            return num_map(lambda x: a_fn(attr, x), base)
        if attr in ("shape", "dtype", "device", "ndim", "size", "__name__", "name"):
            return Opaque(attr in ("ndim", "size"))
        if isinstance(base, ModV):
            return self._external([base.name, attr])
        if isinstance(base, ClassV):
            dc, v = base.cls.lookup(attr)
            if isinstance(v, FuncInfo):
                return FuncV("repo", v)
            if dc is not None:
                return self.scope_value(dc.module, dc, attr)
            return Opaque()
        if not depends(base):
            return Opaque()
        return _BoundMethod(base, attr)

    def binop(self, op, a, b):
        if isinstance(a, TopV):
            return a
        if isinstance(b, TopV):
            return b
        if isinstance(a, _CondV) or isinstance(b, _CondV):
            return self.top("comparison result used as a number")
        name = {ast.Add: "add", ast.Sub: "sub", ast.Mult: "mul", ast.Div: "div", ast.Pow: "pow", ast.MatMult: "matmul"}.get(type(op))
        # Python list semantics
        a_list = isinstance(a, PyList) or (isinstance(a, Blob) and a.pylist)
        b_list = isinstance(b, PyList) or (isinstance(b, Blob) and b.pylist)
        if name == "add" and a_list and b_list:
            if isinstance(a, PyList) and isinstance(b, PyList):
                return PyList(a.items + b.items)
            A, B = to_blob(a), to_blob(b)
            return Blob(A.alts | B.alts, False, False, True)
        if name == "mul" and (a_list or b_list):
            lst, k = (a, b) if a_list else (b, a)
            n = to_int(k)
            if n is not None and isinstance(lst, PyList):
                if n * len(lst.items) > 4096:
                    raise GiveUp("list too long")
                return PyList(lst.items * max(n, 0))
            if n is not None or (isinstance(k, Opaque) and k.is_int):
                if not lst.items if isinstance(lst, PyList) else False:
                    return lst
                bl = to_blob(lst)
                return Blob(bl.alts, False, False, True)
        if isinstance(a, (Opaque, PyStr)) and isinstance(b, (Opaque, PyStr)):
            return Opaque(isinstance(a, Opaque) and isinstance(b, Opaque) and a.is_int and b.is_int and name in ("add", "sub", "mul", "pow", None))
        if isinstance(a, Opaque) and a.is_int and to_int(b) is not None or isinstance(b, Opaque) and b.is_int and to_int(a) is not None:
            if name in ("add", "sub", "mul", "pow") or isinstance(op, (ast.FloorDiv, ast.Mod, ast.LShift, ast.RShift)):
                return Opaque(True)
        if name is None:
            if not depends(a) and not depends(b):
                return Opaque()
            return self.top(f"operator {type(op).__name__} on a parameter")
        if a is PYNONE or b is PYNONE or isinstance(a, (PyStr, FuncV, ClassV, ModV, _BoundMethod)) or isinstance(b, (PyStr, FuncV, ClassV, ModV, _BoundMethod)):
            if not depends(a) and not depends(b):
                return Opaque()
            return self.top("arithmetic on a non-numeric value")
        if name == "matmul":
            return self.matmul(a, b)
        return num_bin(name, a, b)

    def matmul(self, a, b):
        a, b = as_array(a), as_array(b)
        if isinstance(a, Arr) and isinstance(b, Arr):
            r = arr_matmul(a, b)
            if r is not None:
                return r
        return contraction(a, b)

    # ------------------------------------------------------------------ subscripts
    def subscript(self, base, sl, env, fr):
        if isinstance(base, TopV):
            return base
        idxs = list(sl.elts) if isinstance(sl, ast.Tuple) else [sl]
        if isinstance(base, (Opaque, PyStr, ModV, FuncV, ClassV)) or base is PYNONE:
            for i in idxs:
                if not isinstance(i, ast.Slice) and depends(self.eval(i, env, fr)):
                    return self.top("subscript by a parameter")
            return Opaque()
        if isinstance(base, PyList) and len(idxs) == 1:
            i = idxs[0]
            if isinstance(i, ast.Slice):
                s = self._slice(i, env, fr)
                if s is not None:
                    return PyList(base.items[s])
            else:
                n = to_int(self.eval(i, env, fr))
                if n is not None and -len(base.items) <= n < len(base.items):
                    return base.items[n]
            return join_all(base.items) if base.items else Opaque()
        spec = []
        for i in idxs:
            if isinstance(i, ast.Slice):
                s = self._slice(i, env, fr)
                spec.append(("slice", s))
            elif isinstance(i, ast.Constant) and i.value is Ellipsis:
                spec.append(("ellipsis", None))
            else:
                v = self.eval(i, env, fr)
                if v is PYNONE:
                    spec.append(("new", None))
                elif to_int(v) is not None:
                    spec.append(("int", to_int(v)))
                elif depends(v):
                    return self.top("subscript by a parameter")
                else:
                    spec.append(("unknown", None))
        v = as_array(base)
        if isinstance(v, Arr):
            r = self._index_arr(v, spec)
            if r is not None:
                return r
        if isinstance(v, Sc):
            # a parameter interpreted as a scalar, indexed along its batch axis
            if all(k in ("slice", "new", "ellipsis") for k, _ in spec) or not depends(v):
                return v
            return self.top("a gate parameter is indexed (it is a vector/matrix, not a scalar angle)")
        b = to_blob(v)
        only_full = all(k in ("new", "ellipsis") or (k == "slice" and s == slice(None)) for k, s in spec)
        col = only_full and not b.diag and len(spec) >= 2 and spec[-1][0] == "new" and sum(1 for k, _ in spec if k == "new") == 1
        return Blob(b.alts, b.sure and only_full, b.diag and only_full and not any(k == "new" for k, _ in spec), False, "col" if col else None)

    def _slice(self, s, env, fr):
        out = []
        for part in (s.lower, s.upper, s.step):
            if part is None:
                out.append(None)
            else:
                n = to_int(self.eval(part, env, fr))
                if n is None:
                    return None
                out.append(n)
        return slice(*out)

    def _index_arr(self, arr, spec):
        if any(k == "unknown" or (k == "slice" and s is None) for k, s in spec):
            return None
        real = sum(1 for k, _ in spec if k in ("int", "slice"))
        if any(k == "ellipsis" for k, _ in spec):
            if sum(1 for k, _ in spec if k == "ellipsis") > 1 or real > arr.rank:
                return None
            i = next(j for j, (k, _) in enumerate(spec) if k == "ellipsis")
            spec = spec[:i] + [("slice", slice(None))] * (arr.rank - real) + spec[i + 1 :]
        else:
            # leading full slices beyond the rank address the batch axis of a scalar parameter
            while real > arr.rank and spec and spec[0] == ("slice", slice(None)):
                spec = spec[1:]
                real -= 1
            if real > arr.rank:
                return None

        def rec(x, sp):
            if not sp:
                return _nested(x) if isinstance(x, Arr) else x
            (k, s), rest = sp[0], sp[1:]
            if k == "new":
                return [rec(x, rest)]
            if isinstance(x, Sc):
                raise GiveUp("too many indices")
            if k == "int":
                if not -x.shape[0] <= s < x.shape[0]:
                    raise GiveUp("index out of range")
                return rec(x.sub(s), rest)
            return [rec(y, rest) for y in x.subs()[s]]

        return _from_nested(rec(arr, spec))

    def store_subscript(self, cur, sl, val, env, fr):
        """x[idx] = val  ->  new abstract value of x."""
        idxs = list(sl.elts) if isinstance(sl, ast.Tuple) else [sl]
        if isinstance(cur, (Opaque, TopV)):
            return cur if not depends(val) or isinstance(cur, TopV) else self.top("parameter stored into an opaque container")
        ints = []
        for i in idxs:
            n = None if isinstance(i, ast.Slice) else to_int(self.eval(i, env, fr))
            ints.append(n)
        if isinstance(cur, PyList) and len(ints) == 1 and ints[0] is not None and -len(cur.items) <= ints[0] < len(cur.items):
            items = list(cur.items)
            items[ints[0]] = val
            return PyList(items)
        c = as_array(cur)
        v = as_array(val)
        if isinstance(c, Arr) and isinstance(v, Sc) and len(ints) == c.rank and all(n is not None for n in ints):
            if all(-s <= n < s for n, s in zip(ints, c.shape)):
                flat = list(c.flat)
                flat[_ravel([n % s for n, s in zip(ints, c.shape)], c.shape)] = v
                return Arr(c.shape, flat)
        C, V = to_blob(c), to_blob(v)
        return Blob(C.alts | V.alts, False, False, C.pylist)

    # ------------------------------------------------------------------ comprehensions / iteration
    def iterate(self, v):
        """-> (list of element values | None, summary element)"""
        if isinstance(v, PyList):
            return list(v.items), None
        if isinstance(v, Arr):
            return v.subs(), None
        if isinstance(v, Blob):
            return None, Blob(v.alts, False, v.diag and v.pylist, False)
        if isinstance(v, TopV):
            return None, v
        if isinstance(v, Sc):
            if depends(v):
                return None, self.top("iteration over a parameter-dependent scalar")
            return None, Sc(v.alts, False)
        if depends(v):
            return None, self.top("iteration over an unmodelled value")
        return None, Opaque()

    def unknown_list(self, elem):
        """a list of unknown length whose elements all look like ``elem``."""
        if isinstance(elem, TopV):
            return elem
        if is_num(elem) or (isinstance(elem, PyList) and depends(elem)):
            b = to_blob(elem)
            return Blob(b.alts, False, b.diag, True)
        if not depends(elem):
            return Opaque()
        return self.top("list of unmodelled values")

    def comprehension(self, node, env, fr):
        env = dict(env)
        exact = [True]

        def rec(gens, env):
            if not gens:
                return [self.eval(node.elt, env, fr)]
            g = gens[0]
            items, summ = self.iterate(self.eval(g.iter, env, fr))
            if g.ifs:
                for c in g.ifs:
                    pass
                exact[0] = False
            out = []
            if items is None or len(items) > 512:
                exact[0] = False
                self.bind(g.target, summ if items is None else join_all(items), env, fr)
                return rec(gens[1:], env)
            for it in items:
                self.bind(g.target, it, env, fr)
                out.extend(rec(gens[1:], env))
            return out

        vals = rec(node.generators, env)
        if exact[0]:
            return PyList(vals)
        if not vals:
            return Opaque()
        return self.unknown_list(join_all(vals))

    def bind(self, target, val, env, fr):
        if isinstance(target, ast.Name):
            env[target.id] = val
            return
        if isinstance(target, (ast.Tuple, ast.List)):
            n = len(target.elts)
            if any(isinstance(e, ast.Starred) for e in target.elts):
                for e in target.elts:
                    self.bind(e.value if isinstance(e, ast.Starred) else e, Opaque() if not depends(val) else self.top("starred unpacking"), env, fr)
                return
            parts = None
            if isinstance(val, PyList) and len(val.items) == n:
                parts = list(val.items)
            elif isinstance(val, Arr) and val.shape and val.shape[0] == n:
                parts = val.subs()
            elif isinstance(val, Blob):
                parts = [Blob(val.alts, False, False, False)] * n
            elif isinstance(val, TopV):
                parts = [val] * n
            elif not depends(val):
                parts = [Opaque()] * n
            else:
                parts = [self.top("unpacking of an unmodelled value")] * n
            for e, p in zip(target.elts, parts):
                self.bind(e, p, env, fr)
            return
        if isinstance(target, ast.Subscript):
            root = target.value
            if isinstance(root, ast.Name) and root.id in env:
                try:
                    env[root.id] = self.store_subscript(env[root.id], target.slice, val, env, fr)
                except GiveUp as e:
                    env[root.id] = self.top(f"{e} in subscript store")
            else:
                r = _root_name(target)
                if r and r in env:
                    env[r] = self.top("store into a nested container")
            return
        if isinstance(target, ast.Attribute):
            r = _root_name(target)
            if r and r in env and depends(val):
                env[r] = self.top("attribute store")
            return
        if isinstance(target, ast.Starred):
            self.bind(target.value, val, env, fr)


class _CondV:
    """result of a comparison involving a parameter (only meaningful as a branch condition)."""

    def __eq__(self, o):
        return isinstance(o, _CondV)

    def __hash__(self):
        return hash("_CondV")


class _BoundMethod:
    def __init__(self, base, attr):
        self.base, self.attr = base, attr


def _root_name(node):
    while isinstance(node, (ast.Attribute, ast.Subscript)):
        node = node.value
    return node.id if isinstance(node, ast.Name) else None


def _short(node):
    try:
        s = ast.unparse(node)
    except Exception:  # noqa: BLE001
        s = type(node).__name__
    s = " ".join(s.split())
    return s if len(s) <= 60 else s[:57] + "..."


def _stmt_targets_name(st, name):
    tgts = []
    if isinstance(st, ast.Assign):
        tgts = st.targets
    elif isinstance(st, (ast.AugAssign, ast.AnnAssign)):
        tgts = [st.target] if getattr(st, "value", True) is not None else []
    for t in tgts:
        for e in ast.walk(t):
            if isinstance(e, ast.Name) and e.id == name and isinstance(e.ctx, ast.Store):
                return True
        if _root_name(t) == name:
            return True
    return False


REPO_TABLE = {
    "pennylane.pauli.utils.pauli_eigs": "pauli_eigs",
}


class Interp2(Interp):
    # ------------------------------------------------------------------ calls
    def call(self, node, env, fr):
        # method call on a local value
        f = node.func
        args, kwargs, bad = self.eval_args(node, env, fr)
        if bad is not None:
            return bad
        if isinstance(f, ast.Attribute):
            parts = dotted_parts(f)
            if not parts or parts[0] in env:
                base = self.eval(f.value, env, fr)
                if isinstance(base, (ModV, ClassV)):
                    fv = self.attr_of(base, f.attr)
                    return self.call_value(fv, args, kwargs)
                return self.method_call(base, f.attr, args, kwargs, f.value, env)
        fv = self.eval(f, env, fr)
        return self.call_value(fv, args, kwargs)

    def eval_args(self, node, env, fr):
        args, kwargs = [], {}
        for a in node.args:
            if isinstance(a, ast.Starred):
                v = self.eval(a.value, env, fr)
                if isinstance(v, PyList):
                    args.extend(v.items)
                elif isinstance(v, Arr):
                    args.extend(v.subs())
                elif not depends(v):
                    args.append(_StarOpaque())
                else:
                    return None, None, self.top("starred argument of unknown length")
            else:
                args.append(self.eval(a, env, fr))
        for kw in node.keywords:
            v = self.eval(kw.value, env, fr)
            if kw.arg is None:
                if depends(v):
                    return None, None, self.top("**kwargs holding a parameter")
                continue
            kwargs[kw.arg] = v
        return args, kwargs, None

    def method_call(self, base, attr, args, kwargs, recv_node, env):
        if isinstance(base, TopV):
            return base
        if isinstance(base, PyList) or (isinstance(base, Blob) and base.pylist):
            if attr in ("append", "extend", "insert") and isinstance(recv_node, ast.Name) and args:
                new = args[-1]
                if attr == "append" and isinstance(base, PyList):
                    env[recv_node.id] = PyList(base.items + (new,))
                elif attr == "extend" and isinstance(base, PyList) and isinstance(new, PyList):
                    env[recv_node.id] = PyList(base.items + new.items)
                else:
                    try:
                        A, B = to_blob(base), to_blob(new)
                        env[recv_node.id] = Blob(A.alts | B.alts, False, False, True)
                    except GiveUp:
                        env[recv_node.id] = self.top("list mutation with an unmodelled value") if depends(new) or depends(base) else Opaque()
                return PYNONE
            if attr == "copy":
                return base
        if is_num(base) or isinstance(base, PyList):
            if attr in IDENTITY_FUNCS:
                return base
            if attr in UNARY_FUNCS or attr in ("T", "transpose", "sum", "dot", "reshape", "flatten", "ravel", "trace", "diagonal"):
                return self.table(attr, [base] + list(args), kwargs)
            if attr in ("item", "tolist"):
                return base
        if not depends(base) and not any(depends(a) for a in args) and not any(depends(a) for a in kwargs.values()):
            if attr in ("append", "extend", "insert", "update", "add") and isinstance(recv_node, ast.Name):
                return PYNONE
            return Opaque()
        if isinstance(recv_node, ast.Name) and attr not in NONMUTATING_METHODS and recv_node.id in env:
            env[recv_node.id] = self.top(f"unmodelled method .{attr}()")
        return self.top(f"unmodelled method .{attr}()")

    def call_value(self, fv, args, kwargs):
        if isinstance(fv, TopV):
            return fv
        indep = not any(depends(a) for a in args) and not any(depends(a) for a in kwargs.values())
        if isinstance(fv, FuncV):
            if fv.args or fv.kwargs:
                args = list(fv.args) + list(args)
                kwargs = {**dict(fv.kwargs), **kwargs}
                fv = FuncV(fv.kind, fv.target)
                return self.call_value(fv, args, kwargs)
            if any(isinstance(a, _StarOpaque) for a in args):
                return Opaque() if indep else self.top("starred argument of unknown length")
            if fv.kind == "table":
                return self.table(fv.target, args, kwargs)
            if fv.kind == "builtin":
                return self.builtin(fv.target, args, kwargs)
            if fv.kind == "repo":
                r = self.inline(fv.target, args, kwargs)
                if indep and (isinstance(r, TopV) or (isinstance(r, PathAlts) and any(isinstance(v, TopV) for v in r.vals))):
                    return Opaque()
                return r
            return Opaque() if indep else self.top(f"call of an unknown callable with a parameter ({fv.target})")
        if isinstance(fv, ClassV):
            return Opaque() if indep else self.top(f"{fv.cls.name}(...) constructed from a parameter")
        if isinstance(fv, _BoundMethod):
            return self.method_call(fv.base, fv.attr, args, kwargs, None, {})
        return Opaque() if indep else self.top("call of an unknown callable with a parameter")

    def inline(self, fi, args, kwargs):
        if fi in self.stack or len(self.stack) >= self.MAX_DEPTH:
            return self.top(f"call depth/recursion at {fi.qualname}")
        a = fi.node.args
        if not plain_function(fi.node):
            return self.top(f"{fi.qualname} is decorated/a generator: not inlined")
        pos = [x.arg for x in a.posonlyargs + a.args]
        is_static = any((isinstance(d, ast.Name) and d.id == "staticmethod") for d in fi.node.decorator_list)
        if fi.cls is not None and not is_static:
            return self.top(f"{fi.qualname} is an instance method")
        fr = Frame(fi.module, func=fi)
        env = {}
        rest = list(args)
        for n in pos:
            if rest:
                env[n] = rest.pop(0)
        if rest:
            if a.vararg:
                env[a.vararg.arg] = PyList(rest)
            else:
                return self.top(f"too many positional arguments for {fi.qualname}")
        elif a.vararg:
            env[a.vararg.arg] = PyList([])
        kwrest = {}
        names = set(pos) | {x.arg for x in a.kwonlyargs}
        for k, v in kwargs.items():
            if k in names:
                env[k] = v
            else:
                kwrest[k] = v
        if a.kwarg:
            env[a.kwarg.arg] = Opaque() if not any(depends(v) for v in kwrest.values()) else self.top("parameter swallowed by **kwargs")
        defaults = dict(zip(pos[len(pos) - len(a.defaults):], a.defaults))
        defaults.update({x.arg: d for x, d in zip(a.kwonlyargs, a.kw_defaults) if d is not None})
        for n in names:
            if n not in env:
                if n in defaults:
                    v = self.eval(defaults[n], {}, Frame(fi.module))
                    env[n] = v if not isinstance(v, TopV) else Opaque()
                else:
                    env[n] = Opaque()
        rets = self.run_body(fi, env, fr)
        if not rets:
            return PYNONE
        if len(rets) == 1:
            return rets[0]
        return PathAlts(rets)

    def run_body(self, fi, env, fr):
        self.stack.append(fi)
        self.touched.add((fi.module.relpath, fi.qualname))
        try:
            out = self.exec_block(fi.node.body, env, fr)
            if out is not None:
                fr.returns.append(PYNONE)
        finally:
            self.stack.pop()
        rets = []
        for r in fr.returns:
            rets.extend(r.vals if isinstance(r, PathAlts) else [r])
        # drop structurally equal duplicates
        uniq = []
        for r in rets:
            if not any(_same(r, u) for u in uniq):
                uniq.append(r)
        return uniq

    # ------------------------------------------------------------------ builtins
    def builtin(self, name, args, kwargs):
        indep = not any(depends(a) for a in args)
        a0 = args[0] if args else None
        if name == "len":
            if isinstance(a0, PyList):
                return K(Cx(len(a0.items)))
            if isinstance(a0, Arr) and a0.shape:
                return K(Cx(a0.shape[0]))
            return Opaque(True)
        if name == "range":
            ns = [to_int(a) for a in args]
            if args and all(n is not None for n in ns) and len(range(*ns)) <= 512:
                return PyList([K(Cx(i)) for i in range(*ns)])
            return Opaque()
        if name in ("list", "tuple"):
            if not args:
                return PyList([])
            if isinstance(a0, PyList):
                return a0
            if isinstance(a0, Arr):
                return PyList(a0.subs())
            if isinstance(a0, Blob):
                return Blob(a0.alts, a0.sure, a0.diag, True)
            return a0 if isinstance(a0, (Opaque, TopV)) else (Opaque() if indep else self.top("list() of an unmodelled value"))
        if name in ("int", "float", "complex"):
            if len(args) == 1 and isinstance(a0, (Sc, Opaque)):
                return a0
            return Opaque(name == "int") if indep else self.top(f"{name}() of a parameter")
        if name == "abs" and is_num(a0):
            return num_map(lambda x: a_fn("abs", x), a0)
        if name == "sum" and isinstance(a0, PyList) and a0.items:
            r = a0.items[0] if len(args) < 2 else args[1]
            for it in (a0.items[1:] if len(args) < 2 else a0.items):
                r = self.binop(ast.Add(), r, it)
            return r
        if name in ("sum", "min", "max") and args and is_num(as_array(a0)) and depends(a0):
            if name == "sum":
                return Sc([lincomb(to_blob(a0)), ZERO], False)
            return self.top(f"{name}() of a parameter")
        if name in ("reversed", "sorted") and isinstance(a0, PyList) and name == "reversed":
            return PyList(a0.items[::-1])
        if name == "enumerate" and isinstance(a0, PyList):
            return PyList([PyList([K(Cx(i)), it]) for i, it in enumerate(a0.items)])
        if name == "zip" and args and all(isinstance(a, PyList) for a in args):
            n = min(len(a.items) for a in args)
            return PyList([PyList([a.items[i] for a in args]) for i in range(n)])
        if name in ("isinstance", "type", "hasattr", "callable", "id", "print", "repr", "str", "bool", "issubclass"):
            return Opaque()
        return Opaque() if indep else self.top(f"builtin {name}() on a parameter")

    # ------------------------------------------------------------------ numpy-like semantic table
    def table(self, name, args, kwargs):
        a0 = args[0] if args else None
        indep = not any(depends(a) for a in args) and not any(depends(a) for a in kwargs.values())
        for a in args:
            if isinstance(a, TopV):
                return a
        try:
            r = self._table(name, args, kwargs, a0)
        except _Fallback:
            r = None
        if r is None:
            return Opaque() if indep else self.top(f"unmodelled function {name}()")
        return r

    def _axis(self, kwargs, args, pos, default):
        v = kwargs.get("axis", args[pos] if len(args) > pos else None)
        if v is None:
            return default
        n = to_int(v)
        return n if n is not None else "?"

    def _table(self, name, args, kwargs, a0):
        if name in INDEP_FUNCS:
            return Opaque(name in ("ndim", "size"))
        if name in IDENTITY_FUNCS:
            if a0 is None:
                return None
            if isinstance(a0, (PyList, Opaque)) and name in ("cast_like", "convert_like", "asarray", "array", "cast", "tensor", "convert_to_tensor"):
                if isinstance(a0, Opaque):
                    return a0
                try:
                    return as_array(a0)
                except GiveUp:
                    return Opaque() if not depends(a0) else None
            if isinstance(a0, Blob) and a0.pylist:
                return Blob(a0.alts, a0.sure, a0.diag, False)
            return a0
        if name in UNARY_FUNCS:
            if a0 is None:
                return None
            if isinstance(a0, (Opaque, PyStr)):
                return Opaque()
            return num_map(lambda x: a_fn(name, x), a0)
        if name in ("zeros_like", "ones_like", "empty_like"):
            fill = SC_ONE if name == "ones_like" else SC_ZERO
            if name == "empty_like":
                return None
            v = as_array(a0)
            if isinstance(v, Sc):
                return fill
            if isinstance(v, Arr):
                return Arr(v.shape, [fill] * len(v.flat))
            return Blob(fill.alts, True)
        if name in ("zeros", "ones"):
            fill = SC_ONE if name == "ones" else SC_ZERO
            shp = a0.items if isinstance(a0, PyList) else [a0]
            ns = [to_int(s) for s in shp]
            if all(n is not None and 0 <= n for n in ns):
                tot = 1
                for n in ns:
                    tot *= n
                if tot <= 70000:
                    return Arr(tuple(ns), [fill] * tot)
            return Blob(fill.alts, True)
        if name in ("eye", "identity"):
            n = to_int(a0) if a0 is not None else None
            m = to_int(args[1]) if len(args) > 1 else n
            if "k" in kwargs or len(args) > 2:
                return Blob([ZERO, P_ONE], False)
            if n is not None and m == n and 0 < n <= 256:
                return arr_eye(n)
            return Blob([ZERO, P_ONE], True, True, False, "eye")
        if name == "diag":
            v = as_array(a0)
            if len(args) > 1 or "k" in kwargs:
                b = to_blob(v)
                return Blob(b.alts | {ZERO}, False)
            if isinstance(v, Arr) and v.rank in (1, 2):
                return arr_diag(v)
            b = to_blob(v)
            return Blob(b.alts | {ZERO}, b.sure, True)
        if name == "block_diag":
            items = a0.items if len(args) == 1 and isinstance(a0, PyList) else args
            bl = [to_blob(i) for i in items]
            return Blob(set().union(*[b.alts for b in bl]) | {ZERO}, all(b.sure for b in bl), all(b.diag for b in bl))
        if name == "stack":
            return self._stack(a0, self._axis(kwargs, args, 1, 0))
        if name in RESHAPE_FUNCS:
            if isinstance(a0, PyList) and name in ("concatenate", "hstack", "vstack"):
                bl = [to_blob(i) for i in a0.items]
                return Blob(set().union(*[b.alts for b in bl]), all(b.sure for b in bl)) if bl else Opaque()
            b = to_blob(a0)
            return Blob(b.alts, b.sure and name not in ("take", "gather"), False)
        if name in ("transpose", "T", "adjoint", "swapaxes_last"):
            v = as_array(a0)
            if isinstance(v, Arr) and len(args) == 1 and not kwargs:
                t = arr_transpose(v)
                if t is not None:
                    return num_map(lambda x: a_fn("conj", x), t) if name == "adjoint" else t
            b = to_blob(v)
            alts = {a_fn("conj", x) for x in b.alts} if name == "adjoint" else b.alts
            return Blob(alts, b.sure, b.diag)
        if name == "where":
            if len(args) != 3:
                return Opaque() if not any(depends(a) for a in args) else None
            return join(as_array(args[1]), as_array(args[2]))
        if name == "einsum":
            if not isinstance(a0, PyStr):
                return None
            try:
                return do_einsum(a0.s, args[1:])
            except _Fallback:
                pass
            bl = [to_blob(a) for a in args[1:]]
            if einsum_has_sum(a0.s):
                return Blob([lincomb(*bl), ZERO], False)
            r = bl[0]
            for b in bl[1:]:
                r = products(r, b)
            return r
        if name == "tensordot":
            a, b = as_array(args[0]), as_array(args[1])
            axes = kwargs.get("axes", args[2] if len(args) > 2 else K(Cx(2)))
            n = to_int(axes)
            if n == 0:
                if isinstance(a, Sc) or isinstance(b, Sc):
                    return num_bin("mul", a, b)
                if isinstance(a, Arr) and isinstance(b, Arr) and len(a.flat) * len(b.flat) <= 70000:
                    return arr_outer(a, b)
                return products(a, b, diag=False)
            last_first = n == 1 or (
                isinstance(axes, PyList) and len(axes.items) == 2 and [_axes_ints(x) for x in axes.items] == [[-1], [0]]
            )
            if last_first and isinstance(a, Arr) and isinstance(b, Arr):
                r = arr_matmul(a, b)
                if r is not None:
                    return r
            if isinstance(a, Sc) or isinstance(b, Sc):
                return num_bin("mul", a, b)
            return contraction(a, b)
        if name == "kron":
            a, b = as_array(args[0]), as_array(args[1])
            if isinstance(a, Arr) and isinstance(b, Arr) and len(a.flat) * len(b.flat) <= 70000:
                r = arr_kron(a, b)
                if r is not None:
                    return r
            return products(a, b)
        if name == "outer":
            a, b = as_array(args[0]), as_array(args[1])
            if isinstance(a, Sc) or isinstance(b, Sc):
                return num_bin("mul", a, b)  # batch axis of a scalar parameter dropped
            if isinstance(a, Arr) and isinstance(b, Arr) and a.rank == 1 and b.rank == 1:
                return arr_outer(a, b)
            return products(a, b, diag=False)
        if name in ("dot", "matmul", "vdot", "inner"):
            a, b = as_array(args[0]), as_array(args[1])
            if isinstance(a, Sc) or isinstance(b, Sc):
                return num_bin("mul", a, b)
            if name in ("dot", "matmul"):
                return self.matmul(a, b)
            return contraction(a, b)
        if name in ("sum", "trace", "mean", "cumsum"):
            v = as_array(a0)
            if isinstance(v, Sc):
                return v
            return Blob([lincomb(to_blob(v)), ZERO], False)
        if name in ("multiply", "add", "subtract", "divide", "power", "true_divide"):
            op = {"multiply": "mul", "add": "add", "subtract": "sub", "divide": "div", "true_divide": "div", "power": "pow"}[name]
            return num_bin(op, args[0], args[1])
        if name == "expand_matrix":
            b = to_blob(a0)
            return Blob(b.alts | {ZERO}, b.sure, b.diag)
        if name == "pauli_eigs":
            return Blob([P_ONE, Poly.const(Cx(-1))], True)
        if name == "partial":
            if isinstance(a0, (FuncV, ClassV)):
                if isinstance(a0, ClassV):
                    return Opaque() if not any(depends(a) for a in args[1:]) else None
                return FuncV(a0.kind, a0.target, list(a0.args) + list(args[1:]), list(a0.kwargs) + list(kwargs.items()))
            return None
        if name == "reduce":
            if len(args) >= 2 and isinstance(args[1], PyList) and args[1].items and isinstance(a0, FuncV):
                items = list(args[1].items)
                r = items[0] if len(args) < 3 else args[2]
                for it in (items[1:] if len(args) < 3 else items):
                    r = self.call_value(a0, [r, it], {})
                    if isinstance(r, PathAlts):
                        r = join_all(r.vals)
                return r
            if len(args) >= 2 and isinstance(a0, FuncV) and a0.kind == "table" and a0.target in ("kron", "matmul", "dot", "multiply") and is_num(args[1]):
                b = to_blob(args[1])
                if any(isinstance(x, Lin) for x in b.alts) or any(_atom_dep(x) for x in b.alts):
                    return None
                return Opaque()
            return None
        if name in ("lru_cache", "cache", "wraps"):
            return None
        return None

    def _stack(self, seq, axis):
        if isinstance(seq, Blob):
            return Blob(seq.alts, seq.sure, seq.diag and axis == 0, False)
        if isinstance(seq, Arr):
            seq = PyList(seq.subs())
        if not isinstance(seq, PyList):
            if isinstance(seq, Opaque):
                return seq
            return None
        items = [as_array(i) for i in seq.items]
        if not items:
            return Opaque()
        if all(isinstance(i, Sc) for i in items):
            return Arr((len(items),), items)
        if axis != "?" and all(isinstance(i, Arr) for i in items) and len({i.shape for i in items}) == 1:
            r = items[0].rank
            ax = axis + r + 1 if axis < 0 else axis
            if 0 <= ax <= r:
                return arr_stack(items, ax)
        bl = [to_blob(i) for i in items]
        return Blob(set().union(*[b.alts for b in bl]), all(b.sure for b in bl), axis == 0 and all(b.diag for b in bl))

    # ------------------------------------------------------------------ statements
    def exec_block(self, stmts, env, fr):
        """-> env at the end of the block, or None when every path returned/raised."""
        for st in stmts:
            self.tick()
            env = self.exec_stmt(st, env, fr)
            if env is None:
                return None
        return env

    def exec_stmt(self, st, env, fr):
        if isinstance(st, ast.Expr):
            if isinstance(st.value, ast.Constant):
                return env
            self.eval(st.value, env, fr)
            return env
        if isinstance(st, ast.Assign):
            v = self.eval(st.value, env, fr)
            for t in st.targets:
                self.bind(t, v, env, fr)
            return env
        if isinstance(st, ast.AnnAssign):
            if st.value is not None:
                self.bind(st.target, self.eval(st.value, env, fr), env, fr)
            return env
        if isinstance(st, ast.AugAssign):
            cur = self.eval(_as_load(st.target), env, fr)
            v = self.eval(st.value, env, fr)
            try:
                new = self.binop(st.op, cur, v)
            except GiveUp as e:
                new = self.top(str(e))
            self.bind(st.target, new, env, fr)
            return env
        if isinstance(st, ast.Return):
            fr.returns.append(self.eval_raw(st.value, env, fr) if st.value is not None else PYNONE)
            return None
        if isinstance(st, ast.Raise):
            return None
        if isinstance(st, ast.If):
            self.eval(st.test, env, fr)
            e1 = self.exec_block(st.body, dict(env), fr)
            e2 = self.exec_block(st.orelse, dict(env), fr)
            return self.merge(e1, e2)
        if isinstance(st, (ast.For, ast.AsyncFor)):
            return self.exec_for(st, env, fr)
        if isinstance(st, ast.While):
            self.havoc(st, env)
            out = self.exec_block(st.body, dict(env), fr)
            self.havoc(st, env)
            return env
        if isinstance(st, (ast.With, ast.AsyncWith)):
            for it in st.items:
                v = self.eval(it.context_expr, env, fr)
                if it.optional_vars is not None:
                    self.bind(it.optional_vars, Opaque() if not depends(v) else self.top("with-target"), env, fr)
            return self.exec_block(st.body, env, fr)
        if isinstance(st, ast.Try):
            pre = dict(env)
            e = self.exec_block(st.body, dict(env), fr)
            outs = [e]
            for h in st.handlers:
                he = dict(pre)
                self.havoc(ast.Module(body=st.body, type_ignores=[]), he)
                if h.name:
                    he[h.name] = Opaque()
                outs.append(self.exec_block(h.body, he, fr))
            if e is not None and st.orelse:
                outs[0] = self.exec_block(st.orelse, e, fr)
            res = None
            for o in outs:
                res = self.merge(res, o)
            if st.finalbody and res is not None:
                res = self.exec_block(st.finalbody, res, fr)
            return res
        if isinstance(st, (ast.Pass, ast.Assert, ast.Global, ast.Nonlocal, ast.Delete)):
            return env
        if isinstance(st, (ast.Import, ast.ImportFrom)):
            for a in st.names:
                env[(a.asname or a.name).split(".")[0]] = FuncV("unknown", a.name)
            return env
        if isinstance(st, (ast.FunctionDef, ast.AsyncFunctionDef, ast.ClassDef)):
            env[st.name] = FuncV("unknown", st.name)
            return env
        if isinstance(st, (ast.Break, ast.Continue)):
            return env
        self.havoc(st, env)
        return env

    def exec_for(self, st, env, fr):
        has_jump = any(isinstance(n, (ast.Break, ast.Continue)) for n in ast.walk(st))
        items, summ = self.iterate(self.eval(st.iter, env, fr))
        if items is not None and len(items) <= 64 and not has_jump:
            for it in items:
                self.bind(st.target, it, env, fr)
                env = self.exec_block(st.body, env, fr)
                if env is None:
                    return None
            if st.orelse:
                env = self.exec_block(st.orelse, env, fr)
            return env
        if items is not None:
            summ = join_all(items) if items else Opaque()
        cur = dict(env)
        stable = False
        if not has_jump:
            for _ in range(3):
                body_env = dict(cur)
                self.bind(st.target, summ, body_env, fr)
                saved = list(fr.returns)
                out = self.exec_block(st.body, body_env, fr)
                new = self.merge(dict(cur), out)
                if _env_same(new, cur):
                    stable = True
                    break
                fr.returns[:] = saved
                cur = new
        if not stable:
            self.havoc(st, cur)
            body_env = dict(cur)
            self.bind(st.target, summ, body_env, fr)
            self.exec_block(st.body, body_env, fr)
            self.havoc(st, cur)
        if st.orelse:
            return self.exec_block(st.orelse, cur, fr)
        return cur

    def havoc(self, node, env):
        for n in ast.walk(node):
            nm = None
            if isinstance(n, ast.Name) and isinstance(n.ctx, (ast.Store, ast.Del)):
                nm = n.id
            elif isinstance(n, (ast.Subscript, ast.Attribute)) and isinstance(n.ctx, ast.Store):
                nm = _root_name(n)
            elif isinstance(n, ast.Call) and isinstance(n.func, ast.Attribute) and n.func.attr not in NONMUTATING_METHODS:
                nm = _root_name(n.func.value) if isinstance(n.func.value, ast.Name) else None
            if nm is not None and (nm in env or isinstance(n, ast.Name)):
                env[nm] = self.top(f"`{nm}` assigned in an unmodelled statement ({type(node).__name__})")

    def merge(self, e1, e2):
        if e1 is None:
            return e2
        if e2 is None:
            return e1
        out = {}
        for k in set(e1) | set(e2):
            if k in e1 and k in e2:
                a, b = e1[k], e2[k]
                try:
                    out[k] = a if a is b else join(a, b)
                except GiveUp as e:
                    out[k] = self.top(f"{e} joining `{k}`")
            else:
                out[k] = e1.get(k, e2.get(k))
        return out


class _StarOpaque:
    pass


PLAIN_DECORATORS = {"staticmethod", "override", "lru_cache", "cache", "functools.lru_cache", "functools.cache", "typing.override"}


def plain_function(node):
    """only decorators that do not change what the function returns; not a generator."""
    for d in node.decorator_list:
        if isinstance(d, ast.Call):
            d = d.func
        if (ast.unparse(d) if isinstance(d, (ast.Name, ast.Attribute)) else "?") not in PLAIN_DECORATORS:
            return False
    for n in ast.walk(node):
        if isinstance(n, (ast.Yield, ast.YieldFrom)):
            return False
    return True


def _axes_ints(v):
    if isinstance(v, PyList):
        return [to_int(i) for i in v.items]
    n = to_int(v)
    return [n]


def _as_load(t):
    import copy

    t2 = copy.copy(t)
    if hasattr(t2, "ctx"):
        t2.ctx = ast.Load()
    return t2


def _same(a, b):
    try:
        return type(a) is type(b) and a == b
    except Exception:  # noqa: BLE001
        return False


def _env_same(a, b):
    if set(a) != set(b):
        return False
    return all(a[k] is b[k] or _same(a[k], b[k]) for k in a)


# =============================================================================================
# public API


@dataclass(frozen=True)
class Support:
    freqs: frozenset | None  # None = Top
    exact: bool = False

    def __repr__(self):
        if self.freqs is None:
            return "Top"
        return "{" + ", ".join(str(f) for f in sorted(self.freqs)) + "}" + ("" if self.exact else "~")


@dataclass
class MatrixInfo:
    cls: object
    node: object  # FuncInfo of the resolved compute_matrix (None if there is none below the base)
    params: list = field(default_factory=list)
    support: dict = field(default_factory=dict)
    shape: str = "unknown"
    why: str = ""
    n_returns: int = 0
    touched: frozenset = frozenset()


def _fgcd(a, b):
    a, b = Fraction(a), Fraction(b)
    return Fraction(gcd(a.numerator * b.denominator, b.numerator * a.denominator), a.denominator * b.denominator)


def period(support):
    """period of the matrix in this parameter as a multiple of pi: 2*pi/gcd(|f|, f != 0) -> Fraction k
    meaning k*pi.  None for Top or a constant."""
    if support is None or support.freqs is None:
        return None
    nz = [abs(f) for f in support.freqs if f]
    if not nz:
        return None
    g = nz[0]
    for f in nz[1:]:
        g = _fgcd(g, f)
    return Fraction(2) / g


def closure(support):
    """frequencies of expectation values: {|f - f'|} minus {0} (None for Top)."""
    if support is None or support.freqs is None:
        return None
    fs = list(support.freqs)
    return frozenset(abs(a - b) for a in fs for b in fs if a != b)


def all_equal_modulus(support):
    """all frequencies have the same non-zero modulus (generator proportional to a unitary)."""
    if support is None or support.freqs is None or not support.freqs:
        return None
    ms = {abs(f) for f in support.freqs}
    return len(ms) == 1 and 0 not in ms


def is_operator_class(cls):
    return any(c.fq in OPERATOR_ROOTS for c in cls.mro())


def resolve_compute_matrix(cls):
    """(defining class, FuncInfo) of the compute_matrix the class resolves to below the base classes."""
    dc, f = cls.lookup("compute_matrix", stop_at=BASE_STOP)
    if isinstance(f, FuncInfo):
        return dc, f
    return None, None


def _literal_names(node):
    if isinstance(node, ast.Constant) and isinstance(node.value, str):
        return [node.value]
    if isinstance(node, (ast.Tuple, ast.List)):
        out = []
        for e in node.elts:
            if isinstance(e, ast.Constant) and isinstance(e.value, str):
                out.append(e.value)
            else:
                return None
        return out
    return None


def matrix_params(cls, fi):
    """ordered gate parameters among the positional parameters of compute_matrix."""
    a = fi.node.args
    pos = [x.arg for x in a.posonlyargs + a.args]
    n_def = len(a.defaults)
    nodefault = pos[: len(pos) - n_def] if n_def else list(pos)
    wires_like = {"wires", "wire", "work_wires", "control_wires", "target_wires"}
    _, dyn = cls.lookup("dynamic_argnames", stop_at=BASE_STOP)
    if dyn is not None and not isinstance(dyn, FuncInfo):
        names = _literal_names(dyn)
        if names is not None:
            return [p for p in pos if p in names and p not in wires_like]
    _, npar = cls.lookup("num_params", stop_at=BASE_STOP)
    if isinstance(npar, ast.Constant) and isinstance(npar.value, int):
        return [p for p in pos[: npar.value] if p not in wires_like]
    return [p for p in nodefault if p not in wires_like]


def nonscalar_params(cls, params):
    """gate parameters the class itself declares as arrays: ndim_params entry != 0 or a subscripted
    arg_specs entry (``Complex[-1, -1]``) -> {param: reason}."""
    out = {}
    _, nd = cls.lookup("ndim_params", stop_at=BASE_STOP)
    if isinstance(nd, ast.Tuple) and len(nd.elts) == len(params):
        for p, e in zip(params, nd.elts):
            if not (isinstance(e, ast.Constant) and e.value == 0):
                out[p] = "ndim_params"
    _, sp = cls.lookup("arg_specs", stop_at=BASE_STOP)
    if isinstance(sp, ast.Dict):
        for k, v in zip(sp.keys, sp.values):
            if isinstance(k, ast.Constant) and k.value in params and isinstance(v, ast.Subscript):
                out[k.value] = "arg_specs"
    return out


def _collect(v, out):
    """(atom, sure) pairs of every entry of a returned value."""
    if isinstance(v, Sc):
        for a in v.alts:
            out.append((a, v.sure))
    elif isinstance(v, Arr):
        for s in set(v.flat):
            _collect(s, out)
    elif isinstance(v, Blob):
        for a in v.alts:
            out.append((a, v.sure))
    else:
        raise GiveUp(f"return value is {type(v).__name__}")


def _shape_of(v):
    if isinstance(v, Blob):
        return "diagonal" if v.diag else "unknown"
    if isinstance(v, Arr) and v.rank == 2 and v.shape[0] == v.shape[1]:
        if arr_is_diag(v):
            return "diagonal"
        n = v.shape[0]
        if any(sc_surely_nonzero(v.flat[i * n + j]) for i in range(n) for j in range(n) if i != j):
            return "notdiagonal"
    return "unknown"


_CACHE = {}


def analyse_matrix(ix, cls) -> MatrixInfo:
    key = (id(ix), cls.fq)
    hit = _CACHE.get(key)
    if hit is not None and hit[0] is ix:
        return hit[1]
    info = _analyse(ix, cls)
    if len(_CACHE) > 4000:
        _CACHE.clear()
    _CACHE[key] = (ix, info)
    return info


def _analyse(ix, cls):
    dc, fi = resolve_compute_matrix(cls)
    if fi is None:
        return MatrixInfo(cls, None, why="no compute_matrix below the operator base classes")
    info = MatrixInfo(cls, fi)
    if not any(isinstance(d, ast.Name) and d.id == "staticmethod" for d in fi.node.decorator_list) or not plain_function(fi.node):
        info.params = matrix_params(cls, fi)
        info.support = {p: Support(None, False) for p in info.params}
        info.why = "Top: compute_matrix is not a plain staticmethod"
        return info
    info.params = matrix_params(cls, fi)
    top = lambda why: {p: Support(None, False) for p in info.params}  # noqa: E731
    it = Interp2(ix)
    a = fi.node.args
    env = {}
    nonscalar = nonscalar_params(cls, info.params)
    for x in a.posonlyargs + a.args + a.kwonlyargs:
        if x.arg in nonscalar:
            env[x.arg] = TopV(f"`{x.arg}` is declared as a non-scalar parameter ({nonscalar[x.arg]})")
            it.tops.append(env[x.arg].why)
        elif x.arg in info.params:
            env[x.arg] = Sc([Lin({x.arg: ONE}, Cx(0))])
        else:
            ann = x.annotation
            env[x.arg] = Opaque(isinstance(ann, ast.Name) and ann.id == "int")
    if a.vararg:
        env[a.vararg.arg] = Opaque()
    if a.kwarg:
        env[a.kwarg.arg] = Opaque()
    try:
        rets = it.run_body(fi, env, Frame(fi.module, func=fi))
    except Budget:
        info.support, info.why = top(""), "Top: step budget exhausted"
        return info
    except RecursionError:
        info.support, info.why = top(""), "Top: recursion limit"
        return info
    except GiveUp as e:
        info.support, info.why = top(""), f"Top: {e}"
        return info
    info.touched = frozenset(it.touched)
    rets = [r for r in rets if r is not PYNONE]
    info.n_returns = len(rets)
    if not rets:
        info.support, info.why = top(""), "Top: no value is returned"
        return info
    per_ret = []
    shapes = []
    for r in rets:
        try:
            if isinstance(r, (PyList, Opaque)):
                r = as_array(r)
            if isinstance(r, TopV):
                raise GiveUp(r.why)
            atoms = []
            _collect(r, atoms)
        except GiveUp as e:
            why = str(e)
            if it.tops and why in ("Top", "?"):
                why = it.tops[0]
            info.support, info.why = top(""), f"Top: {why}"
            return info
        per_ret.append(atoms)
        shapes.append(_shape_of(r))
    if all(s == "diagonal" for s in shapes):
        info.shape = "diagonal"
    elif any(s == "notdiagonal" for s in shapes) and not any(s == "diagonal" for s in shapes):
        info.shape = "notdiagonal"
    for p in info.params:
        allf, sures, is_top = set(), [], False
        for atoms in per_ret:
            fs, sure = set(), set()
            for atom, s in atoms:
                if isinstance(atom, Lin):
                    if p in atom.coeffs:
                        is_top = True
                    else:
                        fs.add(Fraction(0))
                        if s:
                            sure.add(Fraction(0))
                    continue
                for k, c in atom.terms.items():
                    f = dict(k).get(p, Fraction(0))
                    fs.add(f)
                    if s and c != UZ:
                        sure.add(f)
            allf |= fs
            sures.append(sure)
        if is_top:
            info.support[p] = Support(None, False)
            info.why = info.why or f"Top: `{p}` reaches the matrix un-exponentiated (polynomial entry)"
        else:
            info.support[p] = Support(frozenset(allf), bool(allf) and all(s == allf for s in sures))
    if not info.why:
        info.why = f"resolved: {len(rets)} return path(s), {len(it.touched)} function bodies"
        if it.tops:
            info.why += f"; note: {it.tops[0]}"
    return info


def operator_classes_with_matrix(ix):
    """every operator class whose resolved compute_matrix takes at least one gate parameter."""
    out = []
    for c in ix.classes:
        if not is_operator_class(c):
            continue
        dc, fi = resolve_compute_matrix(c)
        if fi is None:
            continue
        if matrix_params(c, fi):
            out.append(c)
    return out
