"""Seeded variants for C13 (measurement-based decompositions: outcome def/use, wire cover, burnable work wires)."""

from ..variants import fire, silent

NP = "pennylane/ops/qubit/non_parametric_ops.py"
CO = "pennylane/ops/op_math/controlled_ops.py"
IQ = "pennylane/ops/functions/iterative_qpe.py"
TA = "pennylane/templates/subroutines/arithmetic/temporary_and.py"

# ------------------------------------------------------------------------------------------ wirecover
fire("C13", "hadamard-ppm-work-wire-never-corrected",
     (NP, "        qp.cond(m1, qp.Z)(work_wires[0])  # Reset work wire to |+>\n", ""),
     "R-C13-wirecover", "work_wires")
fire("C13", "ppm-helper-first-wire-uncovered",
     (CO, "        qp.cond(m1, pauli0)(wires[0])\n", ""),
     "R-C13-wirecover", "wires[0]")
fire("C13", "ppm-helper-correction-on-wrong-wire",
     (CO, "        qp.cond(m0 != m2, pauli1)(wires[1])\n", "        qp.cond(m0 != m2, pauli1)(wires[0])\n"),
     "R-C13-wirecover", "wires[1]")
fire("C13", "hadamard-ppm-data-wire-uncovered",
     (NP, "        qp.cond(m0 == m1, qp.Y)(wires)\n", ""),
     "R-C13-wirecover", "wires[0]")

# ------------------------------------------------------------------------------------------ use
fire("C13", "ppm-helper-outcome-m2-unused",
     (CO, "        qp.cond(m0 != m2, pauli1)(wires[1])\n        qp.cond(m1 & (m0 != m2), qp.GlobalPhase)(np.pi)\n        qp.cond(m2, qp.Z)(work_wires[0])",
          "        qp.cond(m0 != m0, pauli1)(wires[1])\n        qp.cond(m1 & (m0 != m0), qp.GlobalPhase)(np.pi)\n        qp.cond(m0, qp.Z)(work_wires[0])"),
     "R-C13-use", "m2")
fire("C13", "adjoint-temporary-and-outcome-dropped",
     (TA, "    ops.cond(m_0, ops.CZ)(wires=base.wires[:2])\n", "    ops.CZ(wires=base.wires[:2])\n"),
     "R-C13-use", "m_0")
fire("C13", "adjoint-temporary-and-unreset-measure-discarded",
     (TA, "    m_0 = ops.measure(base.wires[2], reset=True)\n    ops.cond(m_0, ops.CZ)(wires=base.wires[:2])\n", "    ops.measure(base.wires[2])\n    ops.CZ(wires=base.wires[:2])\n"),
     "R-C13-use", "_adjoint_temporary_and")
fire("C13", "iterative-qpe-outcome-not-recorded",
     [(IQ, "            measurements = measurements.at[iters - i - 1].set(m)\n", "            measurements = measurements.at[iters - i - 1].set(0)\n"),
      (IQ, "            measurements[iters - i - 1] = m\n", "            measurements[iters - i - 1] = 0\n")],
     "R-C13-use", "iterative_qpe")

# ------------------------------------------------------------------------------------------ burn
fire("C13", "hadamard-ppm-measured-wire-restored",
     (NP, '    with qp.allocate(1, state="zero", restored=False) as work_wires:\n        qp.Z(wires)',
          '    with qp.allocate(1, state="zero", restored=True) as work_wires:\n        qp.Z(wires)'),
     "R-C13-burn", "_hadamard_ppm")
fire("C13", "cz-lattice-surgery-declares-zeroed",
     (CO, '@qp.register_resources(_cz_lattice_surgery_ppm_resources, work_wires={"burnable": 1})', '@qp.register_resources(_cz_lattice_surgery_ppm_resources, work_wires={"zeroed": 1})'),
     "R-C13-burn", "_cz_lattice_surgery_ppm")
fire("C13", "ppm-helper-measured-wire-restored",
     (CO, '    with qp.allocate(1, state="zero", restored=False) as work_wires:\n        m0 = pauli_measure(pauli0',
          '    with qp.allocate(1, state="zero", restored=True) as work_wires:\n        m0 = pauli_measure(pauli0'),
     "R-C13-burn", "_cnot_lattice_surgery_ppm")

fire("C13", "ppm-helper-ancilla-in-any-state",
     (CO, '    with qp.allocate(1, state="zero", restored=False) as work_wires:\n        m0 = pauli_measure(pauli0',
          '    with qp.allocate(1, state="any", restored=False) as work_wires:\n        m0 = pauli_measure(pauli0'),
     "R-C13-burn", "_cy_lattice_surgery_ppm")
fire("C13", "hadamard-ppm-ancilla-in-any-state",
     (NP, '    with qp.allocate(1, state="zero", restored=False) as work_wires:\n        qp.Z(wires)',
          '    with qp.allocate(1, state="any", restored=False) as work_wires:\n        qp.Z(wires)'),
     "R-C13-burn", "_hadamard_ppm")
fire("C13", "hadamard-ppm-declares-garbage",
     (NP, '@qp.register_resources(_hadamard_ppm_resources, work_wires={"burnable": 1})', '@qp.register_resources(_hadamard_ppm_resources, work_wires={"garbage": 1})'),
     "R-C13-burn", "_hadamard_ppm")

# ------------------------------------------------------------------------------------------ controls
silent("C13", "outcome-renamed",
       [(NP, '        m0 = pauli_measure("YY", [wires[0], work_wires[0]])\n        m1 = pauli_measure("X", work_wires)\n        qp.cond(m0 == m1, qp.Y)(wires)\n        qp.cond(m0 == m1, qp.GlobalPhase)(np.pi / 2)',
             '        outcome = pauli_measure("YY", [wires[0], work_wires[0]])\n        m1 = pauli_measure("X", work_wires)\n        qp.cond(outcome == m1, qp.Y)(wires)\n        qp.cond(outcome == m1, qp.GlobalPhase)(np.pi / 2)')])
silent("C13", "predicate-bound-to-a-local",
       [(NP, "        qp.cond(m0 == m1, qp.Y)(wires)\n", "        flip = m0 == m1\n        qp.cond(flip, qp.Y)(wires)\n")])
silent("C13", "correction-on-whole-work-register",
       [(NP, "        qp.cond(m1, qp.Z)(work_wires[0])  # Reset work wire to |+>\n", "        qp.cond(m1, qp.Z)(work_wires)\n")])
silent("C13", "iterative-qpe-outcome-through-alias",
       [(IQ, "            measurements[iters - i - 1] = m\n", "            outcome = m\n            measurements[iters - i - 1] = outcome\n")])
silent("C13", "correction-with-keyword-wires",
       [(CO, "        qp.cond(m1, pauli0)(wires[0])\n", "        qp.cond(m1, pauli0)(wires=wires[0])\n")])
silent("C13", "allocate-state-as-enum",
       [(NP, '    with qp.allocate(1, state="zero", restored=False) as work_wires:\n        qp.Z(wires)',
             '    with qp.allocate(1, qp.allocation.AllocateState.ZERO, restored=False) as work_wires:\n        qp.Z(wires)')])
