"""Seeded variants for C05 (cache-key soundness).  The standing findings of the unedited tree
(RX/RY/RZ/Rot/U3.theta reduced mod 2*pi in _canonicalize_dynamic, listed in known_findings.json) are part of the baseline."""

from ..variants import fire, silent

P = "C05"
OP2 = "pennylane/core/operator/operator2.py"
CTRL = "pennylane/ops/op_math/controlled.py"
QS = "pennylane/core/qscript.py"
VN = "pennylane/measurements/vn_entropy.py"
MI = "pennylane/measurements/mutual_info.py"
SYM = "pennylane/ops/op_math/symbolicop.py"
EXP = "pennylane/ops/op_math/exp.py"

# ---- R-C05-period ----------------------------------------------------------------------------
# (RX/RY/RZ/Rot/U3.theta reduced mod 2*pi are known findings of the baseline: fire variants below must add NEW keys)
BASEPY = "pennylane/core/operator/base.py"
_EIGHT = '("RX", "RY", "RZ", "PhaseShift", "Rot", "U1", "U2", "U3")'
_TWO_PI = "    if op_name is not None and op_name in " + _EIGHT + ":\n        mod_val = 2 * np.pi\n"
_FOUR_PI_HEAD = '    elif op_name is not None and op_name in ("CRX", "CRY", "CRZ", "CRot"):\n'
_COMMENT = ("        # Rot(θ) ∈ SU(2) double-covers SO(3) via center {-I, I}, so θ ↦ θ+2π is global phase -I;\n"
            "        # in CRot, -I becomes a relative phase on |1⟩, breaking 2π periodicity to 4π.\n")
_FOUR_PI_MOD = "        mod_val = 4 * np.pi\n    else:\n        mod_val = None"
_IF_CHAIN = _TWO_PI + _FOUR_PI_HEAD + _COMMENT + _FOUR_PI_MOD
_DEF = "def _canonicalize_dynamic(d, op_name=None) -> Hashable:\n"
_EIGHT_NAMES = ("RX", "RY", "RZ", "PhaseShift", "Rot", "U1", "U2", "U3")

fire(P, "canonicalize-crx-list-mod-2pi",
     (OP2, _FOUR_PI_MOD, _FOUR_PI_MOD.replace("4 * np.pi", "2 * np.pi")),
     "R-C05-period", "CRX.phi")
fire(P, "canonicalize-crot-moved-into-2pi-list",
     [(OP2, _TWO_PI, _TWO_PI.replace('"U3")', '"U3", "CRot")')),
      (OP2, _FOUR_PI_HEAD, _FOUR_PI_HEAD.replace(', "CRot")', ")"))],
     "R-C05-period", "CRot.theta")
fire(P, "canonicalize-isingxx-added-mod-2pi",
     [(OP2, _TWO_PI, _TWO_PI.replace('"U3")', '"U3", "IsingXX")'))],
     "R-C05-period", "IsingXX.phi")
fire(P, "canonicalize-phaseshift-mod-pi",
     [(OP2, _FOUR_PI_HEAD,
            '    elif op_name is not None and op_name in ("ControlledPhaseShift",):\n        mod_val = np.pi\n' + _FOUR_PI_HEAD)],
     "R-C05-period", "ControlledPhaseShift.phi")
fire(P, "canonicalize-first-list-mod-pi",
     [(OP2, _TWO_PI, _TWO_PI.replace("mod_val = 2 * np.pi", "mod_val = np.pi"))],
     "R-C05-period", "PhaseShift.phi")


# the same canonicalisation refactored into a module-level table + lookup (no if-chain at all)
def _table_refactor(two_pi_names, four_pi_names, lookup="    mod_val = _ROTATION_PERIODS.get(op_name)"):
    table = ("_ROTATION_PERIODS = dict.fromkeys(\n    (" + ", ".join(repr(n) for n in two_pi_names) + "),\n    2 * np.pi,\n) | dict.fromkeys(("
             + ", ".join(repr(n) for n in four_pi_names) + ",), 4 * np.pi)\n\n\n")
    return [(OP2, _DEF, table + _DEF), (OP2, _IF_CHAIN, lookup)]


fire(P, "canonicalize-table-refactor-crx-under-2pi",
     _table_refactor(_EIGHT_NAMES + ("CRX", "CRY", "CRZ"), ("CRot",)),
     "R-C05-period", "CRX.phi")
fire(P, "canonicalize-table-refactor-subscript-lookup-crz-under-2pi",
     _table_refactor(_EIGHT_NAMES + ("CRZ",), ("CRX", "CRY", "CRot"),
                     lookup="    mod_val = _ROTATION_PERIODS[op_name] if op_name in _ROTATION_PERIODS else None"),
     "R-C05-period", "CRZ.phi")
fire(P, "canonicalize-equality-chain-cry-under-2pi",
     [(OP2, _IF_CHAIN, '    if op_name == "CRY" or op_name in dict.fromkeys(' + _EIGHT + ', 0):\n        mod_val = np.pi * 2\n'
                       '    elif not (op_name is None or op_name not in ["CRX", "CRZ", "CRot"]):\n'
                       "        mod_val = 4 * np.pi\n    else:\n        mod_val = None")],
     "R-C05-period", "CRY.phi")
fire(P, "controlled-hash-base-mod-2pi",
     (CTRL, "math.round(math.real(d) % (4 * np.pi), 10)", "math.round(math.real(d) % (2 * np.pi), 10)"),
     "R-C05-period", "Controlled.__hash__")
fire(P, "controlled-hash-new-table-entry",
     (CTRL, '        if self.base.name in ("RX", "RY", "RZ", "Rot"):',
            '        if self.base.name in ("MultiRZ",):\n            base_hash = hash(float(math.real(self.base.data[0]) % (2 * np.pi)))\n'
            '        elif self.base.name in ("RX", "RY", "RZ", "Rot"):'),
     "R-C05-period", "MultiRZ.theta")

# ---- R-C05-fingerprint -----------------------------------------------------------------------
fire(P, "qscript-hash-drops-shots",
     (QS, "        fingerprint.extend(self.shots)\n", ""),
     "R-C05-fingerprint", "QuantumScript.hash")
fire(P, "qscript-hash-drops-trainable-params",
     (QS, "        fingerprint.extend(self.trainable_params)\n", ""),
     "R-C05-fingerprint", "trainable_params")
fire(P, "qscript-new-stored-field-not-hashed",
     [(QS, "        trainable_params: Sequence[int] | None = None,\n    ):\n        self._ops = [] if ops is None else list(ops)",
           "        trainable_params: Sequence[int] | None = None,\n        noise_scale: float = 0.0,\n    ):\n        self._noise_scale = noise_scale\n"
           "        self._ops = [] if ops is None else list(ops)")],
     "R-C05-fingerprint", "noise_scale")

# ---- R-C05-mpstate ---------------------------------------------------------------------------
fire(P, "vnentropy-hash-deleted",
     (VN, '    def __hash__(self):\n        """int: returns an integer hash uniquely representing the measurement process"""\n'
          "        fingerprint = (self.__class__.__name__, tuple(self.wires.tolist()), self.log_base)\n        return hash(fingerprint)\n", ""),
     "R-C05-mpstate", "VnEntropyMP.log_base")
fire(P, "mutualinfo-hash-drops-log-base",
     (MI, "            tuple(self.raw_wires[1].tolist()),\n            self.log_base,\n        )", "            tuple(self.raw_wires[1].tolist()),\n        )"),
     "R-C05-mpstate", "MutualInfoMP.log_base")
fire(P, "vnentropy-gains-unhashed-attribute",
     (VN, "        self.log_base = log_base\n        super().__init__(wires=wires)", "        self.log_base = log_base\n        self.base_label = str(log_base)\n        super().__init__(wires=wires)"),
     "R-C05-mpstate", "VnEntropyMP.base_label")

# ---- R-C05-opstate ---------------------------------------------------------------------------
fire(P, "scalarsymbolicop-hash-drops-scalar",
     (SYM, "                str(self.name),\n                str(self.scalar),\n                hash(self.base),", "                str(self.name),\n                hash(self.base),"),
     "R-C05-opstate", "ScalarSymbolicOp.__hash__")
fire(P, "controlled-hash-drops-control-values",
     (CTRL, "                tuple(self.control_wires.tolist()),\n                tuple(self.control_values),\n                tuple(self.work_wires.tolist()),",
            "                tuple(self.control_wires.tolist()),\n                tuple(self.work_wires.tolist()),"),
     "R-C05-opstate", "control_values")
fire(P, "exp-hash-drops-coeff",
     (EXP, "hash((str(self.name), hash(self.base), str(self.coeff)))", "hash((str(self.name), hash(self.base)))"),
     "R-C05-opstate", "Exp.__hash__")

# ---- behaviour-preserving controls -------------------------------------------------------------
silent(P, "canonicalize-modulus-respelled",
       [(OP2, _FOUR_PI_MOD, _FOUR_PI_MOD.replace("4 * np.pi", "np.pi * 4.0"))])
silent(P, "canonicalize-crx-names-as-set",
       [(OP2, _FOUR_PI_HEAD, '    elif op_name is not None and op_name in {"CRot", "CRZ", "CRY", "CRX"}:\n')])
silent(P, "controlled-hash-modulus-8pi-over-2",
       [(CTRL, "math.round(math.real(d) % (4 * np.pi), 10)", "math.round(math.real(d) % (8 * np.pi / 2), 10)")])
silent(P, "qscript-hash-reordered-and-direct-attribute",
       [(QS, "        fingerprint.extend(self.trainable_params)\n        fingerprint.extend(self.shots)\n",
             "        fingerprint.extend(self._shots)\n        fingerprint.extend(self.trainable_params)\n")])
silent(P, "vnentropy-hash-fields-reordered",
       [(VN, "        fingerprint = (self.__class__.__name__, tuple(self.wires.tolist()), self.log_base)\n        return hash(fingerprint)",
             "        base = self.log_base\n        return hash((base, tuple(self.wires.tolist()), self.__class__.__name__))")])
silent(P, "exp-hash-reads-scalar-directly",
       [(EXP, "hash((str(self.name), hash(self.base), str(self.coeff)))", "hash((str(self.name), str(self.scalar), hash(self.base)))")])
silent(P, "canonicalize-table-refactor-same-moduli",
       _table_refactor(_EIGHT_NAMES, ("CRX", "CRY", "CRZ", "CRot")))
silent(P, "canonicalize-table-refactor-dict-display-and-subscript",
       [(OP2, _DEF, '_TWO = {"PhaseShift": 2 * np.pi, "U1": 2 * np.pi, "U2": np.pi * 2, **dict.fromkeys(("RX", "RY", "RZ", "Rot", "U3"), 2 * np.pi)}\n'
                    '_ROTATION_PERIODS = {**_TWO, **dict.fromkeys(["CRX", "CRY", "CRZ", "CRot"], 8 * np.pi / 2)}\n\n\n' + _DEF),
        (OP2, _IF_CHAIN, "    mod_val = _ROTATION_PERIODS[op_name] if op_name in _ROTATION_PERIODS else None")])
silent(P, "canonicalize-equality-chain-same-moduli",
       [(OP2, _IF_CHAIN, "    if op_name in dict.fromkeys(" + _EIGHT + ", 0):\n        mod_val = np.pi * 2\n"
                         '    elif not (op_name is None or op_name not in ["CRX", "CRY", "CRZ", "CRot"]):\n'
                         "        mod_val = 4 * np.pi\n    else:\n        mod_val = None")])

# ---- R-C05-strhash (rule in props/c05_extra.py) ---------------------------------------------------
fire(P, "canonicalize-dynamic-plain-str-of-data",
     (OP2, "    return _stringify_data(_mod_and_round(d, mod_val))", "    return str(_mod_and_round(d, mod_val))"),
     "R-C05-strhash", "_canonicalize_dynamic")
fire(P, "process-data-plain-str-of-data",
     (BASEPY, "_stringify_data(_mod_and_round(d, mod_val)) for d in op.data", "str(_mod_and_round(d, mod_val)) for d in op.data"),
     "R-C05-strhash", "_process_data")
silent(P, "stringify-data-local-renamed",
       [(BASEPY, "    arr = np.ascontiguousarray(qp.math.to_numpy(x))\n    return f\"{arr.shape}{arr.dtype}{hashlib.sha256(arr.tobytes()).hexdigest()}\"",
                 "    dense = np.ascontiguousarray(qp.math.to_numpy(x))\n    return f\"{dense.shape}{dense.dtype}{hashlib.sha256(dense.tobytes()).hexdigest()}\"")])

# --- R-C05-order / R-C05-stale
_CM = "pennylane/core/measurements.py"
_QS = "pennylane/core/qscript.py"
fire("C05", "measurement-hash-forgets-wire-order",
     (_CM, "            tuple(self.wires.tolist()),", "            frozenset(self.wires.tolist()),"), "R-C05-order", "MeasurementProcess.__hash__")
fire("C05", "mutual-info-hash-sorts-subsystem-wires",
     ("pennylane/measurements/mutual_info.py", "            tuple(self.raw_wires[0].tolist()),", "            tuple(sorted(self.raw_wires[0].tolist())),"),
     "R-C05-order", "MutualInfoMP.__hash__")
fire("C05", "copy-carries-memoised-hash-under-truthiness-guard",
     (_QS, "        # copy cached properties when relevant\n",
           "        if \"hash\" in self.__dict__ and not any(update.get(k) for k in (\"operations\", \"measurements\", \"shots\", \"trainable_params\")):\n"
           "            new_qscript.__dict__[\"hash\"] = self.__dict__[\"hash\"]\n        # copy cached properties when relevant\n"),
     "R-C05-stale", "QuantumScript.copy")
fire("C05", "copy-carries-memoised-hash-when-only-operations-kept",
     (_QS, "        # copy cached properties when relevant\n",
           "        if \"operations\" not in update and \"hash\" in self.__dict__:\n            new_qscript.__dict__[\"hash\"] = self.__dict__[\"hash\"]\n        # copy cached properties when relevant\n"),
     "R-C05-stale", "QuantumScript.copy")
silent("C05", "copy-carries-memoised-hash-only-for-plain-copies",
       [(_QS, "        # copy cached properties when relevant\n",
              "        if not update and \"hash\" in self.__dict__:\n            new_qscript.__dict__[\"hash\"] = self.__dict__[\"hash\"]\n        # copy cached properties when relevant\n")])

# --- R-C05-memo
_CO = "pennylane/ops/op_math/composite.py"
fire("C05", "composite-map_wires-clones-the-memoised-hash",
     (_CO, "            if attr not in {\"data\", \"operands\", \"_wires\", \"_overlapping_ops\", \"_hash\"}:\n                setattr(new_op, attr, value)\n        new_op._hash = None  # the cached hash describes the operator on its old wires\n",
           "            if attr not in {\"data\", \"operands\", \"_wires\", \"_overlapping_ops\"}:\n                setattr(new_op, attr, value)\n"),
     "R-C05-memo", "CompositeOp.map_wires")
silent("C05", "composite-map_wires-resets-memo-without-exclusion",
       [(_CO, "            if attr not in {\"data\", \"operands\", \"_wires\", \"_overlapping_ops\", \"_hash\"}:", "            if attr not in {\"data\", \"operands\", \"_wires\", \"_overlapping_ops\"}:")])

# --- R-C05-multiset / partition hash
fire("C05", "sum-hash-over-the-set-of-operands",
     ("pennylane/ops/op_math/sum.py", "        return hash((\"Sum\", hash(frozenset(Counter(self.operands).items()))))", "        return hash((\"Sum\", frozenset(self.operands)))"),
     "R-C05-multiset", "Sum.__hash__")
fire("C05", "mutual-info-hash-over-merged-wires",
     ("pennylane/measurements/mutual_info.py", "            tuple(self.raw_wires[0].tolist()),\n            tuple(self.raw_wires[1].tolist()),", "            tuple(self.wires.tolist()),"),
     "R-C05-order", "MutualInfoMP.__hash__")
