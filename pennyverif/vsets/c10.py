"""Seeded variants for C10 (registered decomposition rules: wires, generic symbolic rules, names, keys)."""

from ..variants import fire, silent

NP = "pennylane/ops/qubit/non_parametric_ops.py"
SQ = "pennylane/ops/qubit/parametric_ops_single_qubit.py"
CO = "pennylane/ops/op_math/controlled_ops.py"
MOT = "pennylane/templates/state_preparations/mottonen.py"

# ------------------------------------------------------------------------------------------ sym
fire("C10", "self_adjoint-attached-to-S",
     (NP, "add_decomps(S, _s_phaseshift)\n", 'add_decomps(S, _s_phaseshift)\nadd_decomps("Adjoint(S)", self_adjoint)\n'),
     "R-C10-sym", "Adjoint(S)")
fire("C10", "period-8-attached-to-S",
     (NP, 'add_decomps("Pow(S)", make_pow_decomp_with_period2(4),', 'add_decomps("Pow(S)", make_pow_decomp_with_period2(8),'),
     "R-C10-sym", "Pow(S)")
fire("C10", "rx-adjoint-loses-minus",
     (SQ, "        return RX(-self.phi, wires=self.wires)", "        return RX(self.phi, wires=self.wires)"),
     "R-C10-sym", "Adjoint(RX)")
fire("C10", "rx-pow-adds-exponent",
     (SQ, "        return [RX(self.phi * z, wires=self.wires)]", "        return [RX(self.phi + z, wires=self.wires)]"),
     "R-C10-sym", "Pow(RX)")
fire("C10", "paulix-pow-mod-4",
     (NP, "        z_mod2 = z % 2\n        if abs(z_mod2 - 0.5) < 1e-6:\n            return [SX(wires=self.wires)]",
          "        z_mod2 = z % 4\n        if abs(z_mod2 - 0.5) < 1e-6:\n            return [SX(wires=self.wires)]"),
     "R-C10-sym", "Pow(PauliX)")
fire("C10", "hadamard-adjoint-returns-other-class",
     (NP, "        return Hadamard(wires=self.wires)\n", "        return PauliX(wires=self.wires)\n"),
     "R-C10-sym", "Adjoint(Hadamard)")
fire("C10", "adjoint_rotation-attached-to-rot",
     (SQ, 'add_decomps("Adjoint(RX)", adjoint_rotation2)', 'add_decomps("Adjoint(RX)", adjoint_rotation2)\nadd_decomps("Adjoint(Rot)", adjoint_rotation2)'),
     "R-C10-sym", "Adjoint(Rot)")

# ------------------------------------------------------------------------------------------ wires
fire("C10", "toffoli-literal-wire",
     (CO, "    qp.Hadamard(wires=wires[2])\n    CNOT(wires=[wires[1], wires[2]])\n    qp.adjoint(qp.T(wires=wires[2]))\n    CNOT(wires=[wires[0], wires[2]])\n    qp.T(wires=wires[2])\n    CNOT(wires=[wires[1], wires[2]])",
          "    qp.Hadamard(wires=0)\n    CNOT(wires=[wires[1], wires[2]])\n    qp.adjoint(qp.T(wires=wires[2]))\n    CNOT(wires=[wires[0], wires[2]])\n    qp.T(wires=wires[2])\n    CNOT(wires=[wires[1], wires[2]])"),
     "R-C10-wires", "_toffoli")
fire("C10", "helper-literal-string-label",
     (CO, "    qp.PauliRot(-np.pi / 2, p0, wires=wires[0])\n", '    qp.PauliRot(-np.pi / 2, p0, wires="a")\n'),
     "R-C10-wires", "_pauli_ctrl_pauli_ppr")
fire("C10", "literal-through-local-variable",
     (CO, "def _cswap(wires: WiresLike, **__):\n    qp.CNOT([wires[2], wires[1]])\n", "def _cswap(wires: WiresLike, **__):\n    tgt = 1\n    qp.CNOT([wires[2], tgt])\n"),
     "R-C10-wires", "_cswap")
fire("C10", "ctrl-literal-control-wire",
     (NP, "    qp.adjoint(qp.S(wires[-1]))\n    qp.ctrl(\n        qp.X(wires[-1]), control=wires[:-1],", "    qp.adjoint(qp.S(wires[-1]))\n    qp.ctrl(\n        qp.X(wires[-1]), control=[0],"),
     "R-C10-wires", "_controlled_y_decomp")
fire("C10", "positional-wire-literal",
     (CO, "    qp.Hadamard(wires[2])\n    qp.Toffoli(wires)\n", "    qp.Hadamard(2)\n    qp.Toffoli(wires)\n"),
     "R-C10-wires", "_ccz_to_toffoli")

# ------------------------------------------------------------------------------------------ names
fire("C10", "registry-name-misspelled",
     (NP, 'add_decomps("Adjoint(Hadamard)", self_adjoint)', 'add_decomps("Adjoint(Hadamrd)", self_adjoint)'),
     "R-C10-names", "Hadamrd")
fire("C10", "registry-target-not-an-operator",
     (NP, "add_decomps(S, _s_phaseshift)\n", "add_decomps(S, _s_phaseshift)\nadd_decomps(Wires, _s_phaseshift)\n"),
     "R-C10-names", "Wires")

# ------------------------------------------------------------------------------------------ keys
fire("C10", "resource_params-key-renamed",
     (MOT, '        return {"num_wires": len(self.wires)}', '        return {"n_wires": len(self.wires)}'),
     "R-C10-keys", "MottonenStatePreparation")
fire("C10", "resource_keys-extra-key",
     (MOT, '    resource_keys = frozenset({"num_wires"})', '    resource_keys = frozenset({"num_wires", "num_params"})'),
     "R-C10-keys", "MottonenStatePreparation")
fire("C10", "resource-function-parameter-renamed",
     (CO, "def _cnot_cz_h_resources(wires: WiresLike):", "def _cnot_cz_h_resources(wire: WiresLike):"),
     "R-C10-keys", "_cnot_to_cz_h")
fire("C10", "resource-function-rejects-key",
     ("pennylane/ops/qubit/parametric_ops_multi_qubit.py", "def _multi_rz_decomposition_resources(theta: TensorLike, wires: WiresLike):",
      "def _multi_rz_decomposition_resources(theta: TensorLike):"),
     "R-C10-keys", "_multi_rz_decomposition")

# ------------------------------------------------------------------------------------------ controls
silent("C10", "adjoint-negation-as-product",
       [(SQ, "        return RX(-self.phi, wires=self.wires)", "        phi = self.phi\n        return RX(-1 * phi, wires=self.wires)")])
silent("C10", "adjoint-alias-vs-class-name",
       [(NP, "        return X(wires=self.wires)\n", "        return PauliX(self.wires)\n")])
silent("C10", "wire-through-local-alias",
       [(CO, "def _cswap(wires: WiresLike, **__):\n    qp.CNOT([wires[2], wires[1]])\n", "def _cswap(wires: WiresLike, **__):\n    wires = list(wires)\n    tgt = wires[1]\n    qp.CNOT([wires[2], tgt])\n")])
silent("C10", "resource-function-kwargs",
       [(CO, "def _cnot_cz_h_resources(wires: WiresLike):", "def _cnot_cz_h_resources(**_):")])
silent("C10", "resource_keys-as-set-display",
       [(MOT, '    resource_keys = frozenset({"num_wires"})', '    resource_keys = {"num_wires"}')])
silent("C10", "pow-exponent-first",
       [(SQ, "        return [RX(self.phi * z, wires=self.wires)]", "        return [RX(z * self.phi, wires=self.wires)]")])
silent("C10", "literal-index-not-a-label",
       [(CO, "    qp.Hadamard(wires[2])\n    qp.Toffoli(wires)\n", "    last = 2\n    qp.Hadamard(wires[last])\n    qp.Toffoli(wires)\n")])
