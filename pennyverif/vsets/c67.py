from ..variants import fire, silent

EXP = "pennylane/io/to_openqasm.py"
IMP = "pennylane/io/qasm_interpreter.py"

# ---- DESIGN §10 -------------------------------------------------------------------------------
fire("C67", "crz-exported-as-crx", (EXP, '    "CRZ": "crz",', '    "CRZ": "crx",'), "R-C67-table", "OPENQASM_GATES['CRZ']")
fire("C67", "toffoli-exported-as-cx", (EXP, '    "Toffoli": "ccx",', '    "Toffoli": "cx",'), "R-C67-table", "num_wires = 3")
fire("C67", "s-exported-as-sdg", (EXP, '    "S": "s",', '    "S": "sdg",'), "R-C67-table", "OPENQASM_GATES['S']")

# ---- own ---------------------------------------------------------------------------------------
fire("C67", "iswap-added-with-undefined-name",
     (EXP, '    "SWAP": "swap",', '    "SWAP": "swap",\n    "ISWAP": "iswap",'), "R-C67-table", "OPENQASM_GATES['ISWAP']")
fire("C67", "rx-exported-as-u3-arity",
     (EXP, '    "RX": "rx",', '    "RX": "u3",'), "R-C67-table", "num_params = 1")
fire("C67", "duplicate-key-last-wins",
     (EXP, '    "GlobalPhase": "gphase",\n}', '    "GlobalPhase": "gphase",\n    "PauliX": "y",\n}'), "R-C67-table", "OPENQASM_GATES['PauliX']")
fire("C67", "entry-added-by-setitem",
     (EXP, '# pylint: disable=unused-argument\n@singledispatch', 'OPENQASM_GATES["CY"] = "cz"\n\n\n# pylint: disable=unused-argument\n@singledispatch'),
     "R-C67-table", "OPENQASM_GATES['CY']")
fire("C67", "emitter-get-with-default",
     (EXP, "        gate = OPENQASM_GATES[op.name]", "        gate = OPENQASM_GATES.get(op.name, op.name.lower())"), "R-C67-stop", "_obj_string")
# a second, smaller table next to the real one (the two variants below consult it instead)
_NATIVE = (EXP, '"""\ndict[str, str]: Maps PennyLane gate names to equivalent QASM gate names.',
           '_NATIVE = {"CNOT": "cx", "U3": "u3", "Rot": "u3"}\n"""\ndict[str, str]: Maps PennyLane gate names to equivalent QASM gate names.')
fire("C67", "stopping-condition-on-other-table",
     [_NATIVE, (EXP, "        return op.name in OPENQASM_GATES or isinstance(op, (MidMeasure, Conditional))",
                     "        return op.name in _NATIVE or isinstance(op, (MidMeasure, Conditional))")],
     "R-C67-stop", "stopping_condition")
fire("C67", "target-gates-from-other-table",
     [_NATIVE, (EXP, '        target_gates=OPENQASM_GATES.keys() | {"MidMeasure"},', '        target_gates=_NATIVE.keys() | {"MidMeasure"},')],
     "R-C67-stop", "target_gates")
fire("C67", "target-gates-stray-name",
     (EXP, '        target_gates=OPENQASM_GATES.keys() | {"MidMeasure"},', '        target_gates=OPENQASM_GATES.keys() | {"MidMeasure", "Rot"},'),
     "R-C67-stop", "Rot")
fire("C67", "stopping-condition-accepts-all",
     (EXP, "        return op.name in OPENQASM_GATES or isinstance(op, (MidMeasure, Conditional))", "        return True"),
     "R-C67-stop", "stopping_condition")
fire("C67", "import-cy-as-cz", (IMP, '    "CY": ops.CY,', '    "CY": ops.CZ,'), "R-C67-table", "NON_PARAMETERIZED_GATES['CY']")
fire("C67", "import-sdg-without-adjoint", (IMP, '    "SDG": ops.adjoint(ops.S),', '    "SDG": ops.S,'), "R-C67-table", "NON_PARAMETERIZED_GATES['SDG']")
fire("C67", "import-u2-as-u3", (IMP, '    "U2": ops.U2,', '    "U2": ops.U3,'), "R-C67-table", "PARAMETERIZED_GATES['U2']")
fire("C67", "import-ccx-as-cswap", (IMP, '    "CCX": ops.Toffoli,', '    "CCX": ops.CSWAP,'), "R-C67-table", "NON_PARAMETERIZED_GATES['CCX']")
fire("C67", "import-cu-drops-gamma",
     (IMP, '    "CU": lambda theta, phi, delta, gamma, wires: ops.PhaseShift(gamma, wires[0])\n    @ ops.ctrl(ops.U3(theta, phi, delta, wires[1]), wires[0]),',
           '    "CU": lambda theta, phi, delta, wires: ops.ctrl(ops.U3(theta, phi, delta, wires[1]), wires[0]),'),
     "R-C67-table", "PARAMETERIZED_GATES['CU']")
fire("C67", "import-h-in-parameterized-table",
     [(IMP, '    "H": ops.Hadamard,\n', ""), (IMP, '    "RX": ops.RX,', '    "H": ops.Hadamard,\n    "RX": ops.RX,')],
     "R-C67-table", "PARAMETERIZED_GATES['H']")

# ---- behaviour-preserving controls --------------------------------------------------------------
silent("C67", "reorder-table-entries",
       [(EXP, '    "CNOT": "cx",\n    "CZ": "cz",\n', ""), (EXP, '    "GlobalPhase": "gphase",\n}', '    "GlobalPhase": "gphase",\n    "CZ": "cz",\n    "CNOT": "cx",\n}')])
silent("C67", "rename-stopping-condition-and-param",
       [(EXP, "    def stopping_condition(op):\n        return op.name in OPENQASM_GATES or isinstance(op, (MidMeasure, Conditional))",
              "    def _stop(o):\n        return isinstance(o, (Conditional, MidMeasure)) or o.name in OPENQASM_GATES"),
        (EXP, "        stopping_condition=stopping_condition,", "        stopping_condition=_stop,")])
silent("C67", "target-gates-as-set-of-table",
       [(EXP, '        target_gates=OPENQASM_GATES.keys() | {"MidMeasure"},', '        target_gates=set(OPENQASM_GATES) | {"MidMeasure"},')])
silent("C67", "target-gates-through-local",
       [(EXP, "    [new_tape], _ = decompose(\n        just_ops,\n        target_gates=OPENQASM_GATES.keys() | {\"MidMeasure\"},",
              "    gate_set = {*OPENQASM_GATES, \"MidMeasure\"}\n    [new_tape], _ = decompose(\n        just_ops,\n        target_gates=gate_set,")])
silent("C67", "import-tables-via-aliases",
       [(IMP, '    "X": ops.PauliX,', '    "X": ops.X,'), (IMP, '    "CP": ops.CPhase,', '    "CP": ops.ControlledPhaseShift,')])
silent("C67", "emitter-lookup-guarded-by-membership-test",
       [(EXP, "def _obj_string(op: Operator, wires: Wires, bit_map: dict, precision: None | int) -> str:\n    try:\n        gate = OPENQASM_GATES[op.name]\n    except KeyError as e:\n        raise ValueError(f\"Operation {op.name} not supported by the QASM serializer\") from e",
              "def _obj_string(op: Operator, wires: Wires, bit_map: dict, precision: None | int) -> str:\n    if op.name not in OPENQASM_GATES:\n        raise ValueError(f\"Operation {op.name} not supported by the QASM serializer\")\n    gate = OPENQASM_GATES[op.name]")])
