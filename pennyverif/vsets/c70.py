from ..variants import fire, silent

DC = "pennylane/devices/default_clifford.py"

# ---- DESIGN §10 -------------------------------------------------------------------------------
fire("C70", "t-gate-accepted-as-s", (DC, '    "S": "S",\n', '    "S": "S",\n    "T": "S",\n'), "R-C70-table", "_OPERATIONS_MAP['T']")
fire("C70", "adjoint-s-sent-as-s", (DC, '    "Adjoint(S)": "S_DAG",', '    "Adjoint(S)": "S",'), "R-C70-table", "_OPERATIONS_MAP['Adjoint(S)']")

# ---- own ---------------------------------------------------------------------------------------
fire("C70", "hadamard-sent-as-h_xy", (DC, '    "Hadamard": "H",', '    "Hadamard": "H_XY",'), "R-C70-table", "_OPERATIONS_MAP['Hadamard']")
fire("C70", "cnot-sent-as-cz", (DC, '    "CNOT": "CNOT",', '    "CNOT": "ZCZ",'), "R-C70-table", "_OPERATIONS_MAP['CNOT']")
fire("C70", "iswap-sent-as-its-inverse", (DC, '    "ISWAP": "ISWAP",', '    "ISWAP": "ISWAP_DAG",'), "R-C70-table", "_OPERATIONS_MAP['ISWAP']")
fire("C70", "bitflip-sent-as-phase-error", (DC, '    "BitFlip": "X_ERROR",', '    "BitFlip": "Z_ERROR",'), "R-C70-table", "_OPERATIONS_MAP['BitFlip']")
fire("C70", "depolarizing-sent-as-two-qubit-channel",
     (DC, '    "DepolarizingChannel": "DEPOLARIZE1",', '    "DepolarizingChannel": "DEPOLARIZE2",'), "R-C70-table", "_OPERATIONS_MAP['DepolarizingChannel']")
fire("C70", "cy-misspelt-stim-name", (DC, '    "CY": "CY",', '    "CY": "CNOTY",'), "R-C70-table", "_OPERATIONS_MAP['CY']")
fire("C70", "rz-accepted-and-skipped", (DC, '    "Barrier": None,', '    "Barrier": None,\n    "RZ": None,'), "R-C70-table", "_OPERATIONS_MAP['RZ']")
fire("C70", "toffoli-accepted-by-setitem",
     (DC, "def operation_stopping_condition(op: Operator) -> bool:", '_OPERATIONS_MAP["Toffoli"] = "CX"\n\n\ndef operation_stopping_condition(op: Operator) -> bool:'),
     "R-C70-table", "_OPERATIONS_MAP['Toffoli']")
fire("C70", "pauliz-mapped-to-none", (DC, '    "PauliZ": "Z",', '    "PauliZ": None,'), "R-C70-table", "_OPERATIONS_MAP['PauliZ']")
fire("C70", "global-phase-no-longer-collected",
     (DC, "                if isinstance(op, ops.GlobalPhase):\n                    global_phase_ops.append(op)\n", ""), "R-C70-table", "_OPERATIONS_MAP['GlobalPhase']")
fire("C70", "snapshot-branch-emptied",
     (DC, "                if isinstance(op, ops.Snapshot):\n                    self._apply_snapshot(circuit, stim_circuit, op, global_phase_ops, debugger)\n",
          "                if isinstance(op, ops.Snapshot):\n                    pass\n"), "R-C70-table", "_OPERATIONS_MAP['Snapshot']")
fire("C70", "global-phase-sent-to-stim", (DC, '    "GlobalPhase": None,', '    "GlobalPhase": "I",'), "R-C70-table", "_OPERATIONS_MAP['GlobalPhase']")

# ---- undo the two repairs made after the first run of this check ---------------------------------
_PREP_RAISE = ("                if isinstance(op, StatePrepBase):\n                    raise DeviceError(\n"
               "                        f\"{op.name} is only supported by default.clifford as the first operation of a circuit.\"\n"
               "                    )\n")
fire("C70", "sx-back-to-non-stim-name", (DC, '    "SX": "SQRT_X",', '    "SX": "SX",'), "R-C70-table", "_OPERATIONS_MAP['SX']")
fire("C70", "adjoint-sx-back-to-non-stim-name", (DC, '    "Adjoint(SX)": "SQRT_X_DAG",', '    "Adjoint(SX)": "SX_DAG",'), "R-C70-table", "_OPERATIONS_MAP['Adjoint(SX)']")
fire("C70", "sx-sent-as-its-inverse", (DC, '    "SX": "SQRT_X",', '    "SX": "SQRT_X_DAG",'), "R-C70-table", "_OPERATIONS_MAP['SX']")
fire("C70", "mid-circuit-prep-raise-removed-basisstate", (DC, _PREP_RAISE, ""), "R-C70-table", "_OPERATIONS_MAP['BasisState']")
fire("C70", "mid-circuit-prep-raise-removed-stateprep", (DC, _PREP_RAISE, ""), "R-C70-table", "_OPERATIONS_MAP['StatePrep']")
fire("C70", "mid-circuit-prep-raise-replaced-by-continue",
     (DC, _PREP_RAISE, "                if isinstance(op, StatePrepBase):\n                    continue\n"), "R-C70-table", "_OPERATIONS_MAP['BasisState']")
fire("C70", "mid-circuit-prep-raise-replaced-by-pass",
     (DC, _PREP_RAISE, "                if isinstance(op, StatePrepBase):\n                    pass\n"), "R-C70-table", "_OPERATIONS_MAP['StatePrep']")
fire("C70", "mid-circuit-prep-raise-only-for-basisstate",
     (DC, "                if isinstance(op, StatePrepBase):\n                    raise DeviceError(", "                if isinstance(op, ops.BasisState):\n                    raise DeviceError("),
     "R-C70-table", "_OPERATIONS_MAP['StatePrep']")

# ---- R-C70-lookup ---------------------------------------------------------------------------------
_TRY = ("    try:\n        stim_op = _OPERATIONS_MAP[op.name]\n        stim_tg = map(str, op.wires)\n    except KeyError as e:\n"
        "        raise DeviceError(\n            f\"Operator {op} not supported with default.clifford and does not provide a decomposition.\"\n        ) from e\n")
fire("C70", "lookup-get-instead-of-subscript (seed patch2)",
     (DC, _TRY, "    stim_op = _OPERATIONS_MAP.get(op.name)\n    stim_tg = map(str, op.wires)\n"), "R-C70-lookup", "_pl_op_to_stim")
fire("C70", "lookup-get-with-identity-default",
     (DC, _TRY, "    stim_op = _OPERATIONS_MAP.get(op.name, \"I\")\n    stim_tg = map(str, op.wires)\n"), "R-C70-lookup", "_pl_op_to_stim")
fire("C70", "lookup-keyerror-swallowed",
     (DC, _TRY, "    try:\n        stim_op = _OPERATIONS_MAP[op.name]\n    except KeyError:\n        stim_op = None\n    stim_tg = map(str, op.wires)\n"),
     "R-C70-lookup", "_pl_op_to_stim")
fire("C70", "lookup-membership-guard-falls-through",
     (DC, _TRY, "    stim_op = None\n    if op.name in _OPERATIONS_MAP:\n        stim_op = _OPERATIONS_MAP[op.name]\n    stim_tg = map(str, op.wires)\n"),
     "R-C70-lookup", "_pl_op_to_stim")
fire("C70", "diagonalizing-gate-check-skips-instead-of-raising",
     (DC, "            if diag_op.name not in _OPERATIONS_MAP:  # pragma: no cover\n                raise ValueError(\n"
          "                    f\"Currently, we only support observables whose diagonalizing gates are Clifford, got {diag_op}\"\n                )\n",
          "            if diag_op.name not in _OPERATIONS_MAP:  # pragma: no cover\n                continue\n"),
     "R-C70-lookup", "_measure_probability")
silent("C70", "lookup-guarded-by-membership-test-that-raises",
       [(DC, _TRY, "    if op.name not in _OPERATIONS_MAP:\n        raise DeviceError(f\"Operator {op} not supported with default.clifford and does not provide a decomposition.\")\n"
                   "    stim_op = _OPERATIONS_MAP[op.name]\n    stim_tg = map(str, op.wires)\n")])
silent("C70", "lookup-keyerror-propagates-or-wider-handler-reraises",
       [(DC, _TRY, "    name = op.name\n    try:\n        stim_op = _OPERATIONS_MAP[name]\n    except (KeyError, TypeError) as exc:\n"
                   "        msg = f\"Operator {op} not supported with default.clifford and does not provide a decomposition.\"\n        raise DeviceError(msg) from exc\n"
                   "    stim_tg = map(str, op.wires)\n")])

# ---- behaviour-preserving controls --------------------------------------------------------------
silent("C70", "reorder-table-entries",
       [(DC, '    "Identity": "I",\n    "PauliX": "X",\n', ""), (DC, '    "DepolarizingChannel": "DEPOLARIZE1",\n}', '    "DepolarizingChannel": "DEPOLARIZE1",\n    "PauliX": "X",\n    "Identity": "I",\n}')])
silent("C70", "stim-aliases-for-the-same-gates",
       [(DC, '    "CNOT": "CNOT",', '    "CNOT": "CX",'), (DC, '    "S": "S",', '    "S": "SQRT_Z",'),
        (DC, '    "PauliError": "CORRELATED_ERROR",', '    "PauliError": "E",'), (DC, '    "Hadamard": "H",', '    "Hadamard": "H_XZ",')])
_LOOP = """        for op in circuit.operations[use_prep_ops:]:
            gate, wires = _pl_op_to_stim(op)
            if gate is not None:
                # Note: This is a lot faster than doing `stim_ct.append(gate, wires)`
                stim_circuit.append_from_stim_program_text(f"{gate} {wires}")
            else:
                if isinstance(op, ops.GlobalPhase):
                    global_phase_ops.append(op)
                if isinstance(op, ops.Snapshot):
                    self._apply_snapshot(circuit, stim_circuit, op, global_phase_ops, debugger)
                if isinstance(op, StatePrepBase):
                    raise DeviceError(
                        f"{op.name} is only supported by default.clifford as the first operation of a circuit."
                    )
"""
_LOOP_INVERTED = """        for o in circuit.operations[use_prep_ops:]:
            instr, targets = _pl_op_to_stim(o)
            if instr is None:
                if isinstance(o, ops.Snapshot):
                    self._apply_snapshot(circuit, stim_circuit, o, global_phase_ops, debugger)
                elif isinstance(o, ops.GlobalPhase):
                    global_phase_ops.append(o)
                elif isinstance(o, StatePrepBase):
                    raise DeviceError(f"{o.name} must be the first operation of a circuit on default.clifford.")
            else:
                stim_circuit.append_from_stim_program_text(f"{instr} {targets}")
"""
silent("C70", "gate-loop-inverted-test-and-renamed-vars", [(DC, _LOOP, _LOOP_INVERTED)])
silent("C70", "none-branch-raises-for-anything-unhandled",
       [(DC, _PREP_RAISE, "                elif not isinstance(op, (ops.GlobalPhase, ops.Snapshot, ops.Barrier)):\n"
                          "                    raise DeviceError(f\"{op.name} cannot be simulated by default.clifford here.\")\n")])
silent("C70", "predicate-membership-in-keys",
       [(DC, "    return op.name in _OPERATIONS_MAP\n", "    return op.name in _OPERATIONS_MAP.keys()\n")])

# --- R-C70-shared
_DC = "pennylane/devices/default_clifford.py"
fire("C70", "projector-sampling-appends-to-the-shared-circuit",
     (_DC, "            stim_circ = stim_circuit.copy()\n            stim_circ.append_from_stim_program_text(\"M \" + \" \".join(map(str, meas_obs.wires)))\n            sampler = stim_circ.compile_sampler(seed=sample_seed)",
           "            stim_circuit.append_from_stim_program_text(\"M \" + \" \".join(map(str, meas_obs.wires)))\n            sampler = stim_circuit.compile_sampler(seed=sample_seed)"),
     "R-C70-shared", "_measure_observable_sample")
fire("C70", "probability-diagonalisation-appends-to-the-circuit-from-kwargs",
     (_DC, "        diagonalizing_cit = kwargs.get(\"stim_circuit\").copy()", "        diagonalizing_cit = kwargs.get(\"stim_circuit\")"),
     "R-C70-shared", "_measure_probability")
silent("C70", "projector-sampling-copies-with-the-copy-module",
       [(_DC, "            stim_circ = stim_circuit.copy()\n            stim_circ.append_from_stim_program_text(\"M \"", "            stim_circ = stim_circuit.copy()\n            stim_circ = stim_circ.copy()\n            stim_circ.append_from_stim_program_text(\"M \"")])

# --- R-C70-memo
fire("C70", "stim-translation-memoised-by-name-and-wires",
     [(_DC, "def _pl_op_to_stim(op):\n", "_STIM_CACHE = {}\n\n\ndef _pl_op_to_stim(op):\n    cache_key = (op.name, op.wires)\n    cached = _STIM_CACHE.get(cache_key)\n    if cached is not None:\n        return cached\n"),
      (_DC, "    return stim_op, \" \".join(stim_tg)", "    stim_instruction = (stim_op, \" \".join(stim_tg))\n    _STIM_CACHE[cache_key] = stim_instruction\n    return stim_instruction")],
     "R-C70-memo", "_pl_op_to_stim")
