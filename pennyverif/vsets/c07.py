"""Seeded variants for C07 (attribute sets): wrong entries added to the sets, code of a listed
class changed so that the entry becomes false, and behaviour-preserving rewrites."""

from ..variants import fire, silent

P = "C07"
AT = "pennylane/ops/qubit/attributes.py"
NP = "pennylane/ops/qubit/non_parametric_ops.py"
SQ = "pennylane/ops/qubit/parametric_ops_single_qubit.py"
MQ = "pennylane/ops/qubit/parametric_ops_multi_qubit.py"
CO = "pennylane/ops/op_math/controlled_ops.py"

SI = '    ["Hadamard", "PauliX", "PauliY", "PauliZ", "CNOT", "CZ", "CY", "CH", "SWAP", "Toffoli", "CCZ"]'

# ---- DESIGN section 10 ------------------------------------------------------------------------
fire(P, "s-listed-self-inverse",
     (AT, SI, '    ["Hadamard", "PauliX", "PauliY", "PauliZ", "CNOT", "CZ", "CY", "CH", "SWAP", "Toffoli", "CCZ", "S"]'),
     "R-C07-selfinv", "self_inverses[S]")
fire(P, "rx-listed-diagonal",
     (AT, '        "PauliZ",\n        "S",\n        "T",\n', '        "PauliZ",\n        "RX",\n        "S",\n        "T",\n'),
     "R-C07-diag", "diagonal_in_z_basis[RX]")
fire(P, "phaseshift-listed-unitary-generator",
     (AT, '        "PCPhase",\n        "GlobalPhase",\n', '        "PCPhase",\n        "GlobalPhase",\n        "PhaseShift",\n'),
     "R-C07-ugen", "has_unitary_generator[PhaseShift]")
# (first "IsingZZ" of the file is in composable_rotations)
fire(P, "isingzz-misspelt",
     (AT, '        "IsingZZ",\n', '        "IsingZz",\n'),
     "R-C07-names", "IsingZz")

# ---- own: set side -----------------------------------------------------------------------------
fire(P, "u3-listed-composable",
     (AT, '        "OrbitalRotation",\n    ]\n)', '        "OrbitalRotation",\n        "U3",\n    ]\n)'),
     "R-C07-comp", "composable_rotations[U3]")
fire(P, "hadamard-listed-composable",
     (AT, '        "OrbitalRotation",\n    ]\n)', '        "OrbitalRotation",\n        "Hadamard",\n    ]\n)'),
     "R-C07-comp", "composable_rotations[Hadamard]")
fire(P, "isingxy-listed-unitary-generator",
     (AT, '        "PCPhase",\n        "GlobalPhase",\n', '        "PCPhase",\n        "IsingXY",\n        "GlobalPhase",\n'),
     "R-C07-ugen", "has_unitary_generator[IsingXY]")
fire(P, "crx-listed-unitary-generator",
     (AT, '        "PCPhase",\n        "GlobalPhase",\n', '        "PCPhase",\n        "GlobalPhase",\n        "CRX",\n'),
     "R-C07-ugen", "has_unitary_generator[CRX]")
fire(P, "sx-listed-self-inverse",
     (AT, SI, '    ["Hadamard", "SX", "PauliX", "PauliY", "PauliZ", "CNOT", "CZ", "CY", "CH", "SWAP", "Toffoli", "CCZ"]'),
     "R-C07-selfinv", "self_inverses[SX]")
fire(P, "iswap-listed-diagonal",
     (AT, '        "CRZ",\n        "IsingZZ",\n    ]\n)', '        "CRZ",\n        "IsingZZ",\n        "ISWAP",\n    ]\n)'),
     "R-C07-diag", "diagonal_in_z_basis[ISWAP]")
fire(P, "alias-misspelt",
     (AT, '        "SQISW",\n', '        "SQISWAP",\n'),
     "R-C07-names", "SQISWAP")

# ---- own: code side ----------------------------------------------------------------------------
fire(P, "cz-adjoint-returns-ccz",
     (CO, "        return CZ(self.wires)", "        return CCZ(self.wires)"),
     "R-C07-selfinv", "self_inverses[CZ]")
fire(P, "pauliy-matrix-not-involutory",
     (NP, "        return np.array([[0, -1j], [1j, 0]])", "        return np.array([[0, -1j], [1j, 1]])"),
     "R-C07-selfinv", "self_inverses[PauliY]")
fire(P, "swap-pow-registered-period-4",
     (NP, 'add_decomps("Pow(SWAP)", pow_involutory2)', 'add_decomps("Pow(SWAP)", make_pow_decomp_with_period2(4))'),
     "R-C07-selfinv", "self_inverses[SWAP]")
fire(P, "s-matrix-off-diagonal-entry",
     (NP, "        return np.array([[1, 0], [0, 1j]])", "        return np.array([[1, 1], [0, 1j]])"),
     "R-C07-diag", "diagonal_in_z_basis[S]")
fire(P, "pauliz-diagonalizing-gates-nonempty",
     (NP, "        >>> print(qp.Z.compute_diagonalizing_gates(wires=[0]))\n        []\n        \"\"\"\n        return []",
          "        >>> print(qp.Z.compute_diagonalizing_gates(wires=[0]))\n        []\n        \"\"\"\n        return [Hadamard(wires=wires)]"),
     "R-C07-diag", "diagonal_in_z_basis[PauliZ]")
fire(P, "t-loses-compute-eigvals",
     (NP, "    def compute_eigvals(wires=None) -> np.ndarray:", "    def compute_eigvals_(wires=None) -> np.ndarray:"),
     "R-C07-diag", "diagonal_in_z_basis[T]")
fire(P, "isingxx-adjoint-drops-minus",
     (MQ, "        return IsingXX(-self.phi, wires=self.wires)", "        return IsingXX(self.phi, wires=self.wires)"),
     "R-C07-comp", "composable_rotations[IsingXX]")
fire(P, "rx-matrix-gains-constant-entry",
     (SQ, "        return qp.math.stack([stack_last([c, js]), stack_last([js, c])], axis=-2)",
          "        return qp.math.stack([stack_last([c, js]), stack_last([js, qp.math.ones_like(c)])], axis=-2)"),
     "R-C07-ugen", "has_unitary_generator[RX]")

# ---- behaviour-preserving controls -------------------------------------------------------------
silent(P, "self-inverses-reordered-multiline",
       [(AT, SI, '    [\n        "CCZ",\n        "Toffoli",\n        "SWAP",\n        "CH",\n        "CY",\n        "CZ",\n        "CNOT",\n'
                 '        "PauliZ",\n        "PauliY",\n        "PauliX",\n        "Hadamard",\n    ]')])
silent(P, "cnot-adjoint-keyword-wires",
       [(CO, "        return CNOT(self.wires)", "        return CNOT(wires=self.wires)")])
silent(P, "rx-matrix-half-angle-respelled",
       [(SQ, "        c = qp.math.cos(phi / 2)\n        s = qp.math.sin(phi / 2)\n", "        s = qp.math.sin(0.5 * phi)\n        c = qp.math.cos(phi * 0.5)\n")])
silent(P, "paulix-pow-rename-local",
       [(NP, "        z_mod2 = z % 2\n        if abs(z_mod2 - 0.5) < 1e-6:\n            return [SX(wires=self.wires)]\n        return super().pow(z_mod2)",
             "        reduced = z % 2\n        if abs(reduced - 0.5) < 1e-6:\n            return [SX(wires=self.wires)]\n        return super().pow(reduced)")])
silent(P, "isingxx-generator-split-statements",
       [(MQ, "        return qp.Hamiltonian([-0.5], [PauliX(wires=self.wires[0]) @ PauliX(wires=self.wires[1])])",
             "        word = PauliX(wires=self.wires[0]) @ PauliX(wires=self.wires[1])\n        return qp.Hamiltonian([-1 / 2], [word])")])
silent(P, "sqisw-alias-replaced-by-class-name",
       [(AT, '        "SQISW",\n', '        "SISWAP",\n')])

# ---- R-C07-symm ---------------------------------------------------------------------------------
SYMM = "R-C07-symm"
_TAIL = '        "IsingZZ",\n        "PSWAP",\n    ]\n)'
# independent seeded change C07/patch2: diag(1, e^{i phi}, 1, 1) is not diag(1, 1, e^{i phi}, 1)
fire(P, "cphaseshift10-listed-wire-symmetric",
     (AT, _TAIL, '        "IsingZZ",\n        "PSWAP",\n        "ControlledPhaseShift",\n        "CPhaseShift00",\n        "CPhaseShift10",\n    ]\n)'),
     SYMM, "symmetric_over_all_wires[CPhaseShift10]")
fire(P, "cphaseshift01-listed-wire-symmetric",
     (AT, _TAIL, '        "IsingZZ",\n        "CPhaseShift01",\n        "PSWAP",\n    ]\n)'),
     SYMM, "symmetric_over_all_wires[CPhaseShift01]")
fire(P, "crx-listed-wire-symmetric",
     (AT, _TAIL, '        "IsingZZ",\n        "PSWAP",\n        "CRX",\n    ]\n)'),
     SYMM, "symmetric_over_all_wires[CRX]")
fire(P, "singleexcitation-listed-wire-symmetric",
     (AT, _TAIL, '        "IsingZZ",\n        "PSWAP",\n        "SingleExcitation",\n    ]\n)'),
     SYMM, "symmetric_over_all_wires[SingleExcitation]")
fire(P, "toffoli-listed-symmetric-over-all-wires",
     (AT, _TAIL, '        "IsingZZ",\n        "PSWAP",\n        "Toffoli",\n    ]\n)'),
     SYMM, "symmetric_over_all_wires[Toffoli]")
# code side: the X block moved to the control pattern |10>: no longer symmetric in the two controls
_TOF = ("                [0, 0, 0, 0, 1, 0, 0, 0],\n                [0, 0, 0, 0, 0, 1, 0, 0],\n"
        "                [0, 0, 0, 0, 0, 0, 0, 1],\n                [0, 0, 0, 0, 0, 0, 1, 0],\n")
_TOF_BAD = ("                [0, 0, 0, 0, 0, 1, 0, 0],\n                [0, 0, 0, 0, 1, 0, 0, 0],\n"
            "                [0, 0, 0, 0, 0, 0, 1, 0],\n                [0, 0, 0, 0, 0, 0, 0, 1],\n")
fire(P, "toffoli-matrix-controlled-on-10",
     (CO, _TOF, _TOF_BAD),
     SYMM, "symmetric_over_control_wires[Toffoli]")
fire(P, "pswap-matrix-phase-on-one-off-diagonal-only",
     (MQ, "                stack_last([zero, zero, e, zero]),\n                stack_last([zero, e, zero, zero]),",
          "                stack_last([zero, zero, e, zero]),\n                stack_last([zero, one, zero, zero]),"),
     SYMM, "symmetric_over_all_wires[PSWAP]")

silent(P, "symmetric-gates-added-to-wire-symmetric-set",
       [(AT, _TAIL, '        "IsingZZ",\n        "PSWAP",\n        "FermionicSWAP",\n        "ControlledPhaseShift",\n        "CPhaseShift00",\n    ]\n)')])
silent(P, "wire-symmetric-set-reordered",
       [(AT, '        "CZ",\n        "CCZ",\n        "SWAP",\n        "IsingXX",\n', '        "IsingXX",\n        "SWAP",\n        "CCZ",\n        "CZ",\n')])
silent(P, "cswap-single-control-listed-control-symmetric",
       [(AT, 'symmetric_over_control_wires = Attribute(["CCZ", "Toffoli"])', 'symmetric_over_control_wires = Attribute(["Toffoli", "CSWAP", "CCZ"])')])
