from ..variants import fire, silent

WM = "pennylane/estimator/wires_manager.py"
fire("C47", "free_wires-drop-raise",
     (WM, "        if num_wires > self.any_state:\n            raise ValueError(\n                f\"Freeing more wires than available any_state wires. \"\n                f\"Number of any_state wires available is {self.any_state}, while {num_wires} wires are being released.\"\n            )\n", ""),
     "R-C47-guard", "free_wires")
fire("C47", "grab_zeroed-branches-swapped",
     (WM, "            self.zeroed = 0\n        else:\n            self.zeroed -= num_wires", "            self.zeroed -= num_wires\n        else:\n            self.zeroed = 0"),
     "R-C47-guard", "grab_zeroed")
fire("C47", "free_wires-guard-wrong-counter",
     (WM, "        if num_wires > self.any_state:\n            raise ValueError(\n                f\"Freeing", "        if num_wires > self.zeroed:\n            raise ValueError(\n                f\"Freeing"),
     "R-C47-guard", "free_wires")
fire("C47", "grab_zeroed-tight-budget-only-guard",
     (WM, "        if num_wires > available_zeroed:\n            if self.tight_budget:", "        if num_wires > available_zeroed and self.tight_budget:\n            if self.tight_budget:"),
     "R-C47-guard", "grab_zeroed")
fire("C47", "free_wires-double-decrement",
     (WM, "        self.any_state -= num_wires\n        self.zeroed += num_wires", "        self.any_state -= num_wires\n        self.any_state -= num_wires\n        self.zeroed += num_wires"),
     "R-C47-guard", "free_wires")
fire("C47", "external-writer",
     ("pennylane/estimator/estimate.py", "            wire_manager.free_wires(num_wires)\n", "            wire_manager.any_state -= num_wires\n            wire_manager.zeroed += num_wires\n"),
     "R-C47-writers", "any_state")
silent("C47", "guard-rewritten-as-le",
       [(WM, "        if num_wires > available_zeroed:\n", "        if not num_wires <= available_zeroed:\n")])
silent("C47", "free_wires-ge-test-flipped",
       [(WM, "        if num_wires > self.any_state:\n            raise ValueError(", "        if self.any_state < num_wires:\n            raise ValueError(")])

# --- R-C47-pure / R-C47-percall
_RB = "pennylane/estimator/resources_base.py"
_EST = "pennylane/estimator/estimate.py"
fire("C47", "multiply-series-scales-operand-counts-in-place",
     (_RB, "        new_gate_types = defaultdict(int, {k: v * scalar for k, v in self.gate_types.items()})\n\n        return Resources(\n            zeroed_wires=self.zeroed_wires,\n            any_state_wires=self.any_state_wires * scalar,",
           "        new_gate_types = self.gate_types\n        for k_ in list(new_gate_types):\n            new_gate_types[k_] *= scalar\n\n        return Resources(\n            zeroed_wires=self.zeroed_wires,\n            any_state_wires=self.any_state_wires * scalar,"),
     "R-C47-pure", "multiply_series")
fire("C47", "wire-manager-created-once-per-estimate-callable",
     (_EST, "    @wraps(workflow)\n    def wrapper(*args, **kwargs):\n        with AnnotatedQueue() as q:\n            workflow(*args, **kwargs)\n\n        wire_manager = WireResourceManager(zeroed, any_state, 0, tight_budget)\n",
            "    wire_manager = WireResourceManager(zeroed, any_state, 0, tight_budget)\n\n    @wraps(workflow)\n    def wrapper(*args, **kwargs):\n        with AnnotatedQueue() as q:\n            workflow(*args, **kwargs)\n\n"),
     "R-C47-percall", "_resources_from_qfunc")
silent("C47", "wire-manager-created-before-the-queue-in-the-same-call",
       [(_EST, "        with AnnotatedQueue() as q:\n            workflow(*args, **kwargs)\n\n        wire_manager = WireResourceManager(zeroed, any_state, 0, tight_budget)\n",
               "        wire_manager = WireResourceManager(zeroed, any_state, 0, tight_budget)\n        with AnnotatedQueue() as q:\n            workflow(*args, **kwargs)\n\n")])

# --- R-C47-collapse
_SYM = "pennylane/estimator/ops/op_math/symbolic.py"
fire("C47", "prod-factor-pairs-grouped-by-dict",
     (_SYM, "        return [GateCount(cmpr_op, count) for cmpr_op, count in cmpr_factors_and_counts]\n",
      "        grouped_counts = dict(cmpr_factors_and_counts)\n        return [GateCount(cmpr_op, count) for cmpr_op, count in grouped_counts.items()]\n"),
     "R-C47-collapse", "grouped_counts")
fire("C47", "prod-factor-pairs-grouped-by-dictcomp",
     (_SYM, "        return [GateCount(cmpr_op, count) for cmpr_op, count in cmpr_factors_and_counts]\n",
      "        by_op = {o: c for o, c in cmpr_factors_and_counts}\n        return [GateCount(o, c) for o, c in by_op.items()]\n"),
     "R-C47-collapse", "by_op")
silent("C47", "prod-factor-pairs-summed-in-defaultdict",
       [(_SYM, "        return [GateCount(cmpr_op, count) for cmpr_op, count in cmpr_factors_and_counts]\n",
         "        totals = {}\n        for cmpr_op, count in cmpr_factors_and_counts:\n            totals[cmpr_op] = totals.get(cmpr_op, 0) + count\n        return [GateCount(cmpr_op, count) for cmpr_op, count in totals.items()]\n")])
