"""Seeded variants for C01 (capability flags, wrapper flags, generator vs matrix support).  The listed
findings of the unedited tree (FromBloq.compute_decomposition, TmpPauliRot.has_matrix) are part of the baseline."""

from ..variants import fire, silent

P = "C01"
POW = "pennylane/ops/op_math/pow.py"
ADJ = "pennylane/ops/op_math/adjoint.py"
SPROD = "pennylane/ops/op_math/sprod.py"
COB = "pennylane/ops/op_math/change_op_basis.py"
MOPS = "pennylane/ops/qubit/matrix_ops.py"
SQ = "pennylane/ops/qubit/parametric_ops_single_qubit.py"
MQ = "pennylane/ops/qubit/parametric_ops_multi_qubit.py"
ID = "pennylane/ops/identity.py"

# ---- R-C01-flag ------------------------------------------------------------------------------
fire(P, "pow-has-sparse-matrix-property-deleted",
     (POW, "    # pylint: disable=arguments-renamed, invalid-overridden-method\n    @property\n    def has_sparse_matrix(self) -> bool:\n"
           "        return self.base.has_sparse_matrix and isinstance(self.z, int)\n\n", ""),
     "R-C01-flag", "Pow.compute_sparse_matrix")
fire(P, "qubitunitary-has-matrix-property-deleted",
     (MOPS, "    # pylint: disable=arguments-renamed, invalid-overridden-method\n    @property\n    def has_matrix(self) -> bool:\n"
            "        return not self._issparse\n\n", ""),
     "R-C01-flag", "QubitUnitary.compute_matrix")
fire(P, "changeopbasis-has-matrix-constant-true",
     (COB, "    has_matrix = False\n    has_sparse_matrix = False", "    has_matrix = True\n    has_sparse_matrix = False"),
     "R-C01-flag", "ChangeOpBasis")
fire(P, "rx-compute-matrix-raises-for-batches",
     (SQ, "        c = qp.math.cos(phi / 2)\n        s = qp.math.sin(phi / 2)\n",
          "        if qp.math.ndim(phi) > 1:\n            raise qp.exceptions.MatrixUndefinedError(\"no nested batches\")\n"
          "        c = qp.math.cos(phi / 2)\n        s = qp.math.sin(phi / 2)\n"),
     "R-C01-flag", "RX.compute_matrix")
fire(P, "isingzz-has-matrix-false-with-working-matrix",
     (MQ, "class IsingZZ(Operator2):\n", "class IsingZZ(Operator2):\n    has_matrix = False\n"),
     "R-C01-flag", "IsingZZ.has_matrix")

fire(P, "globalphase-has-sparse-matrix-property-deleted",
     (ID, '    @property\n    def has_sparse_matrix(self) -> bool:\n        """Bool: a sparse matrix is only defined for an unbatched phase."""\n'
          "        return qp.math.ndim(self.phi) == 0\n\n", ""),
     "R-C01-flag", "GlobalPhase.compute_sparse_matrix")

# ---- R-C01-symflag ---------------------------------------------------------------------------
fire(P, "sprod-has-matrix-consults-sparse",
     (SPROD, '        """Bool: Whether or not the Operator returns a defined matrix."""\n        return self.base.has_matrix',
             '        """Bool: Whether or not the Operator returns a defined matrix."""\n        return self.base.has_sparse_matrix'),
     "R-C01-symflag", "SProd.has_matrix")
fire(P, "adjoint-has-sparse-matrix-consults-dense",
     (ADJ, "    def has_sparse_matrix(self) -> bool:\n        return self.base.has_sparse_matrix\n",
           "    def has_sparse_matrix(self) -> bool:\n        return self.base.has_matrix\n"),
     "R-C01-symflag", "Adjoint.has_sparse_matrix")
fire(P, "adjoint-has-decomposition-ignores-base-decomposition",
     (ADJ, "        return self.base.has_adjoint or self.base.has_decomposition\n", "        return self.base.has_adjoint\n"),
     "R-C01-symflag", "Adjoint.has_decomposition")

# ---- R-C01-gen -------------------------------------------------------------------------------
fire(P, "rx-generator-coefficient-minus-one",
     (SQ, "        return qp.Hamiltonian([-0.5], [PauliX(wires=self.wires)])", "        return qp.Hamiltonian([-1], [PauliX(wires=self.wires)])"),
     "R-C01-gen", "RX.generator")
fire(P, "globalphase-generator-sign",
     (ID, "        return qp.s_prod(-1, qp.I())", "        return qp.s_prod(1, qp.I())"),
     "R-C01-gen", "GlobalPhase.generator")
fire(P, "u1-matrix-phase-doubled",
     (SQ, "        fac = qp.math.convert_like(fac, phi)\n\n        arg = 1j * phi", "        fac = qp.math.convert_like(fac, phi)\n\n        arg = 2j * phi"),
     "R-C01-gen", "U1.generator")
fire(P, "isingxy-generator-quarter-to-half",
     (MQ, "            [0.25, 0.25],\n            [\n                qp.X(wires=self.wires[0]) @ qp.X(wires=self.wires[1]),",
          "            [0.125, 0.125],\n            [\n                qp.X(wires=self.wires[0]) @ qp.X(wires=self.wires[1]),"),
     "R-C01-gen", "IsingXY.generator")

# ---- behaviour-preserving controls -------------------------------------------------------------
silent(P, "rx-generator-coefficient-respelled",
       [(SQ, "        return qp.Hamiltonian([-0.5], [PauliX(wires=self.wires)])",
             "        return qp.Hamiltonian([-1 / 2], [PauliX(wires=self.wires)])")])
silent(P, "sprod-has-matrix-through-local",
       [(SPROD, '        """Bool: Whether or not the Operator returns a defined matrix."""\n        return self.base.has_matrix',
                '        """Bool: Whether or not the Operator returns a defined matrix."""\n        inner = self.base\n        return inner.has_matrix')])
silent(P, "pow-has-sparse-matrix-operands-swapped",
       [(POW, "        return self.base.has_sparse_matrix and isinstance(self.z, int)", "        return isinstance(self.z, int) and self.base.has_sparse_matrix")])
silent(P, "globalphase-generator-through-mult",
       [(ID, "        return qp.s_prod(-1, qp.I())", "        return -1.0 * qp.I()")])

# ---- R-C01-pure --------------------------------------------------------------------------------
SYMOP = "pennylane/ops/op_math/symbolicop.py"
_SPROD_SPARSE = "        mat = self.base.sparse_matrix(wire_order=wire_order).multiply(self.scalar)\n"
_SPROD_GET = "        mat = self.base.sparse_matrix(wire_order=wire_order)\n"
fire(P, "sprod-sparse-matrix-rescales-base-data-attribute",
     (SPROD, _SPROD_SPARSE, _SPROD_GET + "        # only the stored entries need to be rescaled; the sparsity pattern is unchanged\n"
                                        "        mat.data = mat.data * self.scalar\n"),
     "R-C01-pure", "SProd.sparse_matrix")
fire(P, "sprod-sparse-matrix-data-augmented",
     (SPROD, _SPROD_SPARSE, _SPROD_GET + "        mat.data *= self.scalar\n"),
     "R-C01-pure", "SProd.sparse_matrix")
fire(P, "sprod-sparse-matrix-augmented-in-place",
     (SPROD, _SPROD_SPARSE, _SPROD_GET + "        mat *= self.scalar\n"),
     "R-C01-pure", "SProd.sparse_matrix")
fire(P, "adjoint-sparse-matrix-subscript-store-on-base-matrix",
     (ADJ, "        base_matrix = self.base.sparse_matrix(wire_order=wire_order)\n",
           "        base_matrix = self.base.sparse_matrix(wire_order=wire_order)\n        base_matrix[0, 0] = base_matrix[0, 0].conjugate()\n"),
     "R-C01-pure", "Adjoint.sparse_matrix")
fire(P, "scalarsymbolicop-matrix-alias-in-branch-written-through-out",
     (SYMOP, "        base_matrix = self.base.matrix()\n",
             "        base_matrix = self.base.matrix()\n        scaled = base_matrix\n        if self.base.batch_size is None:\n"
             "            scaled = pl_math.asarray(scaled)\n        pl_math.multiply(scaled, 1.0, out=scaled)\n"),
     "R-C01-pure", "ScalarSymbolicOp.matrix")
silent(P, "sprod-sparse-matrix-rebinds-product",
       [(SPROD, _SPROD_SPARSE, _SPROD_GET + "        mat = mat * self.scalar\n")])
silent(P, "sprod-sparse-matrix-copies-then-scales-in-place",
       [(SPROD, _SPROD_SPARSE, _SPROD_GET + "        mat = mat.copy()\n        mat *= self.scalar\n")])
