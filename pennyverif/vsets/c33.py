from ..variants import fire, silent

PRE = "pennylane/devices/preprocess.py"
DQ = "pennylane/devices/default_qubit.py"
DM = "pennylane/devices/default_mixed.py"
DC = "pennylane/devices/default_clifford.py"
fire("C33", "no_sampling-warns-instead-of-raising",
     (PRE, "        raise DeviceError(f\"Finite shots are not supported with {name}\")", "        warnings.warn(f\"Finite shots are not supported with {name}\")"),
     "R-C33-validator", "no_sampling")
fire("C33", "validate_observables-filters-instead-of-rejecting",
     (PRE, "            raise DeviceError(f\"Observable {repr(m.obs)} not supported on {name}\")\n\n    return (tape,), null_postprocessing",
           "            raise DeviceError(f\"Observable {repr(m.obs)} not supported on {name}\")\n\n    tape = tape.copy(measurements=[m for m in tape.measurements if m.obs is None or stopping_condition(m.obs)])\n    return (tape,), null_postprocessing"),
     "R-C33-validator", "validate_observables")
fire("C33", "no_counts-returns-filtered-copy",
     (DQ, "        raise NotImplementedError(\"The JAX-JIT interface doesn't support qp.counts.\")\n    return (tape,), null_postprocessing",
          "        return (tape.copy(measurements=[mp for mp in tape.measurements if not isinstance(mp, CountsMP)]),), null_postprocessing\n    return (tape,), null_postprocessing"),
     "R-C33-validator", "no_counts")
fire("C33", "default-mixed-drops-validate_device_wires",
     (DM, "        compile_pipeline.add_transform(validate_device_wires, self.wires, name=self.name)\n", ""), "R-C33-pipeline", "DefaultMixed")
fire("C33", "default-qubit-decompose-only-for-mcm",
     (DQ, "        compile_pipeline.add_transform(\n            decompose,\n            stopping_condition=_stopping_condition,",
          "        if config.mcm_config.mcm_method == \"deferred\":\n          compile_pipeline.add_transform(\n            decompose,\n            stopping_condition=_stopping_condition,"),
     "R-C33-pipeline", "DefaultQubit")
fire("C33", "clifford-drops-validate_measurements",
     (DC, "        compile_pipeline.add_transform(\n            validate_measurements,", "        dict(\n            fn=validate_measurements,"), "R-C33-pipeline", "DefaultClifford")
fire("C33", "barrier-listed-as-target-gate",
     (DQ, "    \"CNOT\",\n    \"CRX\",", "    \"Barrier\",\n    \"CNOT\",\n    \"CRX\","), "R-C33-gateset", "Barrier")
fire("C33", "misspelt-target-gate",
     (DQ, "    \"IsingZZ\",\n    \"MultiControlledX\",", "    \"IsingZz\",\n    \"MultiControlledX\","), "R-C33-gateset", "IsingZz")
silent("C33", "no_sampling-raise-in-helper",
       [(PRE, "        raise DeviceError(f\"Finite shots are not supported with {name}\")\n    return (tape,), null_postprocessing",
              "        _reject_finite_shots(name)\n    return (tape,), null_postprocessing\n\n\ndef _reject_finite_shots(name):\n    raise DeviceError(f\"Finite shots are not supported with {name}\")")])
silent("C33", "validator-returns-list-batch",
       [(PRE, "        raise DeviceError(f\"Analytic execution is not supported with {name}\")\n    return (tape,), null_postprocessing",
              "        raise DeviceError(f\"Analytic execution is not supported with {name}\")\n    return [tape], null_postprocessing")])
silent("C33", "default-qubit-decompose-in-both-arms",
       [(DQ, "        compile_pipeline.add_transform(\n            decompose,\n            stopping_condition=_stopping_condition,\n            device_wires=self.wires,\n            target_gates=target_gate_set,\n            name=self.name,\n        )\n",
             "        if self.wires is None:\n            compile_pipeline.add_transform(decompose, stopping_condition=_stopping_condition, target_gates=target_gate_set, name=self.name)\n        else:\n            compile_pipeline.add_transform(decompose, stopping_condition=_stopping_condition, device_wires=self.wires, target_gates=target_gate_set, name=self.name)\n")])
fire("C33", "device-resolve-drops-allow_resets",
     (PRE, "        return resolve_dynamic_wires(\n            tape, zeroed=zeroed, min_int=min_int, allow_resets=allow_resets\n        )",
           "        return resolve_dynamic_wires(tape, zeroed=zeroed, min_int=min_int)"),
     "R-C33-config", "device_resolve_dynamic_wires")

# --- R-C33-order
_DM = "pennylane/devices/default_mixed.py"
fire("C33", "default-mixed-checks-wires-before-deferring-measurements",
     [(_DM, "        # Defer first since it adds wires to the device\n        compile_pipeline.add_transform(qp.defer_measurements, allow_postselect=False)\n",
            "        compile_pipeline.add_transform(validate_device_wires, self.wires, name=self.name)\n        compile_pipeline.add_transform(qp.defer_measurements, allow_postselect=False)\n"),
      (_DM, "        # Add the validate section\n        compile_pipeline.add_transform(validate_device_wires, self.wires, name=self.name)\n", "        # Add the validate section\n")],
     "R-C33-order", "DefaultMixed.preprocess")
silent("C33", "default-mixed-wire-check-moved-directly-after-deferral",
       [(_DM, "        # Defer first since it adds wires to the device\n        compile_pipeline.add_transform(qp.defer_measurements, allow_postselect=False)\n",
              "        # Defer first since it adds wires to the device\n        compile_pipeline.add_transform(qp.defer_measurements, allow_postselect=False)\n        compile_pipeline.add_transform(validate_device_wires, self.wires, name=self.name)\n"),
        (_DM, "        # Add the validate section\n        compile_pipeline.add_transform(validate_device_wires, self.wires, name=self.name)\n", "        # Add the validate section\n")])

# --- R-C33-rebuild
_PRE = "pennylane/devices/preprocess.py"
fire("C33", "snapshot-rebuilt-without-its-shots-override",
     (_PRE, "                new_ops[i] = Snapshot(\n                    measurement=new_mp, tag=op.tag, shots=op.hyperparameters[\"shots\"]\n                )",
            "                new_ops[i] = Snapshot(measurement=new_mp, tag=op.tag)"),
     "R-C33-rebuild", "validate_device_wires")
silent("C33", "snapshot-rebuilt-positionally",
       [(_PRE, "                new_ops[i] = Snapshot(\n                    measurement=new_mp, tag=op.tag, shots=op.hyperparameters[\"shots\"]\n                )",
               "                new_ops[i] = Snapshot(op.tag, new_mp, op.hyperparameters[\"shots\"])")])

# --- R-C33-modes
_DAPI = "pennylane/devices/device_api.py"
fire("C33", "shots-observable-condition-built-from-analytic-capabilities",
     (_DAPI, "            stopping_condition_shots=observable_stopping_condition_factory(capabilities_shots),\n",
      "            stopping_condition_shots=observable_stopping_condition_factory(capabilities_analytic),\n"),
     "R-C33-modes", "stopping_condition_shots")
fire("C33", "sample-measurements-checked-against-analytic-view",
     (_DAPI, "            in capabilities_shots.measurement_processes,\n", "            in capabilities_analytic.measurement_processes,\n"),
     "R-C33-modes", "sample_measurements")
silent("C33", "per-mode-conditions-bound-to-locals-first",
       [(_DAPI, "            stopping_condition=observable_stopping_condition_factory(capabilities_analytic),\n            stopping_condition_shots=observable_stopping_condition_factory(capabilities_shots),\n",
         "            stopping_condition=(acc_a := observable_stopping_condition_factory(capabilities_analytic)),\n            stopping_condition_shots=(acc_s := observable_stopping_condition_factory(capabilities_shots)),\n")])
