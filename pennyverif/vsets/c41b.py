from ..variants import fire, silent

QS = "pennylane/core/qscript.py"
fire("C41", "process_queue-skips-nested-scripts",
     (QS, "        if isinstance(obj, (Operator, Operator2, QuantumScript)):\n            if encountered_measurement:",
          "        if isinstance(obj, QuantumScript):\n            continue\n        if isinstance(obj, (Operator, Operator2, QuantumScript)):\n            if encountered_measurement:"),
     "R-C41-process", "process_queue")
fire("C41", "process_queue-sorted-traversal",
     (QS, "    for obj, _ in queue.items():", "    for obj, _ in sorted(queue.items(), key=lambda kv: repr(kv[0])):"),
     "R-C41-process", "process_queue")
silent("C41", "process_queue-rename-loop-var",
       [(QS, "    for obj, _ in queue.items():\n        if isinstance(obj, (Operator, Operator2, QuantumScript)):\n            if encountered_measurement:\n                raise ValueError(f\"{obj} must occur prior to measurements.\")\n            ops.append(obj)\n        elif isinstance(obj, MeasurementProcess):\n            measurements.append(obj)",
              "    for item, _ in queue.items():\n        obj = item\n        if isinstance(obj, (Operator, Operator2, QuantumScript)):\n            if encountered_measurement:\n                raise ValueError(f\"{obj} must occur prior to measurements.\")\n            ops.append(obj)\n        elif isinstance(obj, MeasurementProcess):\n            measurements.append(obj)")])
