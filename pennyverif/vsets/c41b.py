from ..variants import fire, silent

QS = "pennylane/core/qscript.py"
fire("C41", "process_queue-skips-nested-scripts",
     (QS, "        if isinstance(obj, (Operator, Operator2, QuantumScript)):\n            if encountered_measurement:",
          "        if isinstance(obj, QuantumScript):\n            continue\n        if isinstance(obj, (Operator, Operator2, QuantumScript)):\n            if encountered_measurement:"),
     "R-C41-process", "process_queue")
fire("C41", "process_queue-sorted-traversal",
     (QS, "    for obj, _ in queue.items():", "    for obj, _ in sorted(queue.items(), key=lambda kv: repr(kv[0])):"),
     "R-C41-process", "process_queue")
silent("C41", "process_queue-rename-loop-var",
       [(QS, "    for obj, _ in queue.items():\n        if isinstance(obj, (Operator, Operator2, QuantumScript)):\n            if encountered_measurement:\n                raise ValueError(f\"{obj} must occur prior to measurements.\")\n            ops.append(obj)\n        elif isinstance(obj, MeasurementProcess):\n            measurements.append(obj)",
              "    for item, _ in queue.items():\n        obj = item\n        if isinstance(obj, (Operator, Operator2, QuantumScript)):\n            if encountered_measurement:\n                raise ValueError(f\"{obj} must occur prior to measurements.\")\n            ops.append(obj)\n        elif isinstance(obj, MeasurementProcess):\n            measurements.append(obj)")])

# --- R-C41-consume
fire("C41", "s_prod-eager-merge-leaves-operand-queued",
     ("pennylane/ops/op_math/sprod.py", "    sprod_op = SProd(scalar=scalar * operator.scalar, base=operator.base)\n    QueuingManager.remove(operator)\n    return sprod_op",
      "    return SProd(scalar=scalar * operator.scalar, base=operator.base)"),
     "R-C41-consume", "s_prod")
fire("C41", "prod-eager-dequeues-only-when-several-factors",
     ("pennylane/ops/op_math/prod.py", "    for op in ops:\n        QueuingManager.remove(op)\n\n    return ops_simp",
      "    if len(ops) > 2:\n        for op in ops:\n            QueuingManager.remove(op)\n\n    return ops_simp"),
     "R-C41-consume", "prod")
fire("C41", "sum-eager-never-dequeues",
     ("pennylane/ops/op_math/sum.py", "    for op in summands:\n        QueuingManager.remove(op)\n\n    return summands_simp", "    return summands_simp"),
     "R-C41-consume", "sum")
fire("C41", "pow-eager-dequeues-only-for-single-op-result",
     ("pennylane/ops/op_math/pow.py", "        pow_op = qp.prod(*pow_ops)\n    QueuingManager.remove(base)\n", "        pow_op = qp.prod(*pow_ops)\n    if num_ops == 1:\n        QueuingManager.remove(base)\n"),
     "R-C41-consume", "pow")
silent("C41", "sum-eager-dequeues-with-comprehension",
       [("pennylane/ops/op_math/sum.py", "    for op in summands:\n        QueuingManager.remove(op)\n", "    _ = [QueuingManager.remove(s_) for s_ in summands]\n")])
silent("C41", "s_prod-dequeues-before-building",
       [("pennylane/ops/op_math/sprod.py", "    sprod_op = SProd(scalar=scalar * operator.scalar, base=operator.base)\n    QueuingManager.remove(operator)\n    return sprod_op",
         "    QueuingManager.remove(operator)\n    return SProd(scalar=scalar * operator.scalar, base=operator.base)")])
