"""Seeded variants for C08 / R-C08-letter: members put into the wrong Pauli group, a name claimed by
two groups, code of a member changed so that it leaves its letter, and behaviour-preserving rewrites."""

from ..variants import fire, silent

P = "C08"
R = "R-C08-letter"
IC = "pennylane/ops/functions/is_commuting.py"
SQ = "pennylane/ops/qubit/parametric_ops_single_qubit.py"
NP = "pennylane/ops/qubit/non_parametric_ops.py"

ZG = 'PAULIZ_GROUP = {\n    "PauliZ",\n    "ctrl",\n'
XG = 'PAULIX_GROUP = {"PauliX", "SX", "RX", "Identity", "IsingXX", "BasisState"}'
YG = 'PAULIY_GROUP = {"PauliY", "RY", "Identity", "IsingYY"}'

# ---- DESIGN section 10 ------------------------------------------------------------------------
# (a name added to a second group also raises the "duplicate" finding; the expected text below is that of
# the *letter* finding, so the variant only passes when the letter evidence itself refutes)
fire(P, "rx-in-z-group", (IC, ZG, ZG + '    "RX",\n'), R, "'RX' is listed in PAULIZ_GROUP")
fire(P, "s-in-x-group", (IC, XG, 'PAULIX_GROUP = {"PauliX", "SX", "RX", "Identity", "IsingXX", "BasisState", "S"}'), R, "'S' is listed in PAULIX_GROUP")

# ---- own: table side ---------------------------------------------------------------------------
fire(P, "isingxy-in-x-group", (IC, XG, 'PAULIX_GROUP = {"PauliX", "SX", "RX", "Identity", "IsingXX", "IsingXY", "BasisState"}'), R, "PAULIX_GROUP[IsingXY]")
fire(P, "ry-moved-to-x-group",
     [(IC, YG, 'PAULIY_GROUP = {"PauliY", "Identity", "IsingYY"}'), (IC, XG, 'PAULIX_GROUP = {"PauliX", "SX", "RX", "RY", "Identity", "IsingXX", "BasisState"}')],
     R, "PAULIX_GROUP[RY]")
fire(P, "t-in-y-group", (IC, YG, 'PAULIY_GROUP = {"PauliY", "RY", "T", "Identity", "IsingYY"}'), R, "'T' is listed in PAULIY_GROUP")
fire(P, "multirz-in-x-group", (IC, XG, 'PAULIX_GROUP = {"MultiRZ", "PauliX", "SX", "RX", "Identity", "IsingXX", "BasisState"}'), R, "'MultiRZ' is listed in PAULIX_GROUP")
fire(P, "pauliz-also-in-swap-group", (IC, 'SWAP_GROUP = {\n    "SWAP",\n', 'SWAP_GROUP = {\n    "SWAP",\n    "PauliZ",\n'), R, "duplicate of PAULIZ_GROUP[PauliZ]")
fire(P, "crx-in-x-group", (IC, XG, 'PAULIX_GROUP = {"PauliX", "SX", "RX", "CRX", "Identity", "IsingXX", "BasisState"}'), R, "PAULIX_GROUP[CRX]")

# ---- own: code side ----------------------------------------------------------------------------
fire(P, "rx-generator-becomes-y",
     (SQ, "        return qp.Hamiltonian([-0.5], [PauliX(wires=self.wires)])", "        return qp.Hamiltonian([-0.5], [PauliY(wires=self.wires)])"),
     R, "PAULIX_GROUP[RX]")
fire(P, "s-matrix-off-diagonal-entry",
     (NP, "        return np.array([[1, 0], [0, 1j]])", "        return np.array([[1, 1], [0, 1j]])"),
     R, "PAULIZ_GROUP[S]")
fire(P, "sx-matrix-loses-symmetry",
     (NP, "    _matrix = 0.5 * np.array([[1 + 1j, 1 - 1j], [1 - 1j, 1 + 1j]])", "    _matrix = 0.5 * np.array([[1 + 1j, 1 - 1j], [-1 + 1j, 1 + 1j]])"),
     R, "PAULIX_GROUP[SX]")

# ---- behaviour-preserving controls -------------------------------------------------------------
silent(P, "x-group-reordered-multiline",
       [(IC, XG, 'PAULIX_GROUP = {\n    "BasisState",\n    "IsingXX",\n    "Identity",\n    "RX",\n    "SX",\n    "PauliX",\n}')])
silent(P, "rename-loop-variable",
       [(IC, "        for op in group:\n            commutation_map[op] = group", "        for member in group:\n            commutation_map[member] = group")])
silent(P, "rx-generator-coefficient-respelled",
       [(SQ, "        return qp.Hamiltonian([-0.5], [PauliX(wires=self.wires)])",
             "        coeffs = [-1 / 2]\n        return qp.Hamiltonian(coeffs, [PauliX(self.wires)])")])
silent(P, "sx-matrix-respelled",
       [(NP, "    _matrix = 0.5 * np.array([[1 + 1j, 1 - 1j], [1 - 1j, 1 + 1j]])", "    _matrix = np.array([[1 + 1j, 1 - 1j], [1 - 1j, 1 + 1j]]) / 2")])
