"""Seeded variants for C08 / R-C08-letter: members put into the wrong Pauli group, a name claimed by
two groups, code of a member changed so that it leaves its letter, and behaviour-preserving rewrites."""

from ..variants import fire, silent

P = "C08"
R = "R-C08-letter"
IC = "pennylane/ops/functions/is_commuting.py"
SQ = "pennylane/ops/qubit/parametric_ops_single_qubit.py"
NP = "pennylane/ops/qubit/non_parametric_ops.py"

ZG = 'PAULIZ_GROUP = {\n    "PauliZ",\n    "ctrl",\n'
XG = 'PAULIX_GROUP = {"PauliX", "SX", "RX", "Identity", "IsingXX", "BasisState"}'
YG = 'PAULIY_GROUP = {"PauliY", "RY", "Identity", "IsingYY"}'

# ---- DESIGN section 10 ------------------------------------------------------------------------
# (a name added to a second group also raises the "duplicate" finding; the expected text below is that of
# the *letter* finding, so the variant only passes when the letter evidence itself refutes)
fire(P, "rx-in-z-group", (IC, ZG, ZG + '    "RX",\n'), R, "'RX' is listed in PAULIZ_GROUP")
fire(P, "s-in-x-group", (IC, XG, 'PAULIX_GROUP = {"PauliX", "SX", "RX", "Identity", "IsingXX", "BasisState", "S"}'), R, "'S' is listed in PAULIX_GROUP")

# ---- own: table side ---------------------------------------------------------------------------
fire(P, "isingxy-in-x-group", (IC, XG, 'PAULIX_GROUP = {"PauliX", "SX", "RX", "Identity", "IsingXX", "IsingXY", "BasisState"}'), R, "PAULIX_GROUP[IsingXY]")
fire(P, "ry-moved-to-x-group",
     [(IC, YG, 'PAULIY_GROUP = {"PauliY", "Identity", "IsingYY"}'), (IC, XG, 'PAULIX_GROUP = {"PauliX", "SX", "RX", "RY", "Identity", "IsingXX", "BasisState"}')],
     R, "PAULIX_GROUP[RY]")
fire(P, "t-in-y-group", (IC, YG, 'PAULIY_GROUP = {"PauliY", "RY", "T", "Identity", "IsingYY"}'), R, "'T' is listed in PAULIY_GROUP")
fire(P, "multirz-in-x-group", (IC, XG, 'PAULIX_GROUP = {"MultiRZ", "PauliX", "SX", "RX", "Identity", "IsingXX", "BasisState"}'), R, "'MultiRZ' is listed in PAULIX_GROUP")
fire(P, "pauliz-also-in-swap-group", (IC, 'SWAP_GROUP = {\n    "SWAP",\n', 'SWAP_GROUP = {\n    "SWAP",\n    "PauliZ",\n'), R, "duplicate of PAULIZ_GROUP[PauliZ]")
fire(P, "crx-in-x-group", (IC, XG, 'PAULIX_GROUP = {"PauliX", "SX", "RX", "CRX", "Identity", "IsingXX", "BasisState"}'), R, "PAULIX_GROUP[CRX]")

# ---- own: code side ----------------------------------------------------------------------------
fire(P, "rx-generator-becomes-y",
     (SQ, "        return qp.Hamiltonian([-0.5], [PauliX(wires=self.wires)])", "        return qp.Hamiltonian([-0.5], [PauliY(wires=self.wires)])"),
     R, "PAULIX_GROUP[RX]")
fire(P, "s-matrix-off-diagonal-entry",
     (NP, "        return np.array([[1, 0], [0, 1j]])", "        return np.array([[1, 1], [0, 1j]])"),
     R, "PAULIZ_GROUP[S]")
fire(P, "sx-matrix-loses-symmetry",
     (NP, "    _matrix = 0.5 * np.array([[1 + 1j, 1 - 1j], [1 - 1j, 1 + 1j]])", "    _matrix = 0.5 * np.array([[1 + 1j, 1 - 1j], [-1 + 1j, 1 + 1j]])"),
     R, "PAULIX_GROUP[SX]")

# ---- behaviour-preserving controls -------------------------------------------------------------
silent(P, "x-group-reordered-multiline",
       [(IC, XG, 'PAULIX_GROUP = {\n    "BasisState",\n    "IsingXX",\n    "Identity",\n    "RX",\n    "SX",\n    "PauliX",\n}')])
silent(P, "rename-loop-variable",
       [(IC, "        for op in group:\n            commutation_map[op] = group", "        for member in group:\n            commutation_map[member] = group")])
silent(P, "rx-generator-coefficient-respelled",
       [(SQ, "        return qp.Hamiltonian([-0.5], [PauliX(wires=self.wires)])",
             "        coeffs = [-1 / 2]\n        return qp.Hamiltonian(coeffs, [PauliX(self.wires)])")])
silent(P, "sx-matrix-respelled",
       [(NP, "    _matrix = 0.5 * np.array([[1 + 1j, 1 - 1j], [1 - 1j, 1 + 1j]])", "    _matrix = np.array([[1 + 1j, 1 - 1j], [1 - 1j, 1 + 1j]]) / 2")])

# ---- R-C08-frozen --------------------------------------------------------------------------------
FZ = "R-C08-frozen"
_STORE = "        for op in group:\n            commutation_map[op] = group\n"
# independent seeded change C08/patch1: `|=` on a value stored by reference merges the Y group into PAULIX_GROUP
fire(P, "map-values-merged-in-place",
     (IC, _STORE, "        for op in group:\n            if op in commutation_map:\n                commutation_map[op] |= group\n"
                  "            else:\n                commutation_map[op] = group\n"),
     FZ, "commutation_map[op] |= group")
fire(P, "map-values-updated-in-place",
     (IC, _STORE, "        for op in group:\n            if op in commutation_map:\n                commutation_map[op].update(group)\n"
                  "            else:\n                commutation_map[op] = group\n"),
     FZ, ".update()")
fire(P, "group-table-extended-inside-function",
     (IC, "    commutation_map = {}\n    for group in [", '    commutation_map = {}\n    PAULIZ_GROUP.add("RX")\n    for group in ['),
     FZ, "PAULIZ_GROUP")
fire(P, "loop-alias-augmented",
     (IC, _STORE, "        if \"Hadamard\" in group:\n            group |= IDENTITIES\n        for op in group:\n            commutation_map[op] = group\n"),
     FZ, "group |= IDENTITIES")
fire(P, "lookup-result-mutated-in-inner-function",
     (IC, "        return op_name1 in commutation_map.get(op_name2, {})",
          "        partners = commutation_map.get(op_name2, set())\n        partners.add(op_name2)\n        return op_name1 in partners"),
     FZ, "commutes_inner")
silent(P, "map-values-merged-into-new-set",
       [(IC, _STORE, "        for op in group:\n            commutation_map[op] = commutation_map.get(op, frozenset()) | group\n")])
silent(P, "groups-copied-before-in-place-merge",
       [(IC, _STORE, "        group = set(group)\n        for op in group:\n            if op in commutation_map:\n                commutation_map[op] |= group\n"
                     "            else:\n                commutation_map[op] = group\n")])
silent(P, "unrelated-local-set-updated-from-a-group",
       [(IC, "    commutation_map = {}\n", "    commutation_map = {}\n    seen_names = set()\n    seen_names.update(PAULIX_GROUP)\n")])

# --- R-C08-swap
_IC = "pennylane/ops/functions/is_commuting.py"
fire("C08", "non-simplified-rotations-swap-operands-but-not-their-target-wires",
     (_IC, "    if operation1.name == \"CRot\":\n        if intersection(target_wires_1, operation2.wires):",
           "    if operation2.name == \"CRot\":\n        operation1, operation2 = operation2, operation1\n\n    if operation1.name == \"CRot\":\n        if intersection(target_wires_1, operation2.wires):"),
     "R-C08-swap", "check_commutation_two_non_simplified_rotations")
silent("C08", "non-simplified-rotations-swap-operands-and-target-wires",
       [(_IC, "    if operation1.name == \"CRot\":\n        if intersection(target_wires_1, operation2.wires):",
              "    if operation2.name == \"CRot\":\n        operation1, operation2 = operation2, operation1\n        target_wires_1, target_wires_2 = target_wires_2, target_wires_1\n        op1_control_wires, op2_control_wires = op2_control_wires, op1_control_wires\n\n"
              "    if operation1.name == \"CRot\":\n        if intersection(target_wires_1, operation2.wires):")])
