from ..variants import fire, silent

R = "pennylane/transforms/resolve_dynamic_wires.py"
P = "pennylane/devices/preprocess.py"
fire("C22", "get_zeroed-index-instead-of-pop",
     (R, "        if self._zeroed:\n            w = self._zeroed.pop()\n", "        if self._zeroed:\n            w = self._zeroed[-1]\n"),
     "R-C22-own", "_get_zeroed")
fire("C22", "get_any-no-loan-record",
     (R, "            w = self._any_state.pop()\n            self._loaned[w] = AllocateState.ANY\n            return w, []", "            w = self._any_state.pop()\n            return w, []"),
     "R-C22-own", "_get_any")
fire("C22", "add_new_wire-no-increment",
     (R, "        self._zeroed.append(self.min_int)\n        self.min_int += 1\n", "        self._zeroed.append(self.min_int)\n"),
     "R-C22-own", "_add_new_wire")
fire("C22", "get_zeroed-any-path-without-reset",
     (R, "            m = measure(w, reset=True)\n            return w, m.measurements", "            return w, []"),
     "R-C22-zero", "_get_zeroed")
fire("C22", "get_zeroed-reset-not-returned",
     (R, "            m = measure(w, reset=True)\n            return w, m.measurements", "            measure(w, reset=True)\n            return w, []"),
     "R-C22-zero", "_get_zeroed")
fire("C22", "get_any-merged-branches-dirty-wire-to-zero",
     (R, "            w = self._any_state.pop()\n            self._loaned[w] = AllocateState.ANY\n            return w, []\n        w = self._zeroed.pop()\n",
         "            w = self._any_state.pop()\n        else:\n            w = self._zeroed.pop()\n"),
     "R-C22-zero", "_get_any")
fire("C22", "get_zeroed-always-back-to-zero",
     (R, "            w = self._zeroed.pop()\n            self._loaned[w] = AllocateState.ZERO if restored else AllocateState.ANY\n            return w, []\n        if self.allow_resets:",
         "            w = self._zeroed.pop()\n            self._loaned[w] = AllocateState.ZERO\n            return w, []\n        if self.allow_resets:"),
     "R-C22-zero", "_get_zeroed")
fire("C22", "return_wire-keeps-loan",
     (R, "        reg_type = self._loaned.pop(wire)", "        reg_type = self._loaned[wire]"),
     "R-C22-own", "return_wire")
fire("C22", "new_ops-keeps-wire_map-entry",
     (R, "                manager.return_wire(wire_map.pop(w))", "                manager.return_wire(wire_map[w])"),
     "R-C22-map", "_new_ops")
fire("C22", "new_ops-no-deallocated-record",
     (R, "                deallocated.add(w)\n", ""), "R-C22-map", "_new_ops")
fire("C22", "new_ops-drops-reset-ops",
     (R, "                yield from ops\n", ""), "R-C22-map", "_new_ops")
fire("C22", "device-free-wires-ignore-measured-wires",
     (P, "        zeroed = reversed([w for w in wires if w not in tape.wires])",
         "        used_wires = set(tape.op_wires)\n        zeroed = reversed([w for w in wires if w not in used_wires])"),
     "R-C22-free", "device_resolve_dynamic_wires")
fire("C22", "device-min_int-over-op-wires",
     (P, "        min_int = max((i for i in tape.wires if isinstance(i, int)), default=-1) + 1",
         "        min_int = max((i for i in tape.op_wires if isinstance(i, int)), default=-1) + 1"),
     "R-C22-free", "device_resolve_dynamic_wires")
fire("C22", "external-touch-of-registers",
     (R, "    wire_map = {}\n    deallocated = set()\n", "    wire_map = {}\n    deallocated = set()\n    manager._loaned.clear()\n"),
     "R-C22-own", "resolve_dynamic_wires")
silent("C22", "device-free-wires-set-of-all-wires",
       [(P, "        zeroed = reversed([w for w in wires if w not in tape.wires])",
            "        used_wires = set(tape.wires)\n        zeroed = reversed([w for w in wires if w not in used_wires])")])
silent("C22", "get_any-rename-local",
       [(R, "        w = self._zeroed.pop()\n        self._loaned[w] = AllocateState.ZERO if restored else AllocateState.ANY\n        return w, []\n\n    def get_wire",
            "        wire = self._zeroed.pop()\n        self._loaned[wire] = AllocateState.ZERO if restored else AllocateState.ANY\n        return wire, []\n\n    def get_wire")])

# --- R-C22-private / per-handout emit
_RDW = "pennylane/transforms/resolve_dynamic_wires.py"
fire("C22", "manager-keeps-callers-list-when-already-a-list",
     (_RDW, "        self._registers = {AllocateState.ZERO: list(zeroed), AllocateState.ANY: list(any_state)}",
            "        self._registers = {\n            AllocateState.ZERO: zeroed if isinstance(zeroed, list) else list(zeroed),\n"
            "            AllocateState.ANY: any_state if isinstance(any_state, list) else list(any_state),\n        }"),
     "R-C22-private", "_WireManager.__init__")
fire("C22", "manager-stores-any_state-by-reference",
     (_RDW, "        self._registers = {AllocateState.ZERO: list(zeroed), AllocateState.ANY: list(any_state)}",
            "        self._registers = {AllocateState.ZERO: list(zeroed), AllocateState.ANY: any_state}"),
     "R-C22-private", "_WireManager.__init__")
fire("C22", "reset-ops-emitted-after-the-per-wire-loop",
     (_RDW, "                wire, ops = manager.get_wire(**op.hyperparameters)\n                yield from ops\n                wire_map[w] = wire",
            "                wire, ops = manager.get_wire(**op.hyperparameters)\n                wire_map[w] = wire\n            yield from ops"),
     "R-C22-map", "_new_ops")
silent("C22", "manager-registers-built-by-comprehension-and-slice",
       [(_RDW, "        self._registers = {AllocateState.ZERO: list(zeroed), AllocateState.ANY: list(any_state)}",
               "        self._registers = {AllocateState.ZERO: [w for w in zeroed], AllocateState.ANY: list(any_state)[:]}")])
silent("C22", "reset-ops-emitted-after-recording-the-wire",
       [(_RDW, "                yield from ops\n                wire_map[w] = wire", "                wire_map[w] = wire\n                yield from ops")])

# --- R-C22-promise / R-C22-tapewires
fire("C22", "allocate-records-restored-for-every-any-state-request",
     ("pennylane/allocation.py", "        self._hyperparameters = {\"state\": state, \"restored\": restored}",
      "        restored = bool(restored) or AllocateState(state) == AllocateState.ANY\n        self._hyperparameters = {\"state\": state, \"restored\": restored}"),
     "R-C22-promise", "Allocate.__init__")
fire("C22", "copy-keeps-memoised-wires-when-measurements-change",
     ("pennylane/core/qscript.py", "        if \"operations\" not in update:\n            # batch size may change if operations were updated\n",
      "        if \"operations\" not in update:\n            if (cached_wires := self.__dict__.get(\"wires\")) is not None:\n                new_qscript.__dict__[\"wires\"] = cached_wires\n            # batch size may change if operations were updated\n"),
     "R-C22-tapewires", "QuantumScript.copy")
