from ..variants import fire, silent

CI = "pennylane/transforms/optimization/cancel_inverses.py"
MR = "pennylane/transforms/optimization/merge_rotations.py"
CC = "pennylane/transforms/optimization/commute_controlled.py"
SQ = "pennylane/transforms/optimization/single_qubit_fusion.py"
US = "pennylane/transforms/optimization/undo_swaps.py"
PRE = "pennylane/devices/preprocess.py"
TP = "pennylane/transforms/transpile.py"
PS = "pennylane/gradients/parameter_shift.py"
FD = "pennylane/gradients/finite_difference.py"
QS = "pennylane/core/qscript.py"

fire("C18", "cancel_inverses-aliases-operations", (CI, "    list_copy = tape.operations.copy()", "    list_copy = tape.operations"), "R-C18-effect", "cancel_inverses")
fire("C18", "single_qubit_fusion-aliases-operations", (SQ, "    list_copy = tape.operations.copy()", "    list_copy = tape.operations"), "R-C18-effect", "single_qubit_fusion")
fire("C18", "merge_rotations-consumes-input-when-nothing-to-expand",
     (MR, "    list_copy = expanded_tape.operations.copy()", "    list_copy = expanded_tape.operations"), "R-C18-effect", "merge_rotations")
fire("C18", "commute_controlled-helper-moves-gates-in-callers-list",
     (CC, "        op_list = _commute_controlled_right(tape.operations.copy())", "        op_list = _commute_controlled_right(tape.operations)"),
     "R-C18-effect", "commute_controlled")
fire("C18", "validate_device_wires-aliases-measurements",
     (PRE, "    measurements = tape.measurements.copy()\n    for m_idx, mp in enumerate(measurements):", "    measurements = tape.measurements\n    for m_idx, mp in enumerate(measurements):"),
     "R-C18-effect", "validate_device_wires")
fire("C18", "validate_device_wires-writes-snapshot-measurement-in-place",
     (PRE, "                new_mp = copy(mp)\n                new_mp._wires = wires  # pylint:disable=protected-access\n                new_ops[i] = Snapshot(\n                    measurement=new_mp,",
           "                mp._wires = wires  # pylint:disable=protected-access\n                new_ops[i] = Snapshot(\n                    measurement=mp,"),
     "R-C18-effect", "validate_device_wires")
fire("C18", "validate_device_wires-writes-measurement-in-place",
     (PRE, "            new_mp = copy(mp)\n            new_mp._wires = wires  # pylint:disable=protected-access\n            measurements[m_idx] = new_mp",
           "            mp._wires = wires  # pylint:disable=protected-access"),
     "R-C18-effect", "validate_device_wires")
fire("C18", "transpile-helper-aliases-measurements",
     (TP, "    measurements = expanded_tape.measurements.copy()", "    measurements = expanded_tape.measurements"), "R-C18-effect", "transpile")
fire("C18", "undo_swaps-sets-trainable-params-on-input",
     (US, "    new_tape.trainable_params = tape.trainable_params", "    tape.trainable_params = new_tape.trainable_params"), "R-C18-effect", "undo_swaps")
fire("C18", "param_shift-expand-guard-removed",
     (PS, "    if len(batch) > 1 or batch[0] is not tape:\n        _ = [_inplace_set_trainable_params(t) for t in batch]", "    _ = [_inplace_set_trainable_params(t) for t in batch]"),
     "R-C18-effect", "_expand_transform_param_shift")
fire("C18", "finite_diff-expand-guard-removed",
     (FD, "    if new_tape is tape:\n        return [tape], postprocessing\n", ""), "R-C18-effect", "_expand_transform_finite_diff")
fire("C18", "qscript-copy-shares-ops-list-and-sorts",
     (QS, "            _ops = self.operations.copy()\n", "            _ops = self.operations\n            _ops.sort(key=id)\n"), "R-C18-effect", "QuantumScript.copy")
fire("C18", "operator-hyperparameters-written-in-place",
     (US, "            gates.append(current_gate.map_wires(wire_map))", "            current_gate.hyperparameters[\"mapped\"] = True\n            gates.append(current_gate.map_wires(wire_map))"),
     "R-C18-effect", "undo_swaps")
silent("C18", "cancel_inverses-list-constructor", [(CI, "    list_copy = tape.operations.copy()", "    list_copy = list(tape.operations)")])
silent("C18", "merge_rotations-slice-copy", [(MR, "    list_copy = expanded_tape.operations.copy()", "    list_copy = expanded_tape.operations[:]")])
silent("C18", "undo_swaps-rename-local",
       [(US, "    new_tape = tape.copy(operations=gates)\n    new_tape.trainable_params = tape.trainable_params\n\n    return [new_tape], null_postprocessing",
             "    out = tape.copy(operations=gates)\n    out.trainable_params = tape.trainable_params\n\n    return [out], null_postprocessing")])
silent("C18", "finite_diff-guard-as-is-not",
       [(FD, "    if new_tape is tape:\n        return [tape], postprocessing\n    params = new_tape.get_parameters(trainable_only=False)\n    new_tape.trainable_params = math.get_trainable_indices(params)\n    return [new_tape], postprocessing",
             "    if new_tape is not tape:\n        params = new_tape.get_parameters(trainable_only=False)\n        new_tape.trainable_params = math.get_trainable_indices(params)\n    return [new_tape], postprocessing")])

BASE = "pennylane/core/operator/base.py"
fire("C18", "operator-map_wires-edits-self-reached-by-dispatch",
     (BASE, "        new_op = copy.copy(self)\n        new_op._wires = Wires([wire_map.get(wire, wire) for wire in self.wires])",
            "        new_op = self\n        new_op._wires = Wires([wire_map.get(wire, wire) for wire in self.wires])"),
     "R-C18-effect", "map_wires")

# --- parameter values (data) of owned operators: in-place arithmetic edits the caller's arrays
CGP = "pennylane/transforms/combine_global_phases.py"
SNC = "pennylane/transforms/split_non_commuting.py"
DM = "pennylane/transforms/diagonalize_measurements.py"
fire("C18", "combine_global_phases-accumulator-starts-from-owned-parameter",
     (CGP, "            has_global_phase = True\n            phi += op.parameters[0]",
           "            if not has_global_phase:\n                phi = op.parameters[0]\n            else:\n                phi += op.parameters[0]\n            has_global_phase = True"),
     "R-C18-effect", "combine_global_phases")
silent("C18", "combine_global_phases-rebinding-sum",
       [(CGP, "            phi += op.parameters[0]", "            phi = phi + op.parameters[0]")])
fire("C18", "split_non_commuting-duplicate-term-coefficient-added-in-place",
     (SNC, "                    single_term_obs_mps[mp].coeffs[0] = single_term_obs_mps[mp].coeffs[0] + coeff",
           "                    single_term_obs_mps[mp].coeffs[0] += coeff"),
     "R-C18-effect", "split_non_commuting")
fire("C18", "diagonalize_measurements-writes-base-into-owned-hyperparameters-via-singledispatch",
     (DM, "    hyperparams = copy(hyperparams)\n    hyperparams[\"base\"] = new_base", "    hyperparams[\"base\"] = new_base"),
     "R-C18-effect", "diagonalize_measurements")
silent("C18", "split_non_commuting-rebinding-sum",
       [(SNC, "                    single_term_obs_mps[mp].coeffs[0] = single_term_obs_mps[mp].coeffs[0] + coeff",
              "                    first = single_term_obs_mps[mp].coeffs[0]\n                    single_term_obs_mps[mp].coeffs[0] = first + coeff")])
