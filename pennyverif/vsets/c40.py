from ..variants import fire, silent

QS = "pennylane/core/qscript.py"
BNP = "pennylane/ops/functions/bind_new_parameters.py"
fire("C40", "init-stores-callers-trainable-params",
     (QS, "            ordered = sorted(set(trainable_params))\n            trainable_params = tuple(ordered) if isinstance(trainable_params, tuple) else ordered\n", "            ordered = sorted(set(trainable_params))\n            trainable_params = trainable_params if list(trainable_params) == ordered else ordered\n"),
     "R-C40-alias", "QuantumScript.__init__")
fire("C40", "init-stores-callers-ops-list",
     (QS, "        self._ops = [] if ops is None else list(ops)", "        self._ops = [] if ops is None else ops"), "R-C40-alias", "QuantumScript.__init__")
fire("C40", "copy-shares-measurement-list-after-construction",
     (QS, "        # copy cached properties when relevant\n", "        new_qscript._measurements = self._measurements\n        # copy cached properties when relevant\n"),
     "R-C40-alias", "QuantumScript.copy")
fire("C40", "generic-handler-writes-data-on-input",
     (BNP, "        new_op = copy.deepcopy(op)\n        new_op._data = tuple(params)", "        new_op = op\n        new_op._data = tuple(params)"),
     "R-C40-bind", "bind_new_parameters")
fire("C40", "symbolic-handler-writes-hyperparameters-on-input",
     (BNP, "    new_hyperparameters = copy.deepcopy(op.hyperparameters)\n", "    new_hyperparameters = op.hyperparameters\n    new_hyperparameters[\"rebound\"] = True\n"),
     "R-C40-bind", "bind_new_parameters_symbolic_op")
silent("C40", "init-sorted-without-set",
       [(QS, "            ordered = sorted(set(trainable_params))\n            trainable_params = tuple(ordered) if isinstance(trainable_params, tuple) else ordered\n", "            trainable_params = sorted(trainable_params)\n")])
fire("C40", "init-keeps-callers-order",
     (QS, "            ordered = sorted(set(trainable_params))\n            trainable_params = tuple(ordered) if isinstance(trainable_params, tuple) else ordered\n", "            trainable_params = list(trainable_params)\n"),
     "R-C40-canon", "QuantumScript.__init__")
silent("C40", "generic-handler-shallow-copy",
       [(BNP, "        new_op = copy.deepcopy(op)\n        new_op._data = tuple(params)", "        new_op = copy.copy(op)\n        new_op._data = tuple(params)")])
fire("C40", "setter-keeps-insertion-order",
     (QS, "        self._trainable_params = sorted(set(param_indices))", "        self._trainable_params = list(dict.fromkeys(param_indices))"),
     "R-C40-canon", "trainable_params")
fire("C40", "copy-carries-par_info-when-measurements-change",
     (QS, "        # copy cached properties when relevant\n",
          "        if \"operations\" not in update and \"par_info\" in self.__dict__:\n            new_qscript.__dict__[\"par_info\"] = self.par_info\n        # copy cached properties when relevant\n"),
     "R-C40-cache", "QuantumScript.copy")
fire("C40", "copy-carries-batch-size-unconditionally",
     (QS, "        if \"operations\" not in update:\n            # batch size may change if operations were updated\n            new_qscript._batch_size = self._batch_size",
          "        if \"measurements\" not in update:\n            # batch size may change if operations were updated\n            new_qscript._batch_size = self._batch_size"),
     "R-C40-cache", "QuantumScript.copy")
fire("C40", "copy-batch-size-guard-tests-truthiness-of-update-value",
     (QS, "        if \"operations\" not in update:\n            # batch size may change if operations were updated\n            new_qscript._batch_size = self._batch_size",
          "        if not update.get(\"operations\"):\n            # batch size may change if operations were updated\n            new_qscript._batch_size = self._batch_size"),
     "R-C40-cache", "QuantumScript.copy")
silent("C40", "copy-batch-size-guard-as-negated-in",
       [(QS, "        if \"operations\" not in update:\n            # batch size may change if operations were updated\n            new_qscript._batch_size = self._batch_size",
             "        if not (\"operations\" in update):\n            # batch size may change if operations were updated\n            new_qscript._batch_size = self._batch_size")])
