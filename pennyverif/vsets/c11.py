"""Seeded variants for C11 (declared decomposition resources match the emitted gates)."""

from ..variants import fire, silent

CO = "pennylane/ops/op_math/controlled_ops.py"
NP = "pennylane/ops/qubit/non_parametric_ops.py"
SQ = "pennylane/ops/qubit/parametric_ops_single_qubit.py"
MQ = "pennylane/ops/qubit/parametric_ops_multi_qubit.py"
C2 = "pennylane/ops/op_math/controlled2.py"
CD = "pennylane/ops/op_math/decompositions/controlled_decompositions.py"
GR = "pennylane/templates/subroutines/grover.py"

# ------------------------------------------------------------------------------------------ count
fire("C11", "toffoli-declares-5-cnot",
     (CO, "        qp.Hadamard: 2,\n        qp.CNOT: 6,\n        qp.T: 4,", "        qp.Hadamard: 2,\n        qp.CNOT: 5,\n        qp.T: 4,"),
     "R-C11-count", "_toffoli")
fire("C11", "rx_to_rz_ry-drops-an-rz",
     (SQ, "    qp.RZ(np.pi / 2, wires=wires)\n    qp.RY(phi, wires=wires)\n    qp.RZ(-np.pi / 2, wires=wires)\n",
          "    qp.RZ(np.pi / 2, wires=wires)\n    qp.RY(phi, wires=wires)\n"),
     "R-C11-count", "_rx_to_rz_ry")
fire("C11", "controlled-hadamard-branch-count",
     (NP, "        qp.H: 2,\n        qp.RY: 2,\n        _ctrl_abstract(", "        qp.H: 2,\n        qp.RY: 3,\n        _ctrl_abstract("),
     "R-C11-count", "_controlled_hadamard")
fire("C11", "controlled-hadamard-single-control-branch",
     (NP, "    if len(control_wires) == 1:\n        qp.CH(wires)\n        return\n", "    if len(control_wires) == 1:\n        qp.CH(wires)\n        qp.CH(wires)\n        return\n"),
     "R-C11-count", "_controlled_hadamard")
fire("C11", "ccz-adjoint-dropped",
     (CO, "    qp.T(wires=wires[0])\n    qp.adjoint(qp.T(wires=wires[1]))\n    qp.CNOT(wires=[wires[0], wires[1]])\n    qp.Hadamard(wires=wires[2])\n",
          "    qp.T(wires=wires[0])\n    qp.T(wires=wires[1])\n    qp.CNOT(wires=[wires[0], wires[1]])\n    qp.Hadamard(wires=wires[2])\n"),
     "R-C11-count", "_ccz")
fire("C11", "grover-loop-trip-count",
     (GR, "        Hadamard: (num_wires - 1) * 2,", "        Hadamard: num_wires * 2,"),
     "R-C11-count", "_grover_decomposition")
fire("C11", "multirz-loop-bound",
     (MQ, "    @qp.for_loop(1, len(wires), 1)\n    def _post_cnot(i):", "    @qp.for_loop(2, len(wires), 1)\n    def _post_cnot(i):"),
     "R-C11-count", "_multi_rz_decomposition")
fire("C11", "hadamard-ppm-missing-correction",
     (NP, "        qp.cond(m1, qp.Z)(work_wires[0])  # Reset work wire to |+>\n", ""),
     "R-C11-count", "_hadamard_ppm")
fire("C11", "swap-ppr-wrong-pauli-word",
     (NP, '        qp.PauliRot(Float, pauli_word="XX", wires=Wire[2]): 1,\n        qp.PauliRot(Float, pauli_word="YY", wires=Wire[2]): 1,\n        qp.PauliRot(Float, pauli_word="ZZ", wires=Wire[2]): 1,\n        qp.GlobalPhase: 1,\n    }\n\n\n@register_resources(_swap_to_ppr_resource)',
          '        qp.PauliRot(Float, pauli_word="XX", wires=Wire[2]): 1,\n        qp.PauliRot(Float, pauli_word="YY", wires=Wire[2]): 1,\n        qp.PauliRot(Float, pauli_word="ZX", wires=Wire[2]): 1,\n        qp.GlobalPhase: 1,\n    }\n\n\n@register_resources(_swap_to_ppr_resource)'),
     "R-C11-set", "_swap_to_ppr")
fire("C11", "helper-emits-extra-gate",
     (CO, "    qp.PauliRot(np.pi / 2, p0 + p1, wires=wires)\n    qp.GlobalPhase(np.pi / 4)\n",
          "    qp.PauliRot(np.pi / 2, p0 + p1, wires=wires)\n    qp.GlobalPhase(np.pi / 4)\n    qp.GlobalPhase(np.pi / 4)\n"),
     "R-C11-count", "_cnot_to_ppr")
fire("C11", "generic-rule-wrapper-order",
     ("pennylane/ops/op_math/pow2.py", "    adjoint(qp.pow(base.base, z))\n", "    qp.pow(adjoint(base.base), z)\n"),
     "R-C11-count", "flip_pow_adjoint")

# ------------------------------------------------------------------------------------------ set
fire("C11", "rx_to_rot-emits-undeclared-S",
     (SQ, "    qp.Rot(np.pi / 2, phi, 3.5 * np.pi, wires=wires)\n", "    qp.Rot(np.pi / 2, phi, 3.5 * np.pi, wires=wires)\n    qp.S(wires)\n"),
     "R-C11-set", "_rx_to_rot")
fire("C11", "inexact-rule-undeclared-type",
     (CD, "        qp.CNOT(wires=wires)\n        qp.cond(math.logical_not(control_values[0]), qp.X)(wires[1])\n        return\n",
          "        qp.CNOT(wires=wires)\n        qp.cond(math.logical_not(control_values[0]), qp.X)(wires[1])\n        qp.S(wires[0])\n        return\n"),
     "R-C11-set", "mcx_to_cnot_or_toffoli")

# ------------------------------------------------------------------------------------------ work wires
fire("C11", "toffoli-elbow-declares-borrowed",
     (CO, '@register_resources(_toffoli_elbow_resources, work_wires={"zeroed": 1})', '@register_resources(_toffoli_elbow_resources, work_wires={"borrowed": 1})'),
     "R-C11-work", "_toffoli_elbow")
fire("C11", "hadamard-ppm-undeclared-work-wire",
     (NP, '@qp.register_resources(_hadamard_ppm_resources, work_wires={"burnable": 1})', "@qp.register_resources(_hadamard_ppm_resources)"),
     "R-C11-work", "_hadamard_ppm")
fire("C11", "hadamard-ppm-restored-flag",
     (NP, '    with qp.allocate(1, state="zero", restored=False) as work_wires:\n        qp.Z(wires)',
          '    with qp.allocate(1, state="zero", restored=True) as work_wires:\n        qp.Z(wires)'),
     "R-C11-work", "_hadamard_ppm")
fire("C11", "single-work-wire-allocates-two",
     (C2, '    with allocation.allocate(1, state="zero", restored=True) as aux:', '    with allocation.allocate(2, state="zero", restored=True) as aux:'),
     "R-C11-work", "_ctrl_single_work_wire")
fire("C11", "nested-allocation-exceeds-declared",
     (C2, '    with allocation.allocate(1, state="zero", restored=True) as aux:\n        qp.ctrl(qp.X(aux[0]), control=control_wires)\n        qp.ctrl(base, control=aux[0])\n',
          '    with allocation.allocate(1, state="zero", restored=True) as aux:\n        qp.ctrl(qp.X(aux[0]), control=control_wires)\n'
          '        with allocation.allocate(1, state="zero", restored=True) as aux2:\n            qp.ctrl(base, control=aux[0])\n'),
     "R-C11-work", "_ctrl_single_work_wire")

# ------------------------------------------------------------------------------------------ behaviour-preserving controls
silent("C11", "resource-dict-split-across-statements",
       [(CO, "def _toffoli_resources(wires: WiresLike):\n    return {\n        qp.Hadamard: 2,\n        qp.CNOT: 6,\n        qp.T: 4,\n        _adjoint_abstract(qp.T): 3,\n    }\n",
             "def _toffoli_resources(wires: WiresLike):\n    d = {\n        qp.Hadamard: 2,\n        qp.CNOT: 6,\n        qp.T: 4,\n    }\n    d[_adjoint_abstract(qp.T)] = 3\n    return d\n")])
silent("C11", "reorder-independent-emissions",
       [(CO, "    qp.RY(-np.pi / 4, wires=wires[1])\n    qp.CZ(wires=wires)\n    qp.RY(+np.pi / 4, wires=wires[1])\n",
             "    qp.CZ(wires=wires)\n    qp.RY(-np.pi / 4, wires=wires[1])\n    qp.RY(+np.pi / 4, wires=wires[1])\n")])
silent("C11", "alias-H-for-Hadamard",
       [(CO, "    return {qp.Hadamard: 2, qp.Toffoli: 1}", "    return {qp.H: 2, qp.ops.Toffoli: 1}")])
silent("C11", "resource-function-as-lambda",
       [(CO, "@register_resources(_cz_to_cnot_resources)\n", "@register_resources(lambda wires=None, **_: {qp.Hadamard: 2, qp.CNOT: 1})\n")])
silent("C11", "count-expression-rewritten",
       [(GR, "        Hadamard: (num_wires - 1) * 2,", "        Hadamard: 2 * num_wires - 2,")])
silent("C11", "condition-operands-swapped",
       [(NP, "    wires = control_wires + base.wires\n    if len(control_wires) == 1:\n        qp.CH(wires)\n        return\n",
             "    wires = control_wires + base.wires\n    n_ctrl = len(control_wires)\n    if 1 == n_ctrl:\n        qp.CH(wires)\n        return\n")])
silent("C11", "adjoint-of-class-then-call",
       [(CO, "    qp.CNOT(wires=[wires[1], wires[2]])\n    qp.adjoint(qp.T(wires=wires[2]))\n", "    qp.CNOT(wires=[wires[1], wires[2]])\n    qp.adjoint(qp.T)(wires=wires[2])\n")])
silent("C11", "toffoli-written-as-ctrl-x",
       [(CO, "    qp.Toffoli(wires=[wires[0], wires[1], wires[2]])\n", "    qp.ctrl(qp.X(wires[2]), control=[wires[0], wires[1]])\n")])
silent("C11", "operator-bound-to-a-name-then-wrapped",
       [(NP, "    qp.adjoint(qp.S(wires[-1]))\n    qp.ctrl(\n        qp.X(wires[-1]), control=wires[:-1]",
             "    s_gate = qp.S(wires[-1])\n    qp.adjoint(s_gate)\n    qp.ctrl(\n        qp.X(wires[-1]), control=wires[:-1]")])
silent("C11", "python-loop-instead-of-for_loop",
       [(MQ, "    @qp.for_loop(1, len(wires), 1)\n    def _post_cnot(i):\n        qp.CNOT(wires=(wires[i], wires[i - 1]))\n",
             "    def _post_cnot():\n        for i in range(1, len(wires)):\n            qp.CNOT(wires=(wires[i], wires[i - 1]))\n")])
silent("C11", "allocate-positional-state",
       [(C2, '    with allocation.allocate(1, state="zero", restored=True) as aux:', '    with allocation.allocate(1, allocation.AllocateState.ZERO, restored=True) as aux:')])
