"""Seeded variants for R-C10-mod (angle reductions in decomposition rules and helpers; pennyverif/modrule.py)."""

from ..variants import fire, silent

P = "C10"
R = "R-C10-mod"
UD = "pennylane/ops/op_math/decompositions/unitary_decompositions.py"
MD = "pennylane/math/decomposition.py"

fire(P, "su2-rot-decomp-rz-sum-mod-2pi",
     (UD, "        ops.RZ((phi + omega) % (4 * np.pi), wires=wires[0])", "        ops.RZ((phi + omega) % (2 * np.pi), wires=wires[0])"),
     R, "_su2_rot_decomp")
# first `theta = math.squeeze(theta % ...)` of the module is zyz_rotation_angles'; the angle is returned and
# reaches Rot(theta)/RY in the rules that unpack the result
fire(P, "zyz-rotation-angles-theta-mod-2pi",
     (MD, "    theta = math.squeeze(theta % (4 * np.pi))\n", "    theta = math.squeeze(theta % (2 * np.pi))\n"),
     R, "zyz_rotation_angles")
fire(P, "zyz-rotation-angles-phi-mod-pi",
     (MD, "    phi = math.squeeze(phi % (4 * np.pi))\n", "    phi = math.squeeze(phi % np.pi)\n"),
     R, "Rot.phi")
fire(P, "su2-rot-decomp-local-reduced-mod-2pi",
     (UD, "        ops.RZ((phi + omega) % (4 * np.pi), wires=wires[0])",
          "        total = math.squeeze((phi + omega) % (2 * np.pi))\n        ops.RZ(total, wires=wires[0])"),
     R, "RZ.phi")

silent(P, "su2-rot-decomp-modulus-respelled",
       [(UD, "        ops.RZ((phi + omega) % (4 * np.pi), wires=wires[0])", "        ops.RZ((phi + omega) % (np.pi * 4), wires=wires[0])")])
silent(P, "su2-rot-decomp-mod-8pi-through-local",
       [(UD, "        ops.RZ((phi + omega) % (4 * np.pi), wires=wires[0])",
             "        total = (phi + omega) % (8 * np.pi)\n        ops.RZ(total, wires=wires[0])")])
silent(P, "zyz-rotation-angles-omega-respelled",
       [(MD, "    omega = math.squeeze(omega % (4 * np.pi))\n", "    omega = math.squeeze(omega % (2 * (2 * np.pi)))\n")])
