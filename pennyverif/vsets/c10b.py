"""Seeded variants for R-C10-mod (angle reductions in decomposition rules and helpers; pennyverif/modrule.py)."""

from ..variants import fire, silent

P = "C10"
R = "R-C10-mod"
UD = "pennylane/ops/op_math/decompositions/unitary_decompositions.py"
MD = "pennylane/math/decomposition.py"

fire(P, "su2-rot-decomp-rz-sum-mod-2pi",
     (UD, "        ops.RZ((phi + omega) % (4 * np.pi), wires=wires[0])", "        ops.RZ((phi + omega) % (2 * np.pi), wires=wires[0])"),
     R, "_su2_rot_decomp")
# first `theta = math.squeeze(theta % ...)` of the module is zyz_rotation_angles'; the angle is returned and
# reaches Rot(theta)/RY in the rules that unpack the result
fire(P, "zyz-rotation-angles-theta-mod-2pi",
     (MD, "    theta = math.squeeze(theta % (4 * np.pi))\n", "    theta = math.squeeze(theta % (2 * np.pi))\n"),
     R, "zyz_rotation_angles")
fire(P, "zyz-rotation-angles-phi-mod-pi",
     (MD, "    phi = math.squeeze(phi % (4 * np.pi))\n", "    phi = math.squeeze(phi % np.pi)\n"),
     R, "Rot.phi")
fire(P, "su2-rot-decomp-local-reduced-mod-2pi",
     (UD, "        ops.RZ((phi + omega) % (4 * np.pi), wires=wires[0])",
          "        total = math.squeeze((phi + omega) % (2 * np.pi))\n        ops.RZ(total, wires=wires[0])"),
     R, "RZ.phi")

silent(P, "su2-rot-decomp-modulus-respelled",
       [(UD, "        ops.RZ((phi + omega) % (4 * np.pi), wires=wires[0])", "        ops.RZ((phi + omega) % (np.pi * 4), wires=wires[0])")])
silent(P, "su2-rot-decomp-mod-8pi-through-local",
       [(UD, "        ops.RZ((phi + omega) % (4 * np.pi), wires=wires[0])",
             "        total = (phi + omega) % (8 * np.pi)\n        ops.RZ(total, wires=wires[0])")])
silent(P, "zyz-rotation-angles-omega-respelled",
       [(MD, "    omega = math.squeeze(omega % (4 * np.pi))\n", "    omega = math.squeeze(omega % (2 * (2 * np.pi)))\n")])

# --- R-C10-powmod
_NP = "pennylane/ops/qubit/non_parametric_ops.py"
fire("C10", "pow-s-to-t-condition-uses-half-period",
     (_NP, "@register_condition(lambda z, **_: math.shape(z) == () and math.allclose(z % 4, 0.5))\n@register_resources(lambda **_: {qp.T: 1})\ndef _pow_s_to_t",
           "@register_condition(lambda z, **_: math.shape(z) == () and math.allclose(z % 2, 0.5))\n@register_resources(lambda **_: {qp.T: 1})\ndef _pow_s_to_t"),
     "R-C10-powmod", "_pow_s_to_t")
fire("C10", "pow-sx-body-reduces-modulo-two",
     (_NP, "    z_mod4 = qp.math.array(z) % 4\n    qp.RX(", "    z_mod4 = qp.math.array(z) % 2\n    qp.RX("),
     "R-C10-powmod", "_pow_sx")
silent("C10", "pow-z-to-s-condition-uses-double-period",
       [(_NP, "@register_condition(lambda z, **_: math.shape(z) == () and math.allclose(z % 2, 0.5))\n@register_resources(lambda **_: {qp.S: 1})",
              "@register_condition(lambda z, **_: math.shape(z) == () and (math.allclose(z % 4, 0.5) or math.allclose(z % 4, 2.5)))\n@register_resources(lambda **_: {qp.S: 1})")])
