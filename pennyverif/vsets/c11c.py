"""C11 / R-C11-work on rules whose ``work_wires=`` is a work-wire spec *function* (props/c11_work.py)."""
from ..variants import fire, silent

SA = "pennylane/templates/subroutines/arithmetic/semi_adder.py"
PU = "pennylane/templates/state_preparations/partial_unary.py"

_SPEC_HEAD = "def _semi_adder_work_wires(y_wires=None, work_wires=(), base=None, **_):"
_SPEC_TAIL = ("    num_work_wires_needed = len(y_wires) - 1\n"
              "    num_work_wires_provided = len(work_wires)\n"
              "    return {\"zeroed\": max(num_work_wires_needed - num_work_wires_provided, 0)}\n")

# the spec under-declares when x is shorter than y (|x|=1, |y|=3, no work wires: declares 1, the ladders allocate 2)
fire("C11", "semi-adder-spec-crossover-instead-of-y",
     [(SA, _SPEC_HEAD, "def _semi_adder_work_wires(x_wires=None, y_wires=None, work_wires=(), base=None, **_):"),
      (SA, "    num_work_wires_needed = len(y_wires) - 1\n", "    num_work_wires_needed = min(len(y_wires) - 1, len(x_wires))\n")],
     "R-C11-work", "_semi_adder")
# the body allocates one wire more than the ladders need (and than the spec declares)
fire("C11", "semi-adder-body-allocates-one-more",
     (SA, "        work_wires += list(allocate(num_y_wires - 1 - len(work_wires), restored=True))",
          "        work_wires += list(allocate(num_y_wires - len(work_wires), restored=True))"),
     "R-C11-work", "_semi_adder")
# wires that are not restored are burnable, the spec declares zeroed only
fire("C11", "semi-adder-body-allocates-unrestored",
     (SA, "        work_wires += list(allocate(num_y_wires - 1 - len(work_wires), restored=True))",
          "        work_wires += list(allocate(num_y_wires - 1 - len(work_wires), restored=False))"),
     "R-C11-work", "_semi_adder")
# the controlled rule keeps one base work wire too few and allocates the difference although the spec says nothing is needed
fire("C11", "controlled-semi-adder-keeps-one-base-wire-too-few",
     (SA, "    base_work_wires = list(base_work_wires[: len(y_wires) - 1])", "    base_work_wires = list(base_work_wires[: len(y_wires) - 2])"),
     "R-C11-work", "_controlled_semi_adder")
# spec of an operator with resource_params (num_entries = len(indices)): one wire short from 5 entries on
fire("C11", "pui-spec-declares-one-work-wire-less",
     (PU, "    return {\"zeroed\": max(math.ceil_log2(num_entries) - 1, 1)}", "    return {\"zeroed\": max(math.ceil_log2(num_entries) - 2, 1)}"),
     "R-C11-work", "_pui_state_prep_dyn_work_wires")

# --- behaviour-preserving rewrites
silent("C11", "semi-adder-spec-locals-inlined",
       [(SA, _SPEC_TAIL, "    return {\"zeroed\": max(len(y_wires) - 1 - len(work_wires), 0)}\n")])
silent("C11", "semi-adder-spec-max-arguments-swapped",
       [(SA, _SPEC_TAIL, "    missing = len(y_wires) - len(work_wires) - 1\n    return dict(zeroed=max(0, missing))\n")])
silent("C11", "semi-adder-spec-branches-instead-of-max",
       [(SA, _SPEC_TAIL, "    n = len(y_wires) - 1\n    if len(work_wires) >= n:\n        return {\"zeroed\": 0}\n    return {\"zeroed\": n - len(work_wires)}\n")])
silent("C11", "semi-adder-body-starred-display-and-local-count",
       [(SA, "    if len(work_wires) < num_y_wires - 1:\n        # The right ladder restores the work wires to zero, so they can be borrowed and returned.\n"
             "        work_wires += list(allocate(num_y_wires - 1 - len(work_wires), restored=True))\n",
             "    missing = num_y_wires - 1 - len(work_wires)\n    if missing > 0:\n"
             "        work_wires = [*work_wires, *allocate(missing, state=\"zero\", restored=True)]\n")])
silent("C11", "pui-spec-max-arguments-swapped-local",
       [(PU, "    return {\"zeroed\": max(math.ceil_log2(num_entries) - 1, 1)}",
             "    depth = math.ceil_log2(num_entries)\n    return {\"zeroed\": max(1, depth - 1)}")])
silent("C11", "semi-adder-body-allocates-in-helper",
       [(SA, "    if len(work_wires) < num_y_wires - 1:\n        # The right ladder restores the work wires to zero, so they can be borrowed and returned.\n"
             "        work_wires += list(allocate(num_y_wires - 1 - len(work_wires), restored=True))\n",
             "    work_wires = _fill(work_wires, num_y_wires - 1)\n"),
        (SA, "def _semi_adder_resources(x_wires, y_wires, **_):",
             "def _fill(ws, n):\n    if len(ws) < n:\n        ws = ws + list(allocate(n - len(ws), restored=True))\n    return ws\n\n\n"
             "def _semi_adder_resources(x_wires, y_wires, **_):")])

# --- R-C11-exactprop
fire("C11", "adjoint-wrapper-claims-exact-resources-for-any-base-rule",
     ("pennylane/ops/op_math/adjoint2.py", "        exact=base_rule.exact_resources,\n", ""),
     "R-C11-exactprop", "_make_adjoint_decomp")
silent("C11", "adjoint-wrapper-registered-inexact",
       [("pennylane/ops/op_math/adjoint2.py", "        exact=base_rule.exact_resources,\n", "        exact=False,\n")])
