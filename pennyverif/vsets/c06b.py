from ..variants import fire, silent

PT = "pennylane/pytrees/pytrees.py"
fire("C06", "flatten_dict-sorted-keys-insertion-values",
     (PT, "    return obj.values(), tuple(obj.keys())", "    try:\n        keys = tuple(sorted(obj))\n    except TypeError:\n        keys = tuple(obj)\n    return obj.values(), keys"),
     "R-C06-containers", "flatten_dict")
fire("C06", "unflatten_dict-zip-swapped",
     (PT, "    return dict(zip(metadata, data, strict=True))", "    return dict(zip(data, metadata, strict=True))"), "R-C06-containers", "unflatten_dict")
fire("C06", "unflatten-table-lacks-dict",
     (PT, "    tuple: unflatten_tuple,\n    dict: unflatten_dict,\n", "    tuple: unflatten_tuple,\n"), "R-C06-containers", "unflatten_registrations")
silent("C06", "flatten_dict-both-sorted",
       [(PT, "    return obj.values(), tuple(obj.keys())", "    keys = tuple(sorted(obj))\n    return [obj[k] for k in keys], keys")])
