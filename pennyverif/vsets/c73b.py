from ..variants import fire, silent

S = "pennylane/devices/qubit/sampling.py"
fire("C73", "shots-not-scaled-by-batch-size",
     (S, "        num_executions *= tape.batch_size\n        if tape.shots:\n            num_shots *= tape.batch_size\n", "        num_executions *= tape.batch_size\n"),
     "R-C73-shots", "get_num_shots_and_executions")
fire("C73", "sum-shots-not-multiplied-by-groups",
     (S, "                num_shots += tape.shots.total_shots * sum_executions", "                num_shots += tape.shots.total_shots"),
     "R-C73-shots", "get_num_shots_and_executions")
silent("C73", "shots-product-commuted",
       [(S, "                num_shots += tape.shots.total_shots * H_executions", "                num_shots += H_executions * tape.shots.total_shots")])

# --- R-C73-percircuit / R-C73-instance
_ST = "pennylane/devices/modifiers/simulator_tracking.py"
_DEV = "pennylane/devices/device_api.py"
_DQ = "pennylane/devices/default_qubit.py"
fire("C73", "counts-memoised-on-shots-and-measurements-only",
     (_ST, "            for r, c in zip(batch_results, batch, strict=True):\n                qpu_executions, shots = get_num_shots_and_executions(c)\n",
           "            counts = {}\n            for r, c in zip(batch_results, batch, strict=True):\n                key = (c.shots, tuple(hash(mp) for mp in c.measurements))\n"
           "                if key not in counts:\n                    counts[key] = get_num_shots_and_executions(c)\n                qpu_executions, shots = counts[key]\n"),
     "R-C73-percircuit", "_track_execute.execute")
fire("C73", "counts-taken-from-first-circuit",
     (_ST, "            for r, c in zip(batch_results, batch, strict=True):\n                qpu_executions, shots = get_num_shots_and_executions(c)\n",
           "            qpu_executions, shots = get_num_shots_and_executions(batch[0])\n            for r, c in zip(batch_results, batch, strict=True):\n"),
     "R-C73-percircuit", "_track_execute.execute") if False else None
fire("C73", "device-constructor-keeps-class-level-tracker",
     (_DEV, "        # each instance should have its own Tracker.\n        self.tracker = Tracker()\n", ""),
     "R-C73-instance", "Device.__init__")
fire("C73", "device-constructor-creates-tracker-only-when-shots",
     (_DEV, "        self.tracker = Tracker()\n", "        if shots is not None:\n            self.tracker = Tracker()\n"),
     "R-C73-instance", "Device.__init__")
silent("C73", "counting-call-renamed-locals",
       [(_ST, "                qpu_executions, shots = get_num_shots_and_executions(c)\n                if c.shots:\n                    self.tracker.update(\n                        simulations=1,\n                        executions=qpu_executions,\n                        results=r,\n                        shots=shots,",
              "                n_exec, n_shots = get_num_shots_and_executions(c)\n                qpu_executions = n_exec\n                if c.shots:\n                    self.tracker.update(\n                        simulations=1,\n                        executions=qpu_executions,\n                        results=r,\n                        shots=n_shots,")])

# --- R-C73-specs / R-C73-inherit
fire("C73", "copy-keeps-memoised-specs-when-measurements-change",
     ("pennylane/core/qscript.py", "        if \"operations\" not in update:\n            # batch size may change if operations were updated\n",
      "        if \"operations\" not in update:\n            new_qscript._specs = self._specs\n            # batch size may change if operations were updated\n"),
     "R-C73-specs", "QuantumScript.copy")
fire("C73", "wrappers-installed-only-for-methods-in-the-class-namespace",
     ("pennylane/devices/modifiers/simulator_tracking.py", "        if getattr(cls, name) != getattr(Device, name):\n            original = getattr(cls, name)\n            setattr(cls, name, modifier(original))",
      "        if name in vars(cls):\n            setattr(cls, name, modifier(vars(cls)[name]))"),
     "R-C73-inherit", "simulator_tracking")
