from ..variants import fire, silent

S = "pennylane/devices/qubit/sampling.py"
fire("C73", "shots-not-scaled-by-batch-size",
     (S, "        num_executions *= tape.batch_size\n        if tape.shots:\n            num_shots *= tape.batch_size\n", "        num_executions *= tape.batch_size\n"),
     "R-C73-shots", "get_num_shots_and_executions")
fire("C73", "sum-shots-not-multiplied-by-groups",
     (S, "                num_shots += tape.shots.total_shots * sum_executions", "                num_shots += tape.shots.total_shots"),
     "R-C73-shots", "get_num_shots_and_executions")
silent("C73", "shots-product-commuted",
       [(S, "                num_shots += tape.shots.total_shots * H_executions", "                num_shots += H_executions * tape.shots.total_shots")])
