from ..variants import fire, silent

DQ = "pennylane/devices/default_qubit.py"
DC = "pennylane/devices/default_clifford.py"
SIM = "pennylane/devices/qubit/simulate.py"
AO = "pennylane/devices/qubit/apply_operation.py"
fire("C31", "shared-generator-handed-to-workers",
     (DQ, "                \"rng\": _rng,\n                \"prng_key\": _key,", "                \"rng\": self._rng,\n                \"prng_key\": _key,"),
     "R-C31-seed", "DefaultQubit.execute")
fire("C31", "seeds-drawn-only-on-one-branch",
     (DQ, "        seeds = self._rng.integers(2**31 - 1, size=len(vanilla_circuits))\n        simulate_kwargs = [",
          "        seeds = range(len(vanilla_circuits))\n        if self._debugger is None:\n            seeds = self._rng.integers(2**31 - 1, size=len(vanilla_circuits))\n        simulate_kwargs = ["),
     "R-C31-seed", "DefaultQubit.execute")
fire("C31", "clifford-worker-reads-device-generator",
     (DC, "        tableau_simulator = stim.TableauSimulator()\n", "        seed = seed if seed is not None else self._rng.integers(2**31 - 1)\n        tableau_simulator = stim.TableauSimulator()\n"),
     "R-C31-seed", "DefaultClifford.execute")
fire("C31", "results-sorted-after-map",
     (DQ, "            exec_map = executor.map(_simulate_wrapper, vanilla_circuits, simulate_kwargs)\n            results = tuple(exec_map)",
          "            exec_map = executor.map(_simulate_wrapper, vanilla_circuits, simulate_kwargs)\n            results = tuple(sorted(exec_map, key=str))"),
     "R-C31-order", "DefaultQubit.execute")
fire("C31", "results-deduplicated-through-set",
     (DC, "            exec_map = executor.map(_wrap_simulate, vanilla_circuits, seeds)\n            results = tuple(exec_map)",
          "            exec_map = executor.map(_wrap_simulate, vanilla_circuits, seeds)\n            results = tuple(set(exec_map))"),
     "R-C31-order", "DefaultClifford.execute")
fire("C31", "unguarded-global-binomial",
     (SIM, "            binomial_fn = np.random.binomial if rng is None else rng.binomial", "            binomial_fn = np.random.binomial"),
     "R-C31-norng", "_postselection_postprocess")
fire("C31", "unguarded-global-binomial-mid-measure",
     (AO, "        binomial_fn = np.random.binomial if rng is None else rng.binomial", "        binomial_fn = np.random.binomial"),
     "R-C31-norng", "apply_mid_measure")
silent("C31", "seeds-renamed",
       [(DC, "        seeds = self._rng.integers(2**31 - 1, size=len(vanilla_circuits))\n        _wrap_simulate = partial(self.simulate, debugger=None)\n        with concurrent.futures.ProcessPoolExecutor(max_workers=max_workers) as executor:\n            exec_map = executor.map(_wrap_simulate, vanilla_circuits, seeds)",
              "        task_seeds = self._rng.integers(2**31 - 1, size=len(vanilla_circuits))\n        _wrap_simulate = partial(self.simulate, debugger=None)\n        with concurrent.futures.ProcessPoolExecutor(max_workers=max_workers) as executor:\n            exec_map = executor.map(_wrap_simulate, vanilla_circuits, task_seeds)")])
silent("C31", "results-through-list-then-tuple",
       [(DQ, "            exec_map = executor.map(_simulate_wrapper, vanilla_circuits, simulate_kwargs)\n            results = tuple(exec_map)",
             "            exec_map = list(executor.map(_simulate_wrapper, vanilla_circuits, simulate_kwargs))\n            results = tuple(exec_map)")])

SMP = "pennylane/devices/qubit/sampling.py"
NAPI = "pennylane/concurrency/executors/native/api.py"
fire("C31", "executor-collects-in-completion-order",
     (NAPI, "from functools import partial\n", "from functools import partial\nfrom concurrent.futures import as_completed\n"),
     "R-C31-order", "as_completed")
fire("C31", "sum-measurement-drops-rng-in-closure",
     (SMP, "            is_state_batched=is_state_batched,\n            rng=rng,\n            prng_key=prng_key,\n        )\n        return sum(results)",
           "            is_state_batched=is_state_batched,\n            prng_key=prng_key,\n        )\n        return sum(results)"),
     "R-C31-thread", "_measure_sum_with_samples")

# --- R-C31-bag / R-C31-perm
_SIM = "pennylane/devices/qubit/simulate.py"
_DQ = "pennylane/devices/default_qubit.py"
fire("C31", "postselection-call-names-its-kwargs-and-drops-rng",
     (_SIM, "                state, is_state_batched, circuit.shots, prng_key=key, **execution_kwargs\n",
            "                state,\n                is_state_batched,\n                circuit.shots,\n                prng_key=key,\n                postselect_mode=execution_kwargs.get(\"postselect_mode\", None),\n"),
     "R-C31-bag", "get_final_state")
fire("C31", "parallel-dispatch-restores-order-with-the-same-permutation",
     (_DQ, "        with execution_config.executor_backend(max_workers=max_workers) as executor:\n            exec_map = executor.map(_simulate_wrapper, vanilla_circuits, simulate_kwargs)\n            results = tuple(exec_map)\n\n        # reset _rng to mimic serial behaviour\n        self._rng = np.random.default_rng(self._rng.integers(2**31 - 1))\n\n        return results",
           "        order = np.argsort([-(2**c.num_wires) for c in vanilla_circuits], kind=\"stable\")\n        vanilla_circuits = [vanilla_circuits[i] for i in order]\n        simulate_kwargs = [simulate_kwargs[i] for i in order]\n"
           "        with execution_config.executor_backend(max_workers=max_workers) as executor:\n            exec_map = executor.map(_simulate_wrapper, vanilla_circuits, simulate_kwargs)\n            results = tuple(exec_map)\n\n        # reset _rng to mimic serial behaviour\n        self._rng = np.random.default_rng(self._rng.integers(2**31 - 1))\n\n        return tuple(results[i] for i in order)"),
     "R-C31-perm", "DefaultQubit.execute")
silent("C31", "postselection-call-passes-rng-explicitly",
       [(_SIM, "                state, is_state_batched, circuit.shots, prng_key=key, **execution_kwargs\n",
               "                state,\n                is_state_batched,\n                circuit.shots,\n                prng_key=key,\n                rng=execution_kwargs.get(\"rng\", None),\n                postselect_mode=execution_kwargs.get(\"postselect_mode\", None),\n")])

# --- R-C31-wiremap
fire("C31", "standard-wire-map-enumerates-a-set-of-operation-wires",
     ("pennylane/core/qscript.py", "        op_wires = Wires.all_wires(op.wires for op in self.operations)\n        work_wires = Wires.all_wires(getattr(op, \"work_wires\", []) for op in self.operations)",
      "        op_wires = set(Wires.all_wires(op.wires for op in self.operations))\n        work_wires = Wires.all_wires(getattr(op, \"work_wires\", []) for op in self.operations)"),
     "R-C31-wiremap", "_get_standard_wire_map")
