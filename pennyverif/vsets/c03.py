"""Seeded variants for C03 (R-C03-adj, R-C03-pow): sign / scaling slips in the gate-level
``adjoint()`` / ``pow(z)`` shortcuts, wrong periods, and behaviour-preserving respellings."""

from ..variants import fire, silent

P = "C03"
ADJ = "R-C03-adj"
POW = "R-C03-pow"
SQ = "pennylane/ops/qubit/parametric_ops_single_qubit.py"
MQ = "pennylane/ops/qubit/parametric_ops_multi_qubit.py"
NP = "pennylane/ops/qubit/non_parametric_ops.py"
CO = "pennylane/ops/op_math/controlled_ops.py"
ID = "pennylane/ops/identity.py"
QC = "pennylane/ops/qubit/qchem_ops.py"
AT = "pennylane/ops/qubit/attributes.py"

# ---- DESIGN section 10 ------------------------------------------------------------------------
fire(P, "rx-adjoint-drops-minus",
     (SQ, "        return RX(-self.phi, wires=self.wires)", "        return RX(self.phi, wires=self.wires)"),
     ADJ, "RX.adjoint")
# (first `super().pow(z % 2)` of the module is Hadamard's)
fire(P, "hadamard-pow-mod-4",
     (NP, "        return super().pow(z % 2)", "        return super().pow(z % 4)"),
     POW, "Hadamard.pow")
fire(P, "isingzz-pow-adds-exponent",
     (MQ, "        return [IsingZZ(self.phi * z, wires=self.wires)]", "        return [IsingZZ(self.phi + z, wires=self.wires)]"),
     POW, "IsingZZ.pow")

# ---- own: adjoint ------------------------------------------------------------------------------
fire(P, "crx-adjoint-doubles-angle",
     (CO, "        return CRX(-self.phi, wires=self.wires)", "        return CRX(-2 * self.phi, wires=self.wires)"),
     ADJ, "CRX.adjoint")
fire(P, "paulirot-adjoint-drops-minus",
     (MQ, '        return PauliRot(-self.arguments["theta"], self.arguments["pauli_word"], wires=self.wires)',
          '        return PauliRot(self.arguments["theta"], self.arguments["pauli_word"], wires=self.wires)'),
     ADJ, "PauliRot.adjoint")
fire(P, "paulix-adjoint-returns-y",
     (NP, "        return X(wires=self.wires)\n", "        return Y(wires=self.wires)\n"),
     ADJ, "PauliX.adjoint")
fire(P, "cnot-adjoint-returns-toffoli",
     (CO, "        return CNOT(self.wires)", "        return Toffoli(self.wires)"),
     ADJ, "CNOT.adjoint")
fire(P, "rot-adjoint-not-reversed",
     (SQ, "        return Rot(-self.omega, -self.theta, -self.phi, wires=self.wires)",
          "        return Rot(-self.phi, -self.theta, -self.omega, wires=self.wires)"),
     ADJ, "Rot.adjoint")
fire(P, "rz-listed-self-inverse",
     (AT, '    ["Hadamard", "PauliX", "PauliY", "PauliZ", "CNOT", "CZ", "CY", "CH", "SWAP", "Toffoli", "CCZ"]',
          '    ["Hadamard", "PauliX", "PauliY", "PauliZ", "CNOT", "CZ", "CY", "CH", "SWAP", "Toffoli", "CCZ", "RZ"]'),
     ADJ, "self_inverses[RZ]")
fire(P, "singleexcitationminus-adjoint-local-not-negated",
     (QC, "        return SingleExcitationMinus(-phi, wires=self.wires)", "        return SingleExcitationMinus(phi, wires=self.wires)"),
     ADJ, "SingleExcitationMinus.adjoint")

# ---- own: pow ----------------------------------------------------------------------------------
fire(P, "globalphase-pow-adds-exponent",
     (ID, "        return [GlobalPhase(z * self.phi)]", "        return [GlobalPhase(z + self.phi)]"),
     POW, "GlobalPhase.pow")
fire(P, "multirz-pow-doubles",
     (MQ, "        return [MultiRZ(self.data[0] * z, wires=self.wires)]", "        return [MultiRZ(self.data[0] * 2 * z, wires=self.wires)]"),
     POW, "MultiRZ.pow")
# (first `z_mod4 = z % 4` of the module is S's): S**2 = Z is not the identity
fire(P, "s-pow-period-2",
     (NP, "        z_mod4 = z % 4\n        pow_map = {", "        z_mod4 = z % 2\n        pow_map = {"),
     POW, "S.pow")
fire(P, "sx-pow-period-3",
     (NP, "        z_mod4 = z % 4\n        if z_mod4 == 2:\n            return [X(wires=self.wires)]",
          "        z_mod4 = z % 3\n        if z_mod4 == 2:\n            return [X(wires=self.wires)]"),
     POW, "SX.pow")
fire(P, "rx-pow-ignores-exponent",
     (SQ, "        return [RX(self.phi * z, wires=self.wires)]", "        return [RX(self.phi, wires=self.wires)]"),
     POW, "RX.pow")

fire(P, "ry-pow-reduces-exponent-mod-2",
     (SQ, "        return [RY(self.phi * z, wires=self.wires)]", "        return [RY(self.phi * (z % 2), wires=self.wires)]"),
     POW, "RY.pow")

# ---- behaviour-preserving controls -------------------------------------------------------------
silent(P, "rx-adjoint-minus-one-times",
       [(SQ, "        return RX(-self.phi, wires=self.wires)", "        return RX(-1 * self.phi, wires=self.wires)")])
silent(P, "isingzz-pow-commuted-product",
       [(MQ, "        return [IsingZZ(self.phi * z, wires=self.wires)]", "        return [IsingZZ(z * self.phi, wires=self.wires)]")])
silent(P, "pcphase-adjoint-rename-locals",
       [(MQ, "        phi = self.phi\n        dim = self.dim\n        return PCPhase(-1 * phi, dim=dim, wires=self.wires)",
             "        d = self.dim\n        angle = self.phi\n        return PCPhase(-angle, dim=d, wires=self.wires)")])
silent(P, "hadamard-pow-local-for-reduced-exponent",
       [(NP, "        return super().pow(z % 2)", "        z_mod2 = z % 2\n        return super().pow(z_mod2)")])
silent(P, "crot-adjoint-keywords",
       [(CO, "        return CRot(-self.omega, -self.theta, -self.phi, wires=self.wires)",
             "        return CRot(omega=-self.phi, theta=-self.theta, phi=-self.omega, wires=self.wires)")])
silent(P, "rz-adjoint-attribute-instead-of-arguments",
       [(SQ, '        return RZ(-self.arguments["phi"], wires=self.wires)', "        return RZ(-self.phi, wires=self.wires)")])
silent(P, "paulix-adjoint-full-class-name",
       [(NP, "        return X(wires=self.wires)\n", "        return PauliX(wires=self.wires)\n")])
silent(P, "doubleexcitation-pow-parameters-view",
       [(QC, "        return [DoubleExcitation(self.data[0] * z, wires=self.wires)]",
             "        (theta,) = self.parameters\n        return [DoubleExcitation(z * theta, wires=self.wires)]")])

# ---- R-C03-ctrlorder -----------------------------------------------------------------------------
CTRL = "R-C03-ctrlorder"
CT = "pennylane/ops/op_math/controlled.py"
CT2 = "pennylane/ops/op_math/controlled2.py"
# independent seeded change C03/patch1
fire(P, "resolve-ctrl-values-base-first",
     (CT, "    return math.array(math.concatenate([control_values, base_ctrl_values]), dtype=bool)",
          "    return math.array(math.concatenate([base_ctrl_values, control_values]), dtype=bool)"),
     CTRL, "_resolve_ctrl_values")
fire(P, "controlled-simplify-values-base-first",
     (CT, "                control_values=self.control_values + self.base.control_values,",
          "                control_values=self.base.control_values + self.control_values,"),
     CTRL, "Controlled.simplify")
fire(P, "controlled2-simplify-wires-base-first",
     (CT2, "                control=self.control_wires + self.base.control_wires,",
           "                control=self.base.control_wires + self.control_wires,"),
     CTRL, "Controlled2.simplify")
fire(P, "create-controlled-op-wires-base-first",
     (CT, "            control=control + op.control_wires,", "            control=op.control_wires + control,"),
     CTRL, "create_controlled_op")
fire(P, "concat-wires-helper-second-first",
     (CT, "    return wire1 + wire2", "    return wire2 + wire1"),
     CTRL, "_concat_wires")
silent(P, "controlled-simplify-both-base-first",
       [(CT, "                control=self.control_wires + self.base.control_wires,\n                control_values=self.control_values + self.base.control_values,",
             "                control=self.base.control_wires + self.control_wires,\n                control_values=self.base.control_values + self.control_values,")])
silent(P, "create-controlled-op-values-by-concatenate",
       [(CT, "            control_values=control_values + op.control_values,",
             "            control_values=list(math.concatenate([control_values, op.control_values])),")])
silent(P, "create-controlled-op2-rename-local-and-inline-helper-call",
       [(CT, "        ctrl_values = _resolve_ctrl_values(control_values, op.control_values, len(control_wires))\n", ""),
        (CT, "            control_values=ctrl_values,\n            work_wires=_concat_wires(work_wires, op.work_wires),",
             "            control_values=_resolve_ctrl_values(control_values, op.control_values, len(control_wires)),\n"
             "            work_wires=_concat_wires(work_wires, op.work_wires),")])
silent(P, "controlled2-simplify-rename-local-tuple-operands",
       [(CT2, "            ctrl_values = qp.math.concatenate([self.control_values, self.base.control_values])",
              "            merged = qp.math.concatenate((self.control_values, self.base.control_values))"),
        (CT2, "                control_values=math.cast(ctrl_values, bool),", "                control_values=math.cast(merged, bool),")])
