from ..variants import fire, silent

PT = "pennylane/ftqc/pauli_tracker.py"

# ---- DESIGN §10 -------------------------------------------------------------------------------
fire("C74", "commute_s-acts-on-x-instead-of-z", (PT, "    return [(x, x ^ z)]", "    return [(x ^ z, z)]"), "R-C74-symp", "_commute_s")
fire("C74", "commute_cnot-tuples-swapped",
     (PT, "    return [(xc, zc ^ zt), (xc ^ xt, zt)]", "    return [(xc ^ xt, zt), (xc, zc ^ zt)]"), "R-C74-symp", "_commute_cnot")
fire("C74", "ops_to_xz-y-encoded-as-x", (PT, "    Y: (1, 1),\n    Z: (0, 1),\n}", "    Y: (1, 0),\n    Z: (0, 1),\n}"), "R-C74-symp", "_OPS_TO_XZ[Y]")

# ---- own ---------------------------------------------------------------------------------------
fire("C74", "commute_h-identity", (PT, "    return [(z, x)]", "    return [(x, z)]"), "R-C74-symp", "_commute_h")
fire("C74", "commute_cnot-z-not-propagated-to-control",
     (PT, "    return [(xc, zc ^ zt), (xc ^ xt, zt)]", "    return [(xc, zc), (xc ^ xt, zt)]"), "R-C74-symp", "_commute_cnot")
fire("C74", "commute_cnot-x-propagated-backwards",
     (PT, "    return [(xc, zc ^ zt), (xc ^ xt, zt)]", "    return [(xc ^ xt, zc ^ zt), (xt, zt)]"), "R-C74-symp", "_commute_cnot")
fire("C74", "commute_s-or-instead-of-xor-free-term",
     (PT, "    return [(x, x ^ z)]", "    return [(x, x ^ z ^ x)]"), "R-C74-symp", "_commute_s")
fire("C74", "dispatch-s-to-h-helper",
     (PT, "        _x, _z = xz[0]\n        return _commute_s(_x, _z)", "        _x, _z = xz[0]\n        return _commute_h(_x, _z)"), "R-C74-symp", "commute_clifford_op")
fire("C74", "dispatch-cnot-control-target-swapped",
     (PT, "        return _commute_cnot(_xc, _zc, _xt, _zt)", "        return _commute_cnot(_xt, _zt, _xc, _zc)"), "R-C74-symp", "commute_clifford_op")
fire("C74", "dispatch-s-args-swapped",
     (PT, "        return _commute_s(_x, _z)", "        return _commute_s(_z, _x)"), "R-C74-symp", "commute_clifford_op")
fire("C74", "dispatch-cnot-reads-wrong-wire",
     (PT, "        _xt, _zt = xz[1]", "        _xt, _zt = xz[0]"), "R-C74-symp", "CNOT")
fire("C74", "xz_to_ops-x-and-z-exchanged",
     (PT, "    (1, 0): X,\n    (1, 1): Y,\n    (0, 1): Z,\n}", "    (1, 0): Z,\n    (1, 1): Y,\n    (0, 1): X,\n}"), "R-C74-symp", "_XZ_TO_OPS")
fire("C74", "xz_to_pauli-key-swapped", (PT, "        return _XZ_TO_OPS[(x, z)]", "        return _XZ_TO_OPS[(z, x)]"), "R-C74-symp", "xz_to_pauli")
fire("C74", "s-branch-removed",
     (PT, "    if isinstance(clifford_op, S):\n        _x, _z = xz[0]\n        return _commute_s(_x, _z)\n\n", ""), "R-C74-symp", "_CLIFFORD_GATES_SUPPORTED")

# ---- behaviour-preserving controls --------------------------------------------------------------
silent("C74", "rename-helper-parameters",
       [(PT, "def _commute_cnot(xc: int, zc: int, xt: int, zt: int):", "def _commute_cnot(a: int, b: int, c: int, d: int):"),
        (PT, "    return [(xc, zc ^ zt), (xc ^ xt, zt)]", "    return [(a, d ^ b), (c ^ a, d)]")])
silent("C74", "reorder-encoding-tables",
       [(PT, "    I: (0, 0),\n    X: (1, 0),\n    Y: (1, 1),\n    Z: (0, 1),\n}", "    Z: (0, 1),\n    Y: (1, 1),\n    I: (0, 0),\n    X: (1, 0),\n}"),
        (PT, "    (0, 0): I,\n    (1, 0): X,\n", "    (1, 0): X,\n    (0, 0): I,\n")])
silent("C74", "helper-parameters-reordered-with-the-call",
       [(PT, "def _commute_s(x: int, z: int):", "def _commute_s(z: int, x: int):"), (PT, "        return _commute_s(_x, _z)", "        return _commute_s(_z, _x)")])
silent("C74", "helper-through-local-temporaries",
       [(PT, "    return [(xc, zc ^ zt), (xc ^ xt, zt)]", "    new_zc = zc\n    new_zc ^= zt\n    new_xt = xt ^ xc\n    return [(xc, new_zc), (new_xt, zt)]")])
silent("C74", "dispatch-branches-reordered-and-direct-indexing",
       [(PT, "    if isinstance(clifford_op, S):\n        _x, _z = xz[0]\n        return _commute_s(_x, _z)\n\n    if isinstance(clifford_op, H):\n        _x, _z = xz[0]\n        return _commute_h(_x, _z)\n",
             "    if isinstance(clifford_op, H):\n        return _commute_h(xz[0][0], xz[0][1])\n\n    if isinstance(clifford_op, S):\n        _x0, _z0 = xz[0]\n        return _commute_s(_x0, _z0)\n")])
silent("C74", "paulis-by-full-class-names",
       [(PT, "from pennylane.ops import CNOT, RZ, H, I, S, X, Y, Z", "from pennylane.ops import CNOT, RZ, H, I, S, X, Y, Z, PauliY"),
        (PT, "    Y: (1, 1),\n    Z: (0, 1),\n}", "    PauliY: (1, 1),\n    Z: (0, 1),\n}")])

# ---- R-C74-reset ----------------------------------------------------------------------------------
DEC = "pennylane/ftqc/decomposition.py"
fire("C74", "cnot-m12-measured-without-reset (seed patch1)",
     (DEC, "        m12 = measure(graph_wires[9], reset=True)", "        m12 = measure(graph_wires[9])"), "R-C74-reset", "cnot_measurements")
fire("C74", "hadamard-m3-reset-false",
     (DEC, "    m1 = measure_x(wires[0], reset=True)\n    m2 = measure_y(wires[1], reset=True)\n    m3 = measure_y(wires[2], reset=True)",
           "    m1 = measure_x(wires[0], reset=True)\n    m2 = measure_y(wires[1], reset=True)\n    m3 = measure_y(wires[2], reset=False)"),
     "R-C74-reset", "_hadamard_measurements")
fire("C74", "rot-cond_measure-application-without-reset",
     (DEC, '    )(plane="XY", wires=wires[2], reset=True)', '    )(plane="XY", wires=wires[2])'), "R-C74-reset", "_rot_measurements")
fire("C74", "rz-cond_measure-one-partial-without-reset",
     (DEC, "        partial(measure_arbitrary_basis, angle=-angle, reset=True),", "        partial(measure_arbitrary_basis, angle=-angle),"), "R-C74-reset", "_rz_measurements")
silent("C74", "rz-reset-moved-from-partials-to-application",
       [(DEC, "        partial(measure_arbitrary_basis, angle=angle, reset=True),\n        partial(measure_arbitrary_basis, angle=-angle, reset=True),\n    )(plane=\"XY\", wires=wires[2])",
              "        partial(measure_arbitrary_basis, angle=angle),\n        partial(measure_arbitrary_basis, angle=-angle),\n    )(plane=\"XY\", wires=wires[2], reset=True)")])
silent("C74", "rot-partials-bound-to-locals",
       [(DEC, "    m2 = cond_measure(\n        m1,\n        partial(measure_arbitrary_basis, angle=phi),\n        partial(measure_arbitrary_basis, angle=-phi),\n    )(plane=\"XY\", wires=wires[1], reset=True)",
              "    plus = partial(measure_arbitrary_basis, angle=phi, reset=True)\n    minus = partial(measure_arbitrary_basis, angle=-phi, reset=True)\n"
              "    m2 = cond_measure(m1, plus, minus)(plane=\"XY\", wires=wires[1])")])

# ---- R-C74-wireorder ------------------------------------------------------------------------------
fire("C74", "xz-record-wires-sorted (seed patch2)",
     (PT, "        wires = list(op.wires)", "        wires = sorted(op.wires)"), "R-C74-wireorder", "_get_xz_record")
fire("C74", "xz-record-wires-through-set",
     (PT, "        wires = list(op.wires)", "        wires = list(set(op.wires))"), "R-C74-wireorder", "_get_xz_record")
fire("C74", "xz-record-wires-sorted-in-place",
     (PT, "        wires = list(op.wires)\n", "        wires = list(op.wires)\n        wires.sort()\n"), "R-C74-wireorder", "_get_xz_record")
fire("C74", "non-clifford-wire-taken-from-sorted-wires",
     (PT, "            if _wires_used[op.wires[0]] > 1:", "            if _wires_used[sorted(op.wires)[0]] > 1:"), "R-C74-wireorder", "_parse_mid_measurements")
fire("C74", "measured-wires-reversed",
     (PT, "    measured_wires = tape.measurements[0].wires", "    measured_wires = tape.measurements[0].wires[::-1]"), "R-C74-wireorder", "_correct_samples")
silent("C74", "xz-record-wires-as-tuple", [(PT, "        wires = list(op.wires)", "        wires = tuple(op.wires)")])
silent("C74", "order-insensitive-uses-of-sorted-and-set",
       [(PT, "        gate_offset = 4 if len(op.wires) == 1 else 13", "        gate_offset = 4 if len(set(op.wires)) == 1 else 13"),
        (PT, "    num_wires = max(tape.wires) + 1\n\n    x_record", "    num_wires = max(sorted(tape.wires)) + 1\n\n    x_record")])

# --- wire order in graph_state_preparation / decomposition
_GSP = "pennylane/ftqc/graph_state_preparation.py"
_DEC = "pennylane/ftqc/decomposition.py"
fire("C74", "graph-state-nodes-mapped-onto-sorted-wires",
     (_GSP, "        wire_map = dict(zip(sorted_nodes, wires, strict=True))", "        wire_map = dict(zip(sorted_nodes, sorted(wires), strict=True))"),
     "R-C74-wireorder", "compute_decomposition")
fire("C74", "output-sample-wires-follow-the-wire-map-not-the-request",
     (_DEC, "    new_wires = [wire_map[w] for w in meas_wires]", "    new_wires = [new_w for w, new_w in wire_map.items() if w in meas_wires]"),
     "R-C74-wireorder", "convert_to_mbqc_formalism")
silent("C74", "output-sample-wires-built-with-a-generator",
       [(_DEC, "    new_wires = [wire_map[w] for w in meas_wires]", "    new_wires = list(wire_map[w_] for w_ in meas_wires)")])

# --- rebuilt measurements keep reset; dispatcher shortcuts
_PM = "pennylane/ftqc/parametric_midmeasure.py"
_PT = "pennylane/ftqc/pauli_tracker.py"
fire("C74", "diagonalised-conditional-measurement-drops-reset",
     (_PM, "                        reset=op.base.reset,\n", ""), "R-C74-reset", "diagonalize_mcms")
fire("C74", "clifford-commutation-identity-fast-path",
     (_PT, "    if isinstance(clifford_op, S):\n        _x, _z = xz[0]", "    if tuple(xz[0]) == (0, 0):\n        return [tuple(_xz) for _xz in xz]\n\n    if isinstance(clifford_op, S):\n        _x, _z = xz[0]"),
     "R-C74-symp", "commute_clifford_op")
