from ..variants import fire, silent

API = "pennylane/concurrency/executors/native/api.py"
MP = "pennylane/concurrency/executors/native/multiproc.py"
CF = "pennylane/concurrency/executors/native/conc_futures.py"
SE = "pennylane/concurrency/executors/native/serial.py"

fire("C65", "mppool-imap_unordered", (MP, '            map_fn="map",', '            map_fn="imap_unordered",'), "R-C65-order", "imap_unordered")
fire("C65", "threadpool-as_completed",
     (CF, "from concurrent.futures import ProcessPoolExecutor, ThreadPoolExecutor", "from concurrent.futures import ProcessPoolExecutor, ThreadPoolExecutor, as_completed"),
     "R-C65-order", "as_completed")
fire("C65", "mppool-apply_async", (MP, '            submit_fn="apply",', '            submit_fn="apply_async",'), "R-C65-order", "apply_async")
fire("C65", "starmap-kwargs-into-list",
     (API, "            return list(self.map(fn, *list(zip(*args, strict=True)), **kwargs))", "            return list(self.map(fn, *list(zip(*args, strict=True))), **kwargs)"),
     "R-C65-forward", "PyNativeExec.starmap")
fire("C65", "submit-kwargs-splat-into-apply",
     (API, "            output = self._submit_fn(exec_be)(fn, args, kwargs)", "            output = self._submit_fn(exec_be)(fn, args, **kwargs)"),
     "R-C65-forward", "PyNativeExec.submit")
fire("C65", "submit-unstarred-for-executor",
     (API, "            output = self._submit_fn(exec_be)(fn, *args, **kwargs)", "            output = self._submit_fn(exec_be)(fn, args, **kwargs)"),
     "R-C65-forward", "PyNativeExec.submit")
fire("C65", "map-drops-kwargs",
     (API, "        fn_p = partial(fn, **kwargs)\n        if self._cfg.map_unpack", "        fn_p = fn\n        if self._cfg.map_unpack"),
     "R-C65-forward", "PyNativeExec.map")
fire("C65", "threadpool-submit_unpack-false",
     (CF, "            submit_unpack=True,\n            map_unpack=True,\n            blocking=False,\n        )\n\n\nclass ThreadPoolExec",
          "            submit_unpack=False,\n            map_unpack=True,\n            blocking=False,\n        )\n\n\nclass ThreadPoolExec"),
     "R-C65-forward", "PyNativeExec.submit")
fire("C65", "starmap-wrong-sequence",
     (API, "        return list(exec_be.starmap(fn_p, args))", "        return list(exec_be.starmap(fn_p, zip(*args)))"),
     "R-C65-forward", "PyNativeExec.starmap")
silent("C65", "rename-partial-local",
       [(API, "        fn_p = partial(fn, **kwargs)\n        return list(exec_be.starmap(fn_p, args))", "        bound = partial(fn, **kwargs)\n        return list(exec_be.starmap(bound, args))")])
silent("C65", "submit-branches-swapped",
       [(API, "        if self._cfg.submit_unpack:\n            output = self._submit_fn(exec_be)(fn, *args, **kwargs)\n        else:\n            output = self._submit_fn(exec_be)(fn, args, kwargs)",
              "        if not self._cfg.submit_unpack:\n            output = self._submit_fn(exec_be)(fn, args, kwargs)\n        else:\n            output = self._submit_fn(exec_be)(fn, *args, **kwargs)")])

fire("C65", "map-arity-test-ignores-defaulted-params",
     (API, "        if self._cfg.map_unpack and len(inspect.signature(fn).parameters) > 1:",
           "        if self._cfg.map_unpack and sum(p.default is p.empty for p in inspect.signature(fn).parameters.values()) > 1:"),
     "R-C65-forward", "PyNativeExec.map")
fire("C65", "mppool-map-consumes-iterators",
     (MP, "    def map(self, fn: Callable, *args: Sequence[Any], **kwargs):\n",
          "    def map(self, fn: Callable, *args: Sequence[Any], **kwargs):\n        if args and min(len(list(arg)) for arg in args) == 0:\n            return []\n"),
     "R-C65-consume", "MPPoolExec.map")
fire("C65", "starmap-sorted-args",
     (API, "        return list(exec_be.starmap(fn_p, args))", "        return list(exec_be.starmap(fn_p, sorted(args)))"),
     "R-C65-consume", "PyNativeExec.starmap")
silent("C65", "map-len-of-args-tuple",
       [(API, "        fn_p = partial(fn, **kwargs)\n        if self._cfg.map_unpack", "        fn_p = partial(fn, **kwargs)\n        _n = len(args)\n        if self._cfg.map_unpack")])

# --- R-C65-return / R-C65-lifecycle
_API = "pennylane/concurrency/executors/native/api.py"
_BASE = "pennylane/concurrency/executors/base.py"
fire("C65", "submit-duck-types-the-users-return-value",
     (_API, "        if self._cfg.blocking:\n            return output\n        return output.result()",
            "        if hasattr(output, \"result\"):\n            return output.result()\n        return output"),
     "R-C65-return", "PyNativeExec.submit")
fire("C65", "submit-returns-future-unresolved",
     (_API, "        if self._cfg.blocking:\n            return output\n        return output.result()", "        return output"),
     "R-C65-return", "PyNativeExec.submit")
fire("C65", "submit-blocking-flag-inverted",
     (_API, "        if self._cfg.blocking:\n            return output\n        return output.result()",
            "        if not self._cfg.blocking:\n            return output\n        return output.result()"),
     "R-C65-return", "PyNativeExec.submit")
fire("C65", "map-returns-early-on-falsy-output",
     (_API, "        return list(output)\n\n    def starmap", "        if not output:\n            return []\n        return list(output)\n\n    def starmap"),
     "R-C65-return", "PyNativeExec.map")
fire("C65", "shutdown-leaves-persist-flag-set",
     (_API, "            self._persistent_backend = None\n            self._persist = False", "            self._persistent_backend = None"),
     "R-C65-lifecycle", "PyNativeExec.shutdown")
fire("C65", "get_backend-returns-persistent-backend-unconditionally",
     (_BASE, "        if self._persist:\n            return self._persistent_backend\n        return self._exec_backend()(self._size)",
             "        return self._persistent_backend"),
     "R-C65-lifecycle", "_get_backend")
silent("C65", "shutdown-clears-flag-first",
       [(_API, "            self._shutdown_fn(self._persistent_backend)()\n            self._persistent_backend = None\n            self._persist = False",
               "            self._persist = False\n            self._shutdown_fn(self._persistent_backend)()\n            self._persistent_backend = None")])
silent("C65", "submit-else-form",
       [(_API, "        if self._cfg.blocking:\n            return output\n        return output.result()",
               "        if self._cfg.blocking:\n            return output\n        else:\n            return output.result()")])

# --- R-C65-backend
_SER = "pennylane/concurrency/executors/native/serial.py"
fire("C65", "serial-starmap-unpacks-only-tuples",
     (_SER, "        return list(starmap(fn_p, data))", "        return [fn_p(*entry) if isinstance(entry, tuple) else fn_p(entry) for entry in data]"),
     "R-C65-backend", "StdLibBackend.starmap")
silent("C65", "serial-starmap-as-comprehension",
       [(_SER, "        return list(starmap(fn_p, data))", "        return [fn_p(*entry) for entry in data]")])
