from ..variants import fire, silent

CP = "pennylane/core/transforms/compile_pipeline.py"
fire("C23", "add-extends-own-list",
     (CP, "            transforms = self._compile_pipeline[:]\n            transforms.extend(other._compile_pipeline)",
          "            transforms = self._compile_pipeline\n            transforms.extend(other._compile_pipeline)"),
     "R-C23-pure", "CompilePipeline.__add__")
fire("C23", "copy-shares-markers",
     (CP, "        new_pipeline._markers = self._markers.copy()\n        return new_pipeline\n\n    def __iter__",
          "        new_pipeline._markers = self._markers\n        return new_pipeline\n\n    def __iter__"),
     "R-C23-fresh", "CompilePipeline.__copy__")
fire("C23", "add-writes-markers-of-self",
     (CP, "            new_markers = self._markers.copy()\n            for name, pos in other._markers.items():",
          "            new_markers = self._markers\n            for name, pos in other._markers.items():"),
     "R-C23-pure", "CompilePipeline.__add__")
fire("C23", "radd-inplace-extend-of-other-side",
     (CP, "        transforms += self._compile_pipeline\n        return CompilePipeline(transforms, cotransform_cache=self.cotransform_cache)",
          "        self._compile_pipeline[:0] = transforms\n        return self"),
     "R-C23-pure", "CompilePipeline.__radd__")
fire("C23", "mul-inplace",
     (CP, "        transforms = self._compile_pipeline * n\n", "        self._compile_pipeline *= n\n        transforms = self._compile_pipeline\n"),
     "R-C23-pure", "CompilePipeline.__mul__")
fire("C23", "constructor-adopts-callers-list",
     (CP, "            transforms = list(transforms[0])\n", "            transforms = transforms[0]\n"),
     "R-C23-fresh", "CompilePipeline.__init__")
fire("C23", "getitem-slice-pops",
     (CP, "            compile_pipeline = CompilePipeline(self._compile_pipeline[idx])", "            compile_pipeline = CompilePipeline([self._compile_pipeline.pop(0)])"),
     "R-C23-pure", "CompilePipeline.__getitem__")
silent("C23", "add-list-constructor",
       [(CP, "            transforms = self._compile_pipeline[:]\n            transforms.extend(other._compile_pipeline)",
             "            transforms = list(self._compile_pipeline)\n            transforms.extend(other._compile_pipeline)")])
silent("C23", "copy-markers-dict-constructor",
       [(CP, "        new_pipeline._markers = self._markers.copy()\n        return new_pipeline\n\n    def __iter__",
             "        new_pipeline._markers = dict(self._markers)\n        return new_pipeline\n\n    def __iter__")])

TR = "pennylane/core/transforms/transform.py"
fire("C23", "call_tapes-skips-routing-entry-for-empty-output",
     (CP, "                new_tapes, fn = transform(tape, *targs, **tkwargs)\n                execution_tapes.extend(new_tapes)\n",
          "                new_tapes, fn = transform(tape, *targs, **tkwargs)\n                if not new_tapes:\n                    continue\n                execution_tapes.extend(new_tapes)\n"),
     "R-C23-route", "__call_tapes")
fire("C23", "apply_to_sequence-count-only-for-nonempty",
     (TR, "        batch_fns.append(fn)\n        tape_counts.append(len(new_tapes))", "        batch_fns.append(fn)\n        if new_tapes:\n            tape_counts.append(len(new_tapes))"),
     "R-C23-route", "_apply_to_sequence")
silent("C23", "call_tapes-append-order-swapped",
       [(CP, "                fns.append(fn)\n                end = start + len(new_tapes)\n                slices.append(slice(start, end))",
             "                end = start + len(new_tapes)\n                slices.append(slice(start, end))\n                fns.append(fn)")])

# --- R-C23-slice / module-level functions taking a pipeline
_CP = "pennylane/core/transforms/compile_pipeline.py"
fire("C23", "batch-postprocessing-fast-path-ignores-recorded-slices",
     (_CP, "    return tuple(fn(results[sl]) for fn, sl in zip(individual_fns, slices, strict=True))",
           "    if slices and isinstance(slices[0], slice) and len(results) == len(individual_fns):\n        return tuple(fn(results[i : i + 1]) for i, fn in enumerate(individual_fns))\n"
           "    return tuple(fn(results[sl]) for fn, sl in zip(individual_fns, slices, strict=True))"),
     "R-C23-slice", "_batch_postprocessing")
fire("C23", "transform-applied-to-pipeline-shares-markers",
     (_CP, "    program = copy(obj)\n    program.append(BoundTransform(transform, args=targs, kwargs=tkwargs))",
           "    program = CompilePipeline(list(obj), cotransform_cache=obj.cotransform_cache)\n    program._markers = obj._markers\n    program.append(BoundTransform(transform, args=targs, kwargs=tkwargs))"),
     "R-C23-fresh", "_apply_to_program")
fire("C23", "transform-applied-to-pipeline-appends-in-place",
     (_CP, "    program = copy(obj)\n    program.append(BoundTransform(transform, args=targs, kwargs=tkwargs))",
           "    program = obj\n    program.append(BoundTransform(transform, args=targs, kwargs=tkwargs))"),
     "R-C23-pure", "_apply_to_program")
silent("C23", "batch-postprocessing-indexed-form",
       [(_CP, "    return tuple(fn(results[sl]) for fn, sl in zip(individual_fns, slices, strict=True))",
              "    return tuple(fn(results[slices[i]]) for i, fn in enumerate(individual_fns))")])
silent("C23", "transform-applied-to-pipeline-copy-method",
       [(_CP, "    program = copy(obj)\n    program.append(", "    program = obj.__copy__()\n    program.append(")])

# --- R-C23-args
fire("C23", "postprocessing-stack-reversed-in-place",
     (_CP, "    for postprocessing in reversed(postprocessing_stack):", "    postprocessing_stack.reverse()\n    for postprocessing in postprocessing_stack:"),
     "R-C23-args", "_apply_postprocessing_stack")
