from ..variants import fire, silent

BASE = "pennylane/core/operator/base.py"
OP2 = "pennylane/core/operator/operator2.py"
MEAS = "pennylane/core/measurements.py"
MAT = "pennylane/ops/qubit/matrix_ops.py"
ADJ = "pennylane/ops/op_math/adjoint.py"
QUB = "pennylane/templates/subroutines/qubitization.py"
BNP = "pennylane/ops/functions/bind_new_parameters.py"
GRO = "pennylane/templates/subroutines/grover.py"
PCU2 = "pennylane/templates/layers/particle_conserving_u2.py"
ANG = "pennylane/templates/embeddings/angle.py"
SHADOW = "pennylane/measurements/classical_shadow.py"
SYM = "pennylane/ops/op_math/symbolicop.py"
MULTI = "pennylane/ops/qubit/parametric_ops_multi_qubit.py"
COUNTS = "pennylane/measurements/counts.py"

# ---- DESIGN §10 ------------------------------------------------------------------------------
fire("C06", "blockencode-init-renames-wires",
     [(MAT, "    def __init__(self, A: TensorLike, wires: WiresLike):\n        wires = Wires(wires)\n        shape_a = qp.math.shape(A)",
            "    def __init__(self, A: TensorLike, wire_labels: WiresLike):\n        wires = Wires(wire_labels)\n        shape_a = qp.math.shape(A)")],
     "R-C06-pair", "BlockEncode")
fire("C06", "adjoint-unflatten-deleted",
     (ADJ, "    @classmethod\n    def _unflatten(cls, data, _):\n        return cls(data[0])\n\n", ""),
     "R-C06-pair", "Adjoint")
fire("C06", "qubitization-copy-drops-control",
     (QUB, '            "control": copy.copy(self._hyperparameters["control"]),\n', ""),
     "R-C06-copy", "Qubitization.__copy__")
fire("C06", "select-rebinding-handler-unregistered",
     (BNP, "@bind_new_parameters.register\ndef bind_new_parameters_select(op: Select, params: Sequence[TensorLike]):",
           "def bind_new_parameters_select(op: Select, params: Sequence[TensorLike]):"),
     "R-C06-bind", "Select.data")

# ---- own variants ----------------------------------------------------------------------------
fire("C06", "grover-flatten-misnames-key",
     (GRO, '        hyperparameters = (("work_wires", self.hyperparameters["work_wires"]),)',
           '        hyperparameters = (("workwires", self.hyperparameters["work_wires"]),)'),
     "R-C06-pair", "GroverOperator")
fire("C06", "pcu2-hyperparameter-key-not-an-init-argument",
     (PCU2, '        self._hyperparameters = {"init_state": tuple(init_state)}', '        self._hyperparameters = {"initial_state": tuple(init_state)}'),
     "R-C06-unflatten", "ParticleConservingU2")
fire("C06", "angle-embedding-init-renames-rotation",
     (ANG, '    def __init__(self, features, wires, rotation="X"):\n        if rotation not in ROT:',
           '    def __init__(self, features, wires, rot="X"):\n        rotation = rot\n        if rotation not in ROT:'),
     "R-C06-pair", "AngleEmbedding")
fire("C06", "base-unflatten-passes-wire-keyword",
     (BASE, "        return cls(*data, wires=metadata[0], **hyperparameters_dict)", "        return cls(*data, wire=metadata[0], **hyperparameters_dict)"),
     "R-C06-unflatten", "RotXZX")
fire("C06", "counts-flatten-misnames-all_outcomes",
     (COUNTS, '        metadata = (("wires", self.raw_wires), ("all_outcomes", self.all_outcomes))',
              '        metadata = (("wires", self.raw_wires), ("all_outcome", self.all_outcomes))'),
     "R-C06-pair", "CountsMP")
fire("C06", "multirz-forwards-unknown-keyword",
     (MULTI, "        super().__init__(theta, wires=wires)", "        super().__init__(theta, wire=wires)"),
     "R-C06-op2", "MultiRZ")
fire("C06", "paulirot-classified-name-not-a-parameter",
     (MULTI, '    compilable_argnames = ("pauli_word",)', '    compilable_argnames = ("pauli_string",)'),
     "R-C06-op2", "PauliRot")
fire("C06", "operator-copy-forgets-data",
     (BASE, "        copied_op._data = copy.copy(self.data)\n        # pylint: disable=attribute-defined-outside-init\n", "        # pylint: disable=attribute-defined-outside-init\n"),
     "R-C06-copy", "Operator.__copy__")
fire("C06", "symbolicop-copy-forgets-hyperparameters",
     (SYM, "        copied_op._hyperparameters = copy(self.hyperparameters)\n        copied_op.hyperparameters[\"base\"] = copy(self.base)\n",
           "        copied_op.hyperparameters[\"base\"] = copy(self.base)\n"),
     "R-C06-copy", "SymbolicOp.__copy__")
fire("C06", "classical-shadow-copy-wrong-keyword",
     (SHADOW, "        return self.__class__(\n            seed=self.seed,\n            wires=self._wires,\n        )",
              "        return self.__class__(\n            rng_seed=self.seed,\n            wires=self._wires,\n        )"),
     "R-C06-copy", "ClassicalShadowMP.__copy__")
fire("C06", "operator-deepcopy-memo-after-loop",
     (BASE, "        memo[id(self)] = copied_op\n\n        for attribute, value in self.__dict__.items():\n            if attribute == \"_data\":\n"
            "                # Shallow copy the list of parameters. We avoid a deep copy\n                # here, since PyTorch does not support deep copying of tensors\n"
            "                # within a differentiable computation.\n                copied_op._data = copy.copy(value)\n            else:\n"
            "                # Deep copy everything else.\n                setattr(copied_op, attribute, copy.deepcopy(value, memo))\n        return copied_op",
            "        for attribute, value in self.__dict__.items():\n            if attribute == \"_data\":\n"
            "                copied_op._data = copy.copy(value)\n            else:\n"
            "                setattr(copied_op, attribute, copy.deepcopy(value, memo))\n        memo[id(self)] = copied_op\n        return copied_op"),
     "R-C06-deep", "Operator.__deepcopy__")
fire("C06", "operator2-deepcopy-shallow",
     (OP2, "            setattr(copied_op, attr, deepcopy(value, memo))", "            setattr(copied_op, attr, copy(value))"),
     "R-C06-deep", "Operator2.__deepcopy__")
fire("C06", "operator-deepcopy-without-memo",
     (BASE, "                setattr(copied_op, attribute, copy.deepcopy(value, memo))", "                setattr(copied_op, attribute, copy.deepcopy(value))"),
     "R-C06-deep", "Operator.__deepcopy__")

# ---- behaviour-preserving controls -------------------------------------------------------------
silent("C06", "base-unflatten-renames-local",
       [(BASE, "        hyperparameters_dict = dict(metadata[1])\n        return cls(*data, wires=metadata[0], **hyperparameters_dict)",
               "        hp = dict(metadata[1])\n        return cls(*data, **hp, wires=metadata[0])")])
silent("C06", "operator-copy-uses-dunder-dict",
       [(BASE, "        for attr, value in vars(self).items():\n            if attr not in {\"_data\", \"_hyperparameters\"}:\n                setattr(copied_op, attr, value)",
               "        for name, val in self.__dict__.items():\n            if name not in (\"_hyperparameters\", \"_data\"):\n                setattr(copied_op, name, val)")])
silent("C06", "qubitization-copy-reorders-keys",
       [(QUB, '            "hamiltonian": copy.copy(self._hyperparameters["hamiltonian"]),\n            "control": copy.copy(self._hyperparameters["control"]),\n',
              '            "control": copy.copy(self._hyperparameters["control"]),\n            "hamiltonian": copy.copy(self._hyperparameters["hamiltonian"]),\n')])
silent("C06", "select-handler-registered-by-explicit-type",
       [(BNP, "@bind_new_parameters.register\ndef bind_new_parameters_select(op: Select, params: Sequence[TensorLike]):",
              "@bind_new_parameters.register(Select)\ndef bind_new_parameters_select(op, params: Sequence[TensorLike]):")])
silent("C06", "measurement-unflatten-names-kwargs",
       [(MEAS, "        if data[0] is not None:\n            return cls(obs=data[0], **dict(metadata))",
               "        kwargs = dict(metadata)\n        if data[0] is not None:\n            return cls(obs=data[0], **kwargs)")])
silent("C06", "grover-flatten-inlines-metadata",
       [(GRO, '        hyperparameters = (("work_wires", self.hyperparameters["work_wires"]),)\n        return tuple(), (self.wires, hyperparameters)',
              '        return (), (self.wires, (("work_wires", self.hyperparameters["work_wires"]),))')])
silent("C06", "multirz-forwards-wires-positionally",
       [(MULTI, "        super().__init__(theta, wires=wires)", "        super().__init__(theta, wires)")])
silent("C06", "operator-deepcopy-renames-loop-variables",
       [(BASE, "        for attribute, value in self.__dict__.items():\n            if attribute == \"_data\":",
               "        for attribute, value in vars(self).items():\n            if attribute == \"_data\":")])
