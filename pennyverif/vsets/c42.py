from ..variants import fire, silent

COND = "pennylane/ops/op_math/condition.py"
INTERP = "pennylane/capture/base_interpreter.py"
TAPE = "pennylane/tape/plxpr_conversion.py"
ALLOC = "pennylane/allocation.py"
FOR = "pennylane/control_flow/for_loop.py"
WHILE = "pennylane/control_flow/while_loop.py"
MID = "pennylane/ops/mid_measure/mid_measure.py"
CRO = "pennylane/decomposition/collect_resource_ops.py"
ADJ = "pennylane/ops/op_math/adjoint.py"

# ---- DESIGN §10 ------------------------------------------------------------------------------
fire("C42", "cond-front-end-misnames-args_slice",
     (COND, "            consts_slices=consts_slices,\n            args_slice=slice(end_const_ind, None),\n        )",
            "            consts_slices=consts_slices,\n            arg_slice=slice(end_const_ind, None),\n        )"),
     "R-C42-schema", "all cond handlers")
fire("C42", "tape-path-loses-ctrl-transform-handler",
     (TAPE, "@CollectOpsandMeas.register_primitive(ctrl_transform_prim)\n", ""),
     "R-C42-cover", "CollectOpsandMeas[ctrl_transform]")

# ---- own variants ----------------------------------------------------------------------------
fire("C42", "allocate-handler-renames-restored",
     (TAPE, "def _allocate_primitive(self, *, num_wires, state, restored):", "def _allocate_primitive(self, *, num_wires, state, restore):"),
     "R-C42-schema", "_allocate_primitive")
fire("C42", "allocate-bind-drops-restored",
     (ALLOC, "allocate_prim.bind(num_wires=num_wires, state=state, restored=restored)", "allocate_prim.bind(num_wires=num_wires, state=state)"),
     "R-C42-schema", "_allocate_primitive")
fire("C42", "for-loop-front-end-misnames-slice",
     (FOR, "            args_slice=args_slice,\n            abstract_shapes_slice=abstract_shapes_slice,\n        )\n\n        results = results[-out_tree.num_leaves :]",
           "            args_slice=args_slice,\n            shapes_slice=abstract_shapes_slice,\n        )\n\n        results = results[-out_tree.num_leaves :]"),
     "R-C42-schema", "all for_loop handlers")
fire("C42", "measure-impl-renames-postselect",
     (MID, "    def _impl(wires, reset=False, postselect=None):\n        return _measure_impl(wires, reset=reset, postselect=postselect)",
           "    def _impl(wires, reset=False, post_select=None):\n        return _measure_impl(wires, reset=reset, postselect=post_select)"),
     "R-C42-schema", "_impl")
fire("C42", "while-loop-rebind-drops-cond_slice",
     (INTERP, "        body_slice=body_consts,\n        cond_slice=cond_consts,\n        args_slice=args_slice,\n    )",
              "        body_slice=body_consts,\n        args_slice=args_slice,\n    )"),
     "R-C42-schema", "handle_while_loop")
fire("C42", "resource-collector-cond-handler-renames-parameter",
     (CRO, "def explore_all_branches(self, *invals, jaxpr_branches, consts_slices, args_slice):",
           "def explore_all_branches(self, *invals, jaxpr_branches, const_slices, args_slice):"),
     "R-C42-schema", "explore_all_branches")
fire("C42", "cond-staging-rule-reads-unbound-key",
     (COND, 'qp.capture.register_custom_staging_rule(cond_prim, lambda params: params["jaxpr_branches"][0])',
            'qp.capture.register_custom_staging_rule(cond_prim, lambda params: params["branches"][0])'),
     "R-C42-schema", "staging rule")
fire("C42", "base-interpreter-loses-for-loop-handler",
     (INTERP, "@PlxprInterpreter.register_primitive(for_loop_prim)\n", ""),
     "R-C42-cover", "for_loop")
fire("C42", "tape-path-loses-measure-handler",
     (TAPE, "@CollectOpsandMeas.register_primitive(measure_prim)\n", ""),
     "R-C42-cover", "CollectOpsandMeas[measure]")
fire("C42", "tape-path-adjoint-handler-rebinds",
     (TAPE, "@CollectOpsandMeas.register_primitive(adjoint_transform_prim)\ndef _adjoint_transform_prim(self, *invals, jaxpr, lazy, n_consts):\n",
            "@CollectOpsandMeas.register_primitive(adjoint_transform_prim)\ndef _adjoint_transform_prim(self, *invals, jaxpr, lazy, n_consts):\n"
            "    if lazy is None:\n        return adjoint_transform_prim.bind(*invals, jaxpr=jaxpr, lazy=lazy, n_consts=n_consts)\n"),
     "R-C42-cover", "CollectOpsandMeas[adjoint_transform]")

# ---- behaviour-preserving controls -------------------------------------------------------------
silent("C42", "cond-front-end-reorders-keywords",
       [(COND, "            jaxpr_branches=jaxpr_branches,\n            consts_slices=consts_slices,\n            args_slice=slice(end_const_ind, None),\n        )",
               "            args_slice=slice(end_const_ind, None),\n            consts_slices=consts_slices,\n            jaxpr_branches=jaxpr_branches,\n        )")])
silent("C42", "cond-front-end-renames-local-primitive",
       [(COND, "        cond_prim = _get_cond_qfunc_prim()\n", "        the_prim = _get_cond_qfunc_prim()\n"),
        (COND, "        results = cond_prim.bind(\n", "        results = the_prim.bind(\n")])
silent("C42", "measure-handler-accepts-extras",
       [(TAPE, "def _measure_primitive(self, wires, reset, postselect):", "def _measure_primitive(self, wires, reset=False, postselect=None, **_):")])
silent("C42", "adjoint-front-end-single-line-bind",
       [(ADJ, "        adjoint_prim.bind(\n            *jaxpr.consts,\n            *abstract_shapes,\n            *flat_args,\n            jaxpr=jaxpr.jaxpr,\n"
              "            lazy=lazy,\n            n_consts=len(jaxpr.consts),\n        )",
              "        n_consts = len(jaxpr.consts)\n        adjoint_prim.bind(*jaxpr.consts, *abstract_shapes, *flat_args, jaxpr=jaxpr.jaxpr, lazy=lazy, n_consts=n_consts)")])
silent("C42", "allocate-handler-renamed-function",
       [(TAPE, "def _allocate_primitive(self, *, num_wires, state, restored):", "def _handle_allocate(self, *, restored, state, num_wires):")])

# --- R-C42-slices
_WL = "pennylane/control_flow/while_loop.py"
fire("C42", "while-loop-binds-condition-constants-before-body-constants",
     (_WL, "            *jaxpr_body_fn.consts,\n            *jaxpr_cond_fn.consts,\n            *all_args,", "            *jaxpr_cond_fn.consts,\n            *jaxpr_body_fn.consts,\n            *all_args,"),
     "R-C42-slices", "_call_capture_enabled")
silent("C42", "while-loop-slices-defined-in-another-order-of-statements",
       [(_WL, "        body_consts = slice(0, len(jaxpr_body_fn.consts))\n        cond_consts = slice(body_consts.stop, body_consts.stop + len(jaxpr_cond_fn.consts))\n        args_slice = slice(cond_consts.stop, None)\n",
              "        n_body = len(jaxpr_body_fn.consts)\n        body_consts = slice(0, len(jaxpr_body_fn.consts))\n        cond_consts = slice(body_consts.stop, body_consts.stop + len(jaxpr_cond_fn.consts))\n        args_slice = slice(cond_consts.stop, None)\n")])

# --- R-C42-memo
_BI = "pennylane/capture/base_interpreter.py"
fire("C42", "subroutine-cache-keyed-on-name-and-input-avals",
     (_BI, "    if jaxpr in self.subroutine_cache:\n        new_jaxpr = self.subroutine_cache[jaxpr]\n    else:\n        new_jaxpr = jaxpr_to_jaxpr(copy(self), jaxpr.jaxpr, jaxpr.consts, *invals)\n        self.subroutine_cache[jaxpr] = new_jaxpr",
           "    key = (params[\"name\"], tuple(jaxpr.in_avals))\n    if key in self.subroutine_cache:\n        new_jaxpr = self.subroutine_cache[key]\n    else:\n        new_jaxpr = jaxpr_to_jaxpr(copy(self), jaxpr.jaxpr, jaxpr.consts, *invals)\n        self.subroutine_cache[key] = new_jaxpr"),
     "R-C42-memo", "_quantum_subroutine")

# --- R-C42-ctrlorder
fire("C42", "merged-control-values-appended-while-wires-are-prepended",
     ("pennylane/ops/op_math/controlled2.py", "            control_values = list(self.control_values) + eqns[0].invars[-n_ctrls:]", "            control_values = eqns[0].invars[-n_ctrls:] + list(self.control_values)"),
     "R-C42-ctrlorder", "_bind_primitive")
silent("C42", "merged-controls-both-appended",
       [("pennylane/ops/op_math/controlled2.py", "            control_wires = self.control_wires.tolist() + eqns[0].invars[-2 * n_ctrls : -n_ctrls]\n            control_values = list(self.control_values) + eqns[0].invars[-n_ctrls:]",
         "            inner_wires = eqns[0].invars[-2 * n_ctrls : -n_ctrls]\n            control_wires = self.control_wires.tolist() + inner_wires\n            control_values = list(self.control_values) + eqns[0].invars[-n_ctrls:]")])
