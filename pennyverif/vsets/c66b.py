from ..variants import fire, silent

DR = "pennylane/decomposition/decomposition_rule.py"
fire("C66", "collection-copy-returns-self-when-empty",
     (DR, "        \"\"\"Return a copy of the DecompCollection.\"\"\"\n        return DecompCollection(self._decomps)",
          "        \"\"\"Return a copy of the DecompCollection.\"\"\"\n        if not self._decomps:\n            return self\n        return DecompCollection(self._decomps)"),
     "R-C66-copy", "DecompCollection.copy")
fire("C66", "collection-init-adopts-callers-dict",
     (DR, "        self._decomps = decomps.copy()", "        self._decomps = decomps"),
     "R-C66-copy", "DecompCollection.__init__")
silent("C66", "collection-copy-via-type-self",
       [(DR, "        \"\"\"Return a copy of the DecompCollection.\"\"\"\n        return DecompCollection(self._decomps)",
             "        \"\"\"Return a copy of the DecompCollection.\"\"\"\n        return type(self)(self._decomps)")])
