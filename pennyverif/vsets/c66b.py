from ..variants import fire, silent

DR = "pennylane/decomposition/decomposition_rule.py"
fire("C66", "collection-copy-returns-self-when-empty",
     (DR, "        \"\"\"Return a copy of the DecompCollection.\"\"\"\n        return DecompCollection(self._decomps)",
          "        \"\"\"Return a copy of the DecompCollection.\"\"\"\n        if not self._decomps:\n            return self\n        return DecompCollection(self._decomps)"),
     "R-C66-copy", "DecompCollection.copy")
fire("C66", "collection-init-adopts-callers-dict",
     (DR, "        self._decomps = decomps.copy()", "        self._decomps = decomps"),
     "R-C66-copy", "DecompCollection.__init__")
silent("C66", "collection-copy-via-type-self",
       [(DR, "        \"\"\"Return a copy of the DecompCollection.\"\"\"\n        return DecompCollection(self._decomps)",
             "        \"\"\"Return a copy of the DecompCollection.\"\"\"\n        return type(self)(self._decomps)")])

# --- R-C66-nocache
_ADJ2 = "pennylane/ops/op_math/adjoint2.py"
_NQ = "pennylane/devices/null_qubit.py"
fire("C66", "adjoint-wrapped-rules-kept-in-module-level-dict",
     (_ADJ2, "    wrapped_rules = DecompCollection(\n        [\n            _make_adjoint_decomp(rule)\n            for rule in list_decomps(abs_op.base)",
             "    wrapped_rules = _WRAPPED.get(abs_op.base)\n    if wrapped_rules is None:\n      wrapped_rules = _WRAPPED[abs_op.base] = DecompCollection(\n        [\n            _make_adjoint_decomp(rule)\n            for rule in list_decomps(abs_op.base)"),
     "R-C66-nocache", "_list_adjoint_decomps")
fire("C66", "null_qubit-has-decomp-answer-memoised",
     (_NQ, "def _op_has_decomp(op):\n", "@functools.lru_cache(maxsize=None)\ndef _op_has_decomp(op):\n"),
     "R-C66-nocache", "_op_has_decomp")
silent("C66", "adjoint-wrapped-rules-local-temporary",
       [(_ADJ2, "    return custom_rules + wrapped_rules\n", "    tmp = {}\n    tmp[\"wrapped\"] = wrapped_rules\n    return custom_rules + tmp[\"wrapped\"]\n")])

# --- R-C66-memo
fire("C66", "controlled-wrappers-memoised-by-operator-and-rule-name",
     [("pennylane/ops/op_math/controlled2.py", "            _make_controlled_decomp(rule)\n", "            _controlled_decomp_cached(op.base.name, rule)\n"),
      ("pennylane/ops/op_math/controlled2.py", "def _make_controlled_decomp(", "_CTRL_DECOMPS: dict = {}\n\n\ndef _controlled_decomp_cached(base_name, base_rule):\n    key = (base_name, base_rule.name)\n    if key not in _CTRL_DECOMPS:\n        _CTRL_DECOMPS[key] = _make_controlled_decomp(base_rule)\n    return _CTRL_DECOMPS[key]\n\n\ndef _make_controlled_decomp(")],
     "R-C66-memo", "_controlled_decomp_cached")
