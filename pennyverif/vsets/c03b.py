"""Seeded variants for R-C03-mod (angle reductions in operator-class methods; pennyverif/modrule.py)."""

from ..variants import fire, silent

P = "C03"
R = "R-C03-mod"
SQ = "pennylane/ops/qubit/parametric_ops_single_qubit.py"
MQ = "pennylane/ops/qubit/parametric_ops_multi_qubit.py"

# first `phi = self.phi % (4 * np.pi)` of the module is RX.simplify's
fire(P, "rx-simplify-mod-2pi",
     (SQ, "        phi = self.phi % (4 * np.pi)\n", "        phi = self.phi % (2 * np.pi)\n"), R, "RX.simplify")
fire(P, "rz-simplify-mod-2pi",
     (SQ, '        phi = self.arguments["phi"] % (4 * np.pi)\n', '        phi = self.arguments["phi"] % (2 * np.pi)\n'), R, "RZ.simplify")
fire(P, "u3-simplify-theta-mod-2pi",
     (SQ, "        theta = self.theta % (4 * np.pi)\n", "        theta = self.theta % (2 * np.pi)\n"), R, "U3.theta")
fire(P, "rot-simplify-rz-sum-mod-2pi",
     (SQ, "            return RZ((p0 + p2) % (4 * np.pi), wires=self.wires)", "            return RZ((p0 + p2) % (2 * np.pi), wires=self.wires)"),
     R, "RZ.phi <- (p0 + p2)")
fire(P, "rot-simplify-generator-mod-2pi",
     (SQ, "        p0, p1, p2 = (p % (4 * np.pi) for p in self.data)", "        p0, p1, p2 = (p % (2 * np.pi) for p in self.data)"),
     R, "Rot.omega")
fire(P, "multirz-simplify-mod-2pi",
     (MQ, "        theta = self.data[0] % (4 * np.pi)\n", "        theta = self.data[0] % (2 * np.pi)\n"), R, "MultiRZ.simplify")
fire(P, "phaseshift-simplify-mod-pi",
     (SQ, "        phi = self.phi % (2 * np.pi)\n", "        phi = self.phi % np.pi\n"), R, "PhaseShift.simplify")

# a larger multiple of the period is still sound
silent(P, "phaseshift-simplify-mod-4pi",
       [(SQ, "        phi = self.phi % (2 * np.pi)\n", "        phi = self.phi % (4 * np.pi)\n")])
silent(P, "rx-simplify-mod-8pi",
       [(SQ, "        phi = self.phi % (4 * np.pi)\n", "        phi = self.phi % (8 * np.pi)\n")])
silent(P, "rx-simplify-modulus-respelled-and-local-renamed",
       [(SQ, "        phi = self.phi % (4 * np.pi)\n\n        if _can_replace(phi, 0):\n            return qp.Identity(wires=self.wires)\n\n        return RX(phi, wires=self.wires)",
             "        angle = self.phi % (np.pi * 4)\n\n        if _can_replace(angle, 0):\n            return qp.Identity(wires=self.wires)\n\n        return RX(angle, wires=self.wires)")])
silent(P, "rot-simplify-explicit-tuple-instead-of-generator",
       [(SQ, "        p0, p1, p2 = (p % (4 * np.pi) for p in self.data)",
             "        p0, p1, p2 = (self.data[0] % (4 * np.pi), self.data[1] % (4 * np.pi), self.data[2] % (4 * np.pi))")])

# --- R-C03-adjrep
_ADJ = "pennylane/ops/op_math/adjoint.py"
_ADJ2 = "pennylane/ops/op_math/adjoint2.py"
fire("C03", "adjoint-reuses-base-pauli-rep-unconjugated",
     (_ADJ, "        if self.base.pauli_rep:\n            pr = {pw: qp.math.conjugate(coeff) for pw, coeff in self.base.pauli_rep.items()}\n            self._pauli_rep = qp.pauli.PauliSentence(pr)\n        else:\n            self._pauli_rep = None",
            "        self._pauli_rep = self.base.pauli_rep or None"),
     "R-C03-adjrep", "Adjoint.__init__")
fire("C03", "adjoint2-copies-coefficients-without-conjugation",
     (_ADJ2, "            rep = {pw: math.conjugate(c) for pw, c in self.base.pauli_rep.items()}", "            rep = {pw: c for pw, c in self.base.pauli_rep.items()}"),
     "R-C03-adjrep", "Adjoint2.pauli_rep")
silent("C03", "adjoint-conjugates-through-numpy-conj",
       [(_ADJ, "            pr = {pw: qp.math.conjugate(coeff) for pw, coeff in self.base.pauli_rep.items()}", "            pr = {pw: qp.math.conj(coeff) for pw, coeff in self.base.pauli_rep.items()}")])
