from ..variants import fire, silent

DR = "pennylane/decomposition/decomposition_rule.py"
CD = "pennylane/ops/op_math/decompositions/controlled_decompositions.py"
fire("C11", "compute_resources-overwrites-coinciding-keys",
     [(DR, "        gate_counter = Counter()\n        for op, count in raw_gate_counts.items():", "        gate_counter = {}\n        for op, count in raw_gate_counts.items():"),
      (DR, "                gate_counter.update({op: count})", "                gate_counter[op] = count")],
     "R-C11-accum", "compute_resources")
fire("C11", "mcx-many-workers-dead-slice",
     (CD, "    extra_work_wires = work_wires[num_work_wires:]\n    work_wires = work_wires[:num_work_wires]\n",
          "    work_wires = work_wires[:num_work_wires]\n    extra_work_wires = work_wires[num_work_wires:]\n"),
     "R-C11-slice", "_mcx_many_workers")
silent("C11", "compute_resources-get-plus",
       [(DR, "        gate_counter = Counter()\n        for op, count in raw_gate_counts.items():", "        gate_counter = {}\n        for op, count in raw_gate_counts.items():"),
        (DR, "                gate_counter.update({op: count})", "                gate_counter[op] = gate_counter.get(op, 0) + count")])

# --- branch boundary shared by a rule body and its resource function
_AO = "pennylane/ops/qubit/arithmetic_ops.py"
fire("C11", "integer-comparator-lt-resource-boundary-off-by-one",
     (_AO, "    if value > 2 ** (num_wires - 1) - 1:\n        return {qp.X: 1}\n\n    num_controls = num_wires - 1\n    binary_str = format(value, f\"0{num_controls}b\")\n    last_significant = binary_str.rfind(\"1\")",
           "    if value >= 2 ** (num_wires - 1) - 1:\n        return {qp.X: 1}\n\n    num_controls = num_wires - 1\n    binary_str = format(value, f\"0{num_controls}b\")\n    last_significant = binary_str.rfind(\"1\")"),
     "R-C11-count", "_integer_comparator_lt_decomposition")
silent("C11", "integer-comparator-lt-resource-boundary-rewritten-equivalently",
       [(_AO, "    if value > 2 ** (num_wires - 1) - 1:\n        return {qp.X: 1}\n\n    num_controls = num_wires - 1\n    binary_str = format(value, f\"0{num_controls}b\")\n    last_significant = binary_str.rfind(\"1\")",
              "    if value >= 2 ** (num_wires - 1):\n        return {qp.X: 1}\n\n    num_controls = num_wires - 1\n    binary_str = format(value, f\"0{num_controls}b\")\n    last_significant = binary_str.rfind(\"1\")")])
