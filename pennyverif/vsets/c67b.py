from ..variants import fire, silent

TQ = "pennylane/io/to_openqasm.py"
fire("C67", "exporter-extends-input-operations-in-place",
     (TQ, "    [transformed_tape], _ = convert_to_numpy_parameters(tape)\n    operations = transformed_tape.operations\n",
          "    operations = tape.operations\n"),
     "R-C67-pure", "_tape_openqasm")
silent("C67", "exporter-copies-operations",
       [(TQ, "    [transformed_tape], _ = convert_to_numpy_parameters(tape)\n    operations = transformed_tape.operations\n",
             "    operations = list(tape.operations)\n")])

# --- R-C67-shadow
_QI = "pennylane/io/qasm_interpreter.py"
fire("C67", "builtin-constants-shadow-program-variables",
     [(_QI, "        if name in self.vars:\n            res = self.vars[name]\n            if res.val is not None:\n                return res",
            "        if name in CONSTANTS:\n            return CONSTANTS[name]\n        if name in self.vars:\n            res = self.vars[name]\n            if res.val is not None:\n                return res"),
      (_QI, "        if name in self.aliases:\n            return self.aliases[name](self)  # evaluate the alias and de-reference\n        if name in CONSTANTS:\n            return CONSTANTS[name]\n",
            "        if name in self.aliases:\n            return self.aliases[name](self)  # evaluate the alias and de-reference\n")],
     "R-C67-shadow", "retrieve_variable")
silent("C67", "lookup-chain-written-with-elif",
       [(_QI, "        if name in self.registers:\n            return self.registers[name]\n        if name in self.wires:\n            return name\n",
              "        if name in self.registers:\n            return self.registers[name]\n        elif name in self.wires:\n            return name\n")])
