from ..variants import fire, silent

TQ = "pennylane/io/to_openqasm.py"
fire("C67", "exporter-extends-input-operations-in-place",
     (TQ, "    [transformed_tape], _ = convert_to_numpy_parameters(tape)\n    operations = transformed_tape.operations\n",
          "    operations = tape.operations\n"),
     "R-C67-pure", "_tape_openqasm")
silent("C67", "exporter-copies-operations",
       [(TQ, "    [transformed_tape], _ = convert_to_numpy_parameters(tape)\n    operations = transformed_tape.operations\n",
             "    operations = list(tape.operations)\n")])
