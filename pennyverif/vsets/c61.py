from ..variants import fire, silent

GD = "pennylane/optimize/gradient_descent.py"
NM = "pennylane/optimize/nesterov_momentum.py"
SP = "pennylane/optimize/spsa.py"
RS = "pennylane/optimize/rotoselect.py"
SA = "pennylane/optimize/shot_adaptive.py"
QN = "pennylane/optimize/qng.py"
fire("C61", "gd-cost-at-new-args",
     (GD, "            forward = objective_fn(*args, **kwargs)\n\n        # unwrap from list if one argument, cleaner return\n        if len(new_args) == 1:\n            return new_args[0], forward",
          "            forward = objective_fn(*new_args, **kwargs)\n\n        # unwrap from list if one argument, cleaner return\n        if len(new_args) == 1:\n            return new_args[0], forward"),
     "R-C61-cost", "GradientDescentOptimizer.step_and_cost")
fire("C61", "spsa-cost-at-new-args",
     (SP, "        forward = objective_fn(*args, **kwargs)\n", "        forward = objective_fn(*new_args, **kwargs)\n"), "R-C61-cost", "SPSAOptimizer.step_and_cost")
fire("C61", "nesterov-harvests-forward-at-shifted-point",
     (NM, "        forward = None if self.accumulation else getattr(g, \"forward\", None)", "        forward = getattr(g, \"forward\", None)"),
     "R-C61-forward", "NesterovMomentumOptimizer.compute_grad")
fire("C61", "rotoselect-cost-after-inplace-step",
     (RS, "        cost = objective_fn(x, generators, **kwargs)\n        x_new, generators = self.step(objective_fn, x, generators, **kwargs)\n\n        return x_new, generators, cost",
          "        x_new, generators = self.step(objective_fn, x, generators, **kwargs)\n\n        return x_new, generators, objective_fn(x, generators, **kwargs)"),
     "R-C61-cost", "RotoselectOptimizer.step_and_cost")
fire("C61", "shot-adaptive-cost-at-new-args",
     (SA, "        forward = set_shots(objective_fn, shots=int(self.max_shots))(*args, **kwargs)", "        forward = set_shots(objective_fn, shots=int(self.max_shots))(*new_args, **kwargs)"),
     "R-C61-cost", "ShotAdaptiveOptimizer.step_and_cost")
fire("C61", "gd-step-skips-apply-grad",
     (GD, "        g, _ = self.compute_grad(objective_fn, args, kwargs, grad_fn=grad_fn)\n        new_args = self.apply_grad(g, args)",
          "        g, _ = self.compute_grad(objective_fn, args, kwargs, grad_fn=grad_fn)\n        new_args = args"),
     "R-C61-step", "GradientDescentOptimizer.step")
fire("C61", "spsa-step-forgets-counter",
     (SP, "        g = self.compute_grad(objective_fn, args, kwargs)\n        new_args = self.apply_grad(g, args)\n\n        self.k += 1\n\n        # unwrap from list if one argument, cleaner return\n        if len(new_args) == 1:\n            return new_args[0]",
          "        g = self.compute_grad(objective_fn, args, kwargs)\n        new_args = self.apply_grad(g, args)\n\n        # unwrap from list if one argument, cleaner return\n        if len(new_args) == 1:\n            return new_args[0]"),
     "R-C61-step", "SPSAOptimizer.step")
silent("C61", "gd-cost-before-update",
       [(GD, "        g, forward = self.compute_grad(objective_fn, args, kwargs, grad_fn=grad_fn)\n        new_args = self.apply_grad(g, args)\n\n        if forward is None:\n            forward = objective_fn(*args, **kwargs)",
             "        g, forward = self.compute_grad(objective_fn, args, kwargs, grad_fn=grad_fn)\n        if forward is None:\n            forward = objective_fn(*args, **kwargs)\n        new_args = self.apply_grad(g, args)")])
silent("C61", "rotoselect-rename-cost-local",
       [(RS, "        cost = objective_fn(x, generators, **kwargs)\n        x_new, generators = self.step(objective_fn, x, generators, **kwargs)\n\n        return x_new, generators, cost",
             "        before = objective_fn(x, generators, **kwargs)\n        x_new, generators = self.step(objective_fn, x, generators, **kwargs)\n\n        return x_new, generators, before")])

# --- R-C61-tstep
_ADAM = "pennylane/optimize/adam.py"
fire("C61", "adam-timestep-advanced-per-trainable-argument",
     (_ADAM, "        # update first moment\n        self.accumulation[\"fm\"][index] = (", "        self.accumulation[\"t\"] += 1\n        # update first moment\n        self.accumulation[\"fm\"][index] = ("),
     "R-C61-tstep", "_update_accumulation")
fire("C61", "adam-timestep-advanced-inside-the-argument-loop",
     (_ADAM, "            if getattr(arg, \"requires_grad\", False):\n                self._update_accumulation(index, grad[trained_index])",
             "            if getattr(arg, \"requires_grad\", False):\n                self.accumulation[\"t\"] += 1\n                self._update_accumulation(index, grad[trained_index])"),
     "R-C61-tstep", "apply_grad")

# --- R-C61-mtstate
_QNG = "pennylane/optimize/qng.py"
fire("C61", "qng-regularises-the-stored-tensor-on-every-step",
     (_QNG, """            mt = metric_tensor_fn(*args, **kwargs)
            if isinstance(mt, tuple):
                self.metric_tensor = tuple(_reshape_and_regularize(_mt, self.lam) for _mt in mt)
            else:
                self.metric_tensor = _reshape_and_regularize(mt, self.lam)
""", """            self.metric_tensor = metric_tensor_fn(*args, **kwargs)

        mt = self.metric_tensor
        if isinstance(mt, tuple):
            self.metric_tensor = tuple(_reshape_and_regularize(_mt, self.lam) for _mt in mt)
        else:
            self.metric_tensor = _reshape_and_regularize(mt, self.lam)
"""),
     "R-C61-mtstate", "metric_tensor")
silent("C61", "qng-tensor-computed-into-differently-named-local",
       [(_QNG, """            mt = metric_tensor_fn(*args, **kwargs)
            if isinstance(mt, tuple):
                self.metric_tensor = tuple(_reshape_and_regularize(_mt, self.lam) for _mt in mt)
            else:
                self.metric_tensor = _reshape_and_regularize(mt, self.lam)
""", """            raw = metric_tensor_fn(*args, **kwargs)
            if not isinstance(raw, tuple):
                self.metric_tensor = _reshape_and_regularize(raw, self.lam)
            else:
                self.metric_tensor = tuple(_reshape_and_regularize(part, self.lam) for part in raw)
""")])
