"""Seeded variants for C09 / R-C09-cover (E4 trigdom): declarations made too small, matrices given
an extra frequency, and behaviour-preserving rewrites of the matrices / declarations that must
stay silent."""

from ..variants import fire, silent

P = "C09"
R = "R-C09-cover"
PS = "pennylane/gradients/parameter_shift.py"
QC = "pennylane/ops/qubit/qchem_ops.py"
MQ = "pennylane/ops/qubit/parametric_ops_multi_qubit.py"
SQ = "pennylane/ops/qubit/parametric_ops_single_qubit.py"
CO = "pennylane/ops/op_math/controlled_ops.py"

# ---- declaration side ------------------------------------------------------------------------
fire(P, "crot-handler-drops-one-half",
     (PS, "    return [(0.5, 1.0), (0.5, 1.0), (0.5, 1.0)]", "    return [(1.0,), (0.5, 1.0), (0.5, 1.0)]"),
     R, "CRot")
fire(P, "orbitalrotation-drops-2",
     (QC, "    parameter_frequencies = [(0.5, 1.0, 1.5, 2.0)]", "    parameter_frequencies = [(0.5, 1.0, 1.5)]"),
     R, "OrbitalRotation")
_CPS01 = (
    "            - CR_{01}(\\phi - \\pi / 2) \\right]\n\n"
    "    Args:\n"
    "        phi (float): rotation angle :math:`\\phi`\n"
    "        wires (Sequence[int]): the wire the operation acts on\n"
    '    """\n\n'
    "    num_wires = 2\n"
    "    num_params = 1\n"
    '    """int: Number of trainable parameters that the operator depends on."""\n\n'
    "    ndim_params = (0,)\n"
    '    """tuple[int]: Number of dimensions per trainable parameter that the operator depends on."""\n\n'
    '    grad_method = "A"\n'
)
fire(P, "cphaseshift01-declares-2",
     (MQ, _CPS01 + "    parameter_frequencies = [(1,)]\n", _CPS01 + "    parameter_frequencies = [(2,)]\n"),
     R, "CPhaseShift01")
fire(P, "doubleexcitation-drops-1",
     (QC, "    parameter_frequencies = [(0.5, 1.0)]", "    parameter_frequencies = [(0.5,)]"),
     R, "DoubleExcitation.parameter_frequencies")
fire(P, "u3-handler-theta-half",
     (PS, '    """Returns the parameter frequencies for a ``U3`` gate."""\n    return [(1,), (1,), (1,)]',
          '    """Returns the parameter frequencies for a ``U3`` gate."""\n    return [(0.5,), (1,), (1,)]'),
     R, "U3")
fire(P, "single-excitation-handler-drops-one-half",
     (PS, "def _handle_single_excitation(op: SingleExcitation):\n    return [(0.5, 1.0)]",
          "def _handle_single_excitation(op: SingleExcitation):\n    return [(1.0,)]"),
     R, "SingleExcitation")
fire(P, "rot-handler-theta-2",
     (PS, '    """Calculates the parameter frequencies for an Rot."""\n    return [(1,), (1,), (1,)]',
          '    """Calculates the parameter frequencies for an Rot."""\n    return [(1,), (2,), (1,)]'),
     R, "Rot")
fire(P, "new-wrong-declaration-on-pswap",
     (MQ, '    grad_method = "A"\n    grad_recipe = ([[0.5, 1, np.pi / 2], [-0.5, 1, -np.pi / 2]],)\n\n    def __init__(self, phi: TensorLike, wires: WiresLike):',
          '    grad_method = "A"\n    parameter_frequencies = [(2,)]\n    grad_recipe = ([[0.5, 1, np.pi / 2], [-0.5, 1, -np.pi / 2]],)\n\n'
          "    def __init__(self, phi: TensorLike, wires: WiresLike):"),
     R, "PSWAP")

# ---- matrix side -----------------------------------------------------------------------------
fire(P, "fermionicswap-matrix-phase-doubled",
     (QC, "        p = qp.math.cast_like(qp.math.exp(1j * phi), 1j)", "        p = qp.math.cast_like(qp.math.exp(2j * phi), 1j)"),
     R, "FermionicSWAP")
fire(P, "singleexcitationplus-prefactor-3-halves",
     (QC, "        return _single_excitations_matrix(phi, 0.5j)", "        return _single_excitations_matrix(phi, 1.5j)"),
     R, "SingleExcitationPlus")
fire(P, "doubleexcitationminus-prefactor-1",
     (QC, "        return _double_excitations_matrix(phi, -0.5j)", "        return _double_excitations_matrix(phi, -1j)"),
     R, "DoubleExcitationMinus")
# (first `exp_part = ...` of the module is CPhaseShift00's; both of its return paths use it)
fire(P, "cphaseshift00-matrix-phase-doubled",
     (MQ, "        exp_part = math.exp(1j * phi)\n", "        exp_part = math.exp(2j * phi)\n"),
     R, "CPhaseShift00")

# ---- behaviour-preserving controls -------------------------------------------------------------
silent(P, "crot-cos-half-as-product",
       [(CO, "        c = qp.math.cos(theta / 2)\n        s = qp.math.sin(theta / 2)\n",
             "        c = qp.math.cos(0.5 * theta)\n        s = qp.math.sin(theta * 0.5)\n")])
silent(P, "fermionicswap-rename-locals-and-half-phase",
       [(QC, "        g = qp.math.cast_like(qp.math.exp(1j * phi / 2), 1j)\n"
             "        p = qp.math.cast_like(qp.math.exp(1j * phi), 1j)\n\n"
             "        zeros = qp.math.zeros_like(phi)\n"
             "        ones = qp.math.ones_like(phi)\n"
             "        rows = [\n"
             "            [ones, zeros, zeros, zeros],\n"
             "            [zeros, g * c, -1j * g * s, zeros],\n"
             "            [zeros, -1j * g * s, g * c, zeros],\n"
             "            [zeros, zeros, zeros, p],\n"
             "        ]\n",
             "        half_phase = qp.math.cast_like(qp.math.exp(0.5j * phi), 1j)\n"
             "        full_phase = qp.math.cast_like(qp.math.exp(phi * 1j), 1j)\n\n"
             "        ones = qp.math.ones_like(phi)\n"
             "        zeros = qp.math.zeros_like(phi)\n"
             "        rows = [\n"
             "            [ones, zeros, zeros, zeros],\n"
             "            [zeros, half_phase * c, -1j * half_phase * s, zeros],\n"
             "            [zeros, -1j * (half_phase * s), c * half_phase, zeros],\n"
             "            [zeros, zeros, zeros, full_phase],\n"
             "        ]\n")])
silent(P, "orbitalrotation-square-as-product",
       [(QC, "                [1.0, c, c, c**2, c, 1.0, c**2, c, c, c**2, 1.0, c, c**2, c, c, 1.0]",
             "                [1.0, c, c, c * c, c, 1.0, c * c, c, c, 1 - s**2, 1.0, c, c**2, c, c, 1.0]")])
silent(P, "orbitalrotation-declaration-reordered-multiline",
       [(QC, "    parameter_frequencies = [(0.5, 1.0, 1.5, 2.0)]",
             "    parameter_frequencies = [\n        (2, 1.5, 1, 1 / 2),\n    ]")])
silent(P, "singleexcitationminus-prefactor-respelled",
       [(QC, "        return _single_excitations_matrix(phi, -0.5j)", "        return _single_excitations_matrix(phi, -1j / 2)")])
silent(P, "rot-reorder-independent-statements",
       [(SQ, "        c = qp.math.cos(theta / 2)\n        s = qp.math.sin(theta / 2)\n",
             "        s = qp.math.sin(theta / 2)\n        c = qp.math.cos(theta / 2)\n")])
silent(P, "crot-handler-respelled",
       [(PS, "    return [(0.5, 1.0), (0.5, 1.0), (0.5, 1.0)]", "    return [(1.0, 0.5), (0.5, 1), (1 / 2, 1.0)]")])

# --- R-C09-memo
_PSH = "pennylane/gradients/parameter_shift.py"
fire("C09", "generator-frequencies-memoised-per-type-and-size",
     [(_PSH, "@parameter_frequencies.register\ndef _handle_operator2(op: Operator2):", "_GEN_FREQ_CACHE: dict = {}\n\n\n@parameter_frequencies.register\ndef _handle_operator2(op: Operator2):"),
      (_PSH, "        # if the operator has a single parameter, we can query the\n        # generator, and if defined, use its eigenvalues.\n        try:\n            gen = generator(op, format=\"observable\")",
             "        cache_key = (type(op), len(op.wires))\n        if cache_key in _GEN_FREQ_CACHE:\n            return [_GEN_FREQ_CACHE[cache_key]]\n        try:\n            gen = generator(op, format=\"observable\")"),
      (_PSH, "        eigs = tuple(np.round(eigs, 8))\n        return [eigvals_to_frequencies(eigs)]", "        eigs = tuple(np.round(eigs, 8))\n        frequencies = eigvals_to_frequencies(eigs)\n        _GEN_FREQ_CACHE[cache_key] = frequencies\n        return [frequencies]")],
     "R-C09-memo", "_handle_operator2")
silent("C09", "generator-frequencies-memoised-under-the-operator-itself",
       [(_PSH, "@parameter_frequencies.register\ndef _handle_operator2(op: Operator2):", "_GEN_FREQ_CACHE: dict = {}\n\n\n@parameter_frequencies.register\ndef _handle_operator2(op: Operator2):"),
        (_PSH, "        # if the operator has a single parameter, we can query the\n        # generator, and if defined, use its eigenvalues.\n        try:\n            gen = generator(op, format=\"observable\")",
               "        cache_key = op\n        if cache_key in _GEN_FREQ_CACHE:\n            return [_GEN_FREQ_CACHE[cache_key]]\n        try:\n            gen = generator(op, format=\"observable\")"),
        (_PSH, "        eigs = tuple(np.round(eigs, 8))\n        return [eigvals_to_frequencies(eigs)]", "        eigs = tuple(np.round(eigs, 8))\n        frequencies = eigvals_to_frequencies(eigs)\n        _GEN_FREQ_CACHE[cache_key] = frequencies\n        return [frequencies]")])
