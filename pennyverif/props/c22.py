"""C22 — dynamic wire allocation never aliases live wires: ownership typestate of _WireManager."""

from __future__ import annotations

import ast

from ..astutil import call_name, method_call
from ..cfg import CFG, walk_shallow
from ..core import AnalysisError, Report, norm

MOD = "pennylane/transforms/resolve_dynamic_wires.py"
CLS = "_WireManager"
PRIVATE = ("_registers", "_loaned", "_zeroed", "_any_state")


def _reg_of(e, props):
    """'ZERO' / 'ANY' when expression denotes one of the two free registers, else None."""
    t = norm(e)
    if t in props:
        return props[t]
    if t.startswith("self._registers[") and t.endswith("]"):
        k = t[len("self._registers["):-1]
        if k.endswith(".ZERO"):
            return "ZERO"
        if k.endswith(".ANY"):
            return "ANY"
    return None


def _state_const(e):
    if not isinstance(e, (ast.Attribute, ast.Name)):
        return None
    t = norm(e)
    if t.endswith(".ZERO"):
        return "ZERO"
    if t.endswith(".ANY"):
        return "ANY"
    return None


def check(ctx):
    ix = ctx.index
    rep = Report("C22", "a concrete label is in exactly one of the zero register, the any-state register or the loan table; "
                 "labels handed out for the zero state hold |0> (taken from the zero register or reset); labels go back to the zero "
                 "register only when they were known-zero and the user promised to restore them.")
    rep.rule("R-C22-own", "a label returned to the caller is obtained by a destructive .pop() on a free register; on every path from that "
             "pop to the return the loan table records it; return_wire pops the loan and appends to exactly one register; new labels "
             "are appended and the counter incremented on every path; nothing outside the class touches the registers or the loan table")
    rep.rule("R-C22-zero", "the register recorded for the way back is ZERO only under `restored` and only for a label that was popped from "
             "the zero register or reset; the zero-state retrieval path that pops from the any-state register passes measure(w, reset=True) "
             "and returns its operations")
    rep.rule("R-C22-map", "_new_ops maps every allocated wire through manager.get_wire, returns every deallocated wire with a destructive "
             "wire_map.pop, records it as deallocated, and checks every other operator against the deallocated set before yielding it")
    rep.assume("list.pop/append and dict item assignment have their builtin semantics; min_int not colliding with static wires is the caller's contract")

    m = ix.module(MOD)
    cls = ix.cls(MOD, CLS)
    rep.analysed(m.relpath)

    # register properties:  _zeroed -> self._registers[AllocateState.ZERO]
    props = {}
    for name, fl in cls.methods.items():
        f = fl[0]
        if any(norm(d) == "property" for d in f.node.decorator_list):
            rets = [n.value for n in walk_shallow(f.node) if isinstance(n, ast.Return) and n.value is not None]
            if len(rets) == 1:
                r = _reg_of(rets[0], {})
                if r:
                    props[f"self.{name}"] = r
    rep.floor("free-register accessors", len(props), 2)

    # which retrieval method serves which requested state
    served = {}
    # the dispatch table {AllocateState.X: self.<retrieval method>} wherever the class keeps it (a helper method, or inline in get_wire)
    for _nm, _fl in cls.methods.items():
        for rm in _fl:
            for n in walk_shallow(rm.node):
                if isinstance(n, ast.Dict) and n.keys:
                    for k, v in zip(n.keys, n.values):
                        sc = _state_const(k) if k is not None else None
                        if sc and isinstance(v, ast.Attribute) and norm(v.value) == "self":
                            served[v.attr] = sc
    rep.floor("state -> retrieval method table", len(served), 2)

    n_handout = 0
    for name, fl in sorted(cls.methods.items()):
        f = fl[0]
        rep.analysed(m.relpath, f.qualname)
        params = [a.arg for a in f.node.args.args]
        cfg = CFG(f.node, may_raise=lambda n: False)
        stmts = cfg.stmts()
        # label variables: w = <reg>.pop() / w = <reg>[i]
        for nd in stmts:
            st = nd.stmt
            if nd.kind != "stmt" or not isinstance(st, ast.Assign) or len(st.targets) != 1 or not isinstance(st.targets[0], ast.Name):
                continue
            w = st.targets[0].id
            v = st.value
            src = None
            destructive = None
            r = method_call(v) if isinstance(v, ast.Call) else None
            if r and r[1] == "pop" and _reg_of(r[0], props):
                src, destructive = _reg_of(r[0], props), True
                if v.args:  # pop(i): still destructive
                    pass
            elif isinstance(v, ast.Subscript) and _reg_of(v.value, props):
                src, destructive = _reg_of(v.value, props), False
            if src is None:
                continue
            # is w handed out?  return (w, ...) reachable from here
            rets = [x for x in stmts if x.kind == "return" and x.id in cfg.reachable(nd.id) and x.stmt.value is not None
                    and any(isinstance(e, ast.Name) and e.id == w for e in ([x.stmt.value] + (list(x.stmt.value.elts) if isinstance(x.stmt.value, ast.Tuple) else [])))]
            if not rets:
                continue
            n_handout += 1
            where = f"{m.relpath}:{f.qualname} {norm(st)}"
            if not destructive:
                rep.refuted("R-C22-own", m.relpath, f.qualname, st,
                            f"label `{w}` is read from the {src} register by indexing and handed out: it stays in the free register and the next "
                            "allocation receives the same concrete wire while this one is still live")
                continue

            def is_loan(x, w=w):
                s = x.stmt
                return (x.kind == "stmt" and isinstance(s, ast.Assign) and len(s.targets) == 1 and isinstance(s.targets[0], ast.Subscript)
                        and norm(s.targets[0].value) == "self._loaned" and norm(s.targets[0].slice) == w)

            ok = True
            for rt in rets:
                # path pop -> return that must stay inside "after pop": use path_avoiding from the pop node
                p = cfg.path_avoiding(nd.id, rt.id, is_loan)
                if p is not None:
                    ok = False
                    rep.refuted("R-C22-own", m.relpath, f.qualname, st,
                                f"label `{w}` is popped from the {src} register and returned (L{rt.line}) without being recorded in the loan table: "
                                "return_wire cannot put it back and the bookkeeping loses the wire")
            if ok:
                rep.proved("R-C22-own", where, f"destructive pop from {src}, loan recorded on every path to the return")

            # ---- R-C22-zero: loan values + reset
            loans = [x for x in stmts if is_loan(x) and x.id in cfg.reachable(nd.id)]

            def is_reset(x, w=w):
                if x.stmt is None or x.kind not in ("stmt", "return"):
                    return False
                for c in walk_shallow(x.stmt):
                    if isinstance(c, ast.Call) and (call_name(c) or "").split(".")[-1] == "measure" and c.args and norm(c.args[0]) == w \
                            and any(kw.arg == "reset" and isinstance(kw.value, ast.Constant) and kw.value.value is True for kw in c.keywords):
                        return True
                return False

            reset_on_all = all(cfg.path_avoiding(nd.id, rt.id, is_reset) is None for rt in rets)
            known_zero = src == "ZERO" or reset_on_all
            for ln in loans:
                val = ln.stmt.value
                sc = _state_const(val)
                lw = f"{m.relpath}:{f.qualname} {norm(ln.stmt)}"
                if sc == "ANY":
                    rep.proved("R-C22-zero", lw, "goes back to the any-state register")
                elif sc == "ZERO":
                    rep.refuted("R-C22-zero", m.relpath, f.qualname, ln.stmt,
                                f"label `{w}` is unconditionally scheduled to return to the ZERO register: when the user did not promise to restore it "
                                "(restored=False) a dirty wire is later handed out as |0>")
                elif isinstance(val, ast.IfExp) and isinstance(val.test, ast.Name) and val.test.id in params \
                        and _state_const(val.body) == "ZERO" and _state_const(val.orelse) == "ANY":
                    if known_zero:
                        rep.proved("R-C22-zero", lw, f"ZERO only under `{val.test.id}` for a label known to be |0> ({'zero register' if src == 'ZERO' else 'reset'})")
                    else:
                        rep.refuted("R-C22-zero", m.relpath, f.qualname, ln.stmt,
                                    f"label `{w}` comes from the any-state register without a reset, yet it is scheduled to return to the ZERO register "
                                    f"when `{val.test.id}` holds: `restored` only promises the *previous* (arbitrary) state")
                elif isinstance(val, ast.IfExp) and _state_const(val.body) == "ANY" and _state_const(val.orelse) == "ZERO":
                    rep.refuted("R-C22-zero", m.relpath, f.qualname, ln.stmt, "the restored/unrestored registers are swapped: an unrestored wire returns to the ZERO register")
                else:
                    rep.unknown("R-C22-zero", lw, "loan value form not modelled")
            # zero-state retrieval from the any-state register must reset
            if served.get(f.name) == "ZERO" and src == "ANY":
                if reset_on_all:
                    # returned ops must carry the reset
                    good = True
                    for rt in rets:
                        v = rt.stmt.value
                        second = v.elts[1] if isinstance(v, ast.Tuple) and len(v.elts) > 1 else None
                        if second is None or (isinstance(second, (ast.List, ast.Tuple)) and not second.elts):
                            good = False
                            rep.refuted("R-C22-zero", m.relpath, f.qualname, rt.stmt,
                                        "the zero-state retrieval resets an any-state wire but returns no operations: the reset never reaches the circuit")
                    if good:
                        rep.proved("R-C22-zero", f"{m.relpath}:{f.qualname} reset path", "any-state wire is reset (measure(w, reset=True)) and the reset is returned")
                else:
                    rep.refuted("R-C22-zero", m.relpath, f.qualname, st,
                                f"a wire requested in the zero state is taken from the any-state register without measure({w}, reset=True) on some path")
    rep.floor("label hand-out sites (pop -> return)", n_handout, 4)

    # ---- return_wire --------------------------------------------------------------------------
    rw = cls.own_method("return_wire")
    if rw is None:
        raise AnalysisError("_WireManager.return_wire vanished")
    wparam = rw.node.args.args[1].arg
    cfg = CFG(rw.node, may_raise=lambda n: False)
    pops = [x for x in cfg.stmts("stmt") if isinstance(x.stmt, ast.Assign) and isinstance(x.stmt.value, ast.Call)
            and method_call(x.stmt.value) and method_call(x.stmt.value)[1] == "pop" and norm(method_call(x.stmt.value)[0]) == "self._loaned"]
    if not pops:
        # non destructive read?
        reads = [x for x in cfg.stmts("stmt") if isinstance(x.stmt, ast.Assign) and "self._loaned" in norm(x.stmt.value)]
        rep.refuted("R-C22-own", m.relpath, rw.qualname, reads[0].stmt if reads else rw.node,
                    "return_wire does not remove the label from the loan table: the label is at once loaned and free")
    else:
        reg = pops[0].stmt.targets[0].id if isinstance(pops[0].stmt.targets[0], ast.Name) else None

        def is_append(x):
            s = x.stmt
            if x.kind != "stmt" or not isinstance(s, ast.Expr) or not isinstance(s.value, ast.Call):
                return False
            r = method_call(s.value)
            return bool(r and r[1] == "append" and norm(r[0]) == f"self._registers[{reg}]" and s.value.args and norm(s.value.args[0]) == wparam)

        apps = [x for x in cfg.stmts() if is_append(x)]
        if not apps or cfg.path_avoiding(pops[0].id, cfg.exit, is_append) is not None:
            rep.refuted("R-C22-own", m.relpath, rw.qualname, pops[0].stmt, "a returned label is not appended to the register recorded at loan time on every path")
        elif len(apps) > 1 and any(apps[1].id in cfg.reachable(s) for s, _ in cfg.succ[apps[0].id]):
            rep.refuted("R-C22-own", m.relpath, rw.qualname, apps[0].stmt, "a returned label is appended to a register twice")
        else:
            rep.proved("R-C22-own", f"{m.relpath}:{rw.qualname}", "loan popped, label appended to exactly the recorded register")

    # ---- _add_new_wire ------------------------------------------------------------------------
    an = cls.own_method("_add_new_wire")
    if an is None:
        raise AnalysisError("_WireManager._add_new_wire vanished")
    cfg = CFG(an.node, may_raise=lambda n: False)
    apps = [x for x in cfg.stmts("stmt") if isinstance(x.stmt, ast.Expr) and isinstance(x.stmt.value, ast.Call)
            and method_call(x.stmt.value) and method_call(x.stmt.value)[1] == "append" and norm(x.stmt.value.args[0]) == "self.min_int"]

    def is_inc(x):
        s = x.stmt
        return x.kind == "stmt" and ((isinstance(s, ast.AugAssign) and norm(s.target) == "self.min_int" and isinstance(s.op, ast.Add)) or
                                     (isinstance(s, ast.Assign) and norm(s.targets[0]) == "self.min_int" and "self.min_int +" in norm(s.value)))

    if not apps:
        rep.unknown("R-C22-own", f"{m.relpath}:{an.qualname}", "fresh-label append not recognised")
    for a in apps:
        if cfg.path_avoiding(a.id, cfg.exit, is_inc) is not None:
            rep.refuted("R-C22-own", m.relpath, an.qualname, a.stmt,
                        "a fresh label is added without incrementing the counter: the next fresh label is the same wire")
        else:
            rep.proved("R-C22-own", f"{m.relpath}:{an.qualname}", "fresh label appended, counter incremented on every path")

    # ---- who may touch --------------------------------------------------------------------------
    n_out = 0
    for mod in ix.modules.values():
        if not any(p in mod.source for p in ("_loaned", "._registers", "._zeroed", "._any_state")):
            continue
        for f in ix.funcs_in(mod):
            if f.cls is cls:
                continue
            for n in walk_shallow(f.node):
                if isinstance(n, ast.Attribute) and n.attr in PRIVATE and mod is m:
                    n_out += 1
                    rep.refuted("R-C22-own", mod.relpath, f.qualname, n, f"touches _WireManager.{n.attr} from outside the class", line=n.lineno)
                elif isinstance(n, ast.Attribute) and n.attr == "_loaned":
                    n_out += 1
                    rep.refuted("R-C22-own", mod.relpath, f.qualname, n, f"touches the loan table from outside _WireManager", line=n.lineno)
    if not n_out:
        rep.proved("R-C22-own", "who-may-touch", "registers and loan table are touched only by _WireManager methods")

    _private(ix, rep, m, cls)
    _map(ix, rep, m)
    _free(ix, rep)
    # the free-wire filter of R-C22-free reads tape.wires; a copy of a tape that keeps the original's memoised `wires` although
    # its measurements / operations were replaced hides a used wire from the allocator (rule shared with C40's R-C40-cache)
    rep.rule("R-C22-tapewires", "QuantumScript.copy(**update) carries a memoised `wires` to the copy only under a guard that excludes an update of the "
             "operations and of the measurements")
    _promise(ix, rep)
    from .c40_extra import cache_part

    if not cache_part(ix, rep, rule="R-C22-tapewires", slots={"wires", "_wires", "num_wires"}, floor=0):
        rep.proved("R-C22-tapewires", "pennylane/core/qscript.py:QuantumScript.copy", "the memoised wires are never carried to a copy", nontrivial=False)
    return rep


FRESH_CTORS = {"list", "sorted", "deque", "collections.deque"}


def _fresh_container(e):
    """True / False / None: does expression ``e`` always build a new list-like container?"""
    if isinstance(e, (ast.ListComp, ast.List)):
        return True
    if isinstance(e, ast.Call):
        cn = call_name(e)
        if cn in FRESH_CTORS:
            return True
        r = method_call(e)
        if r and r[1] == "copy":
            return True
        return None
    if isinstance(e, ast.Subscript) and isinstance(e.slice, ast.Slice):
        return True
    if isinstance(e, ast.IfExp):
        a, b = _fresh_container(e.body), _fresh_container(e.orelse)
        if a is False or b is False:
            return False
        return True if (a and b) else None
    if isinstance(e, ast.BinOp) and isinstance(e.op, ast.Add):
        return True
    if isinstance(e, (ast.Name, ast.Attribute)):
        return False
    return None


def _private(ix, rep, m, cls):
    """R-C22-private: the registers the manager pops from / appends to are its own lists, not the caller's sequences."""
    rep.rule("R-C22-private", "every register stored by _WireManager.__init__ is a freshly built list (list(x), [..], x.copy(), x[:]): the manager "
             "pops from and appends to its registers, so a register that *is* the caller's `zeroed` / `any_state` list leaks allocator state "
             "(which wire is clean) into the caller's arguments and into the next application of the transform")
    init = cls.own_method("__init__")
    if init is None:
        raise AnalysisError("_WireManager.__init__ vanished")
    params = {a.arg for a in init.node.args.args[1:]}
    n = 0
    for st in walk_shallow(init.node):
        if not isinstance(st, ast.Assign) or not any(norm(t) == "self._registers" for t in st.targets):
            continue
        vals = st.value.values if isinstance(st.value, ast.Dict) else [st.value]
        for v in vals:
            n += 1
            fr = _fresh_container(v)
            names = {x.id for x in ast.walk(v) if isinstance(x, ast.Name)} & params
            where = f"{m.relpath}:{init.qualname} register `{norm(v)[:50]}`"
            if fr is True:
                rep.proved("R-C22-private", where, "freshly built list")
            elif fr is False and names:
                rep.refuted("R-C22-private", m.relpath, init.qualname, st,
                            f"the register `{norm(v)[:70]}` can be the caller's own `{sorted(names)[0]}` object: get_wire pops from it and return_wire appends "
                            "to it, so the caller's list changes and a wire reset in one application is handed out as |0> by the next one")
            else:
                rep.unknown("R-C22-private", where, "register expression not classified")
    rep.floor("allocator registers checked for ownership", n, 2)


PRE = "pennylane/devices/preprocess.py"
QS = "pennylane/core/qscript.py"


def _coverage_of_tape_attr(ix, attr):
    """Which objects of a QuantumScript does ``tape.<attr>`` range over?  ALL / OPS / MPS / None (unknown),
    read off the property body in core/qscript.py."""
    qs = ix.cls(QS, "QuantumScript")
    c, f = qs.lookup(attr)
    from ..index import FuncInfo

    if not isinstance(f, FuncInfo):
        return None
    txt = " ".join(norm(n) for n in walk_shallow(f.node) if isinstance(n, (ast.GeneratorExp, ast.ListComp, ast.For, ast.Return)))
    iters = [norm(n.iter) for n in walk_shallow(f.node) if isinstance(n, (ast.comprehension, ast.For))]
    if any(i == "self" for i in iters):
        return "ALL"
    ops = any("self.operations" in i or "self._ops" in i for i in iters)
    mps = any("self.measurements" in i or "self._measurements" in i or "self.observables" in i for i in iters)
    if ops and mps:
        return "ALL"
    if ops:
        return "OPS"
    if mps:
        return "MPS"
    return None


def _free(ix, rep):
    """R-C22-free: the device wrapper must exclude *every* circuit wire from the registers it hands to the allocator."""
    rep.rule("R-C22-free", "in device_resolve_dynamic_wires the device wires offered to the allocator (zeroed=/any_state=) are filtered by "
             "membership in the set of ALL circuit wires (operations and measurements), and min_int is computed over ALL circuit wires")
    f0 = ix.func(PRE, "device_resolve_dynamic_wires")
    pm = ix.module(PRE)
    todo = [(f0, f0.node.args.args[0].arg)]
    # helpers of the module that are handed the tape: their filters count as the wrapper's
    for c_ in ast.walk(f0.node):
        if isinstance(c_, ast.Call) and isinstance(c_.func, ast.Name) and c_.func.id in pm.functions and c_.func.id != f0.name:
            g_ = pm.functions[c_.func.id]
            gp_ = [a_.arg for a_ in g_.node.args.args]
            for i_, a_ in enumerate(c_.args):
                if isinstance(a_, ast.Name) and a_.id == todo[0][1] and i_ < len(gp_):
                    todo.append((g_, gp_[i_]))
    n_sites = 0
    for f, tape in todo:
        n_sites += _free_scan(ix, rep, f, tape)
    rep.floor("free-wire filters in device_resolve_dynamic_wires", n_sites, 2)


def _free_scan(ix, rep, f, tape):
    rep.analysed(PRE, f.qualname)
    defs = {}
    for n in walk_shallow(f.node):
        if isinstance(n, ast.Assign) and len(n.targets) == 1 and isinstance(n.targets[0], ast.Name):
            defs.setdefault(n.targets[0].id, []).append(n)

    def coverage(e, depth=0):
        """coverage of a wire-set expression"""
        if depth > 4:
            return None
        if isinstance(e, ast.Attribute) and isinstance(e.value, ast.Name) and e.value.id == tape:
            return _coverage_of_tape_attr(ix, e.attr)
        if isinstance(e, ast.Call) and norm(e.func) in ("set", "frozenset", "list", "tuple", "Wires", "sorted") and e.args:
            return coverage(e.args[0], depth + 1)
        if isinstance(e, ast.Name) and e.id in defs and len(defs[e.id]) == 1:
            return coverage(defs[e.id][0].value, depth + 1)
        if isinstance(e, ast.BinOp) and isinstance(e.op, (ast.BitOr, ast.Add)):
            a, b = coverage(e.left, depth + 1), coverage(e.right, depth + 1)
            if "ALL" in (a, b) or {a, b} == {"OPS", "MPS"}:
                return "ALL"
            return None
        return None

    n_sites = 0
    for n in walk_shallow(f.node):
        # [w for w in wires if w not in <S>]
        if isinstance(n, (ast.ListComp, ast.GeneratorExp, ast.SetComp)):
            for g in n.generators:
                for cond in g.ifs:
                    if isinstance(cond, ast.Compare) and len(cond.ops) == 1 and isinstance(cond.ops[0], ast.NotIn):
                        n_sites += 1
                        cov = coverage(cond.comparators[0])
                        where = f"{PRE}:{f.qualname} {norm(cond)}"
                        if cov == "ALL":
                            rep.proved("R-C22-free", where, "free device wires exclude every circuit wire")
                        elif cov in ("OPS", "MPS"):
                            rep.refuted("R-C22-free", PRE, f.qualname, cond,
                                        f"device wires are offered to the allocator unless they are in {norm(cond.comparators[0])}, which covers only the "
                                        f"{'operations' if cov == 'OPS' else 'measurements'} of the circuit: a static wire that is only "
                                        f"{'measured' if cov == 'OPS' else 'acted on'} can be handed to a dynamic allocation (aliasing a live static wire)")
                        else:
                            rep.unknown("R-C22-free", where, "exclusion set not resolved")
                    # for i in <S> ... (min_int)
        if isinstance(n, ast.Call) and norm(n.func) == "max" and n.args and isinstance(n.args[0], (ast.GeneratorExp, ast.ListComp)):
            g = n.args[0].generators[0]
            n_sites += 1
            cov = coverage(g.iter)
            where = f"{PRE}:{f.qualname} max over {norm(g.iter)}"
            if cov == "ALL":
                rep.proved("R-C22-free", where, "fresh integer labels start above every circuit wire")
            elif cov in ("OPS", "MPS"):
                rep.refuted("R-C22-free", PRE, f.qualname, n,
                            f"min_int is computed over {norm(g.iter)}, which covers only part of the circuit: a fresh label can coincide with a static wire")
            else:
                rep.unknown("R-C22-free", where, "wire set not resolved")
    return n_sites


def _map(ix, rep, m):
    f = ix.func(MOD, "_new_ops")
    rep.analysed(m.relpath, "_new_ops")
    params = [a.arg for a in f.node.args.args]
    mgr, wmap, dealloc = params[1], params[2], params[3]
    loops = [s for s in f.node.body if isinstance(s, ast.For)]
    if len(loops) != 1:
        raise AnalysisError("_new_ops: main loop not found")
    branches = {}
    node = loops[0].body

    def _key(test):
        t = norm(test)
        return "Allocate" if "'Allocate'" in t else ("Deallocate" if "'Deallocate'" in t else None)
    # form 1: if / elif / else chain;  form 2: `if …: …; continue` blocks followed by the general case
    chain_heads = [s for s in node if isinstance(s, ast.If) and _key(s.test)]
    if len(chain_heads) >= 2 and all(not h.orelse and h.body and isinstance(h.body[-1], ast.Continue) for h in chain_heads):
        for h in chain_heads:
            branches[_key(h.test)] = h.body[:-1]
        last = node.index(chain_heads[-1])
        branches["other"] = node[last + 1:]
    else:
        cur = chain_heads[0] if chain_heads else None
        while cur is not None:
            key = _key(cur.test)
            if key:
                branches[key] = cur.body
            nxt = cur.orelse
            if len(nxt) == 1 and isinstance(nxt[0], ast.If) and _key(nxt[0].test):
                cur = nxt[0]
            else:
                branches["other"] = nxt
                cur = None
    for k in ("Allocate", "Deallocate", "other"):
        if k not in branches:
            raise AnalysisError(f"_new_ops: branch for {k} not found")
    # a branch that only delegates to a helper of this module (`h(op, manager, wire_map[, deallocated])`, possibly behind
    # `yield from`) is replaced by the helper's body with the parameters renamed to the caller's names
    import copy
    alloc_fn = f.node
    for k in ("Allocate", "Deallocate"):
        stmts = [s_ for s_ in branches[k] if not (isinstance(s_, ast.Expr) and isinstance(s_.value, ast.Constant))]
        if len(stmts) != 1 or not isinstance(stmts[0], ast.Expr):
            continue
        v_ = stmts[0].value
        c_ = v_.value if isinstance(v_, (ast.YieldFrom, ast.Await)) else v_
        if not (isinstance(c_, ast.Call) and isinstance(c_.func, ast.Name) and c_.func.id in m.functions and not c_.keywords
                and all(isinstance(a_, ast.Name) for a_ in c_.args)):
            continue
        g_ = m.functions[c_.func.id]
        gp_ = [a_.arg for a_ in g_.node.args.args]
        if len(gp_) != len(c_.args):
            continue
        ren = {p_: a_.id for p_, a_ in zip(gp_, c_.args)}
        gcopy = copy.deepcopy(g_.node)
        for n_ in ast.walk(gcopy):
            if isinstance(n_, ast.Name) and n_.id in ren:
                n_.id = ren[n_.id]
            elif isinstance(n_, ast.arg) and n_.arg in ren:
                n_.arg = ren[n_.arg]
        branches[k] = gcopy.body
        rep.analysed(m.relpath, g_.qualname)
        if k == "Allocate":
            alloc_fn = gcopy
    # Allocate
    body = ast.Module(body=branches["Allocate"], type_ignores=[])
    got = None
    for n in ast.walk(body):
        if isinstance(n, ast.Assign) and isinstance(n.value, ast.Call) and method_call(n.value) and method_call(n.value)[1] == "get_wire" \
                and norm(method_call(n.value)[0]) == mgr:
            t = n.targets[0]
            got = t.elts[0].id if isinstance(t, ast.Tuple) and isinstance(t.elts[0], ast.Name) else (t.id if isinstance(t, ast.Name) else None)
    stores = [n for n in ast.walk(body) if isinstance(n, ast.Assign) and isinstance(n.targets[0], ast.Subscript) and norm(n.targets[0].value) == wmap]
    if got and any(isinstance(s.value, ast.Name) and s.value.id == got for s in stores):
        rep.proved("R-C22-map", f"{m.relpath}:_new_ops Allocate", f"{wmap}[w] = label obtained from {mgr}.get_wire")
    elif stores:
        rep.refuted("R-C22-map", m.relpath, "_new_ops", stores[0],
                    "an allocated dynamic wire is mapped to a label that does not come from manager.get_wire: the manager cannot know it is live")
    else:
        rep.refuted("R-C22-map", m.relpath, "_new_ops", branches["Allocate"][0], "allocated dynamic wires are never entered in the wire map")
    # yields the reset ops
    if got:
        ops_var = None
        for n in ast.walk(body):
            if isinstance(n, ast.Assign) and isinstance(n.targets[0], ast.Tuple) and len(n.targets[0].elts) == 2 and isinstance(n.targets[0].elts[1], ast.Name):
                ops_var = n.targets[0].elts[1].id
        ys = [n for n in ast.walk(body) if isinstance(n, (ast.YieldFrom, ast.Yield)) and n.value is not None and ops_var and ops_var in norm(n.value)]
        if ops_var and ys:
            # per hand-out: between one get_wire call and the next (or the end of the generator) the returned ops are emitted
            fcfg = CFG(alloc_fn, may_raise=lambda n: False)

            def is_emit(x):
                s_ = x.stmt
                return x.kind == "stmt" and isinstance(s_, ast.Expr) and isinstance(s_.value, (ast.YieldFrom, ast.Yield)) \
                    and s_.value.value is not None and ops_var in {y.id for y in ast.walk(s_.value.value) if isinstance(y, ast.Name)}
            gnodes = [x for x in fcfg.stmts("stmt") if isinstance(x.stmt, ast.Assign) and isinstance(x.stmt.value, ast.Call)
                      and method_call(x.stmt.value) and method_call(x.stmt.value)[1] == "get_wire"]
            lost = None
            for g in gnodes:
                if fcfg.path_avoiding(g.id, fcfg.exit, is_emit) is not None:
                    lost = lost or (g, "the end of the generator")
                for s_, _lab in fcfg.succ[g.id]:
                    if not is_emit(fcfg.nodes[s_]) and (s_ == g.id or fcfg.path_avoiding(s_, g.id, is_emit) is not None):
                        lost = lost or (g, "the next manager.get_wire call")
            if lost:
                rep.refuted("R-C22-map", m.relpath, "_new_ops", lost[0].stmt,
                            f"a path from `{norm(lost[0].stmt)[:60]}` to {lost[1]} does not emit `{ops_var}`: with several wires in one "
                            "Allocate the reset of all but the last reused wire is overwritten and never reaches the circuit, so a dirty wire "
                            "is used as |0>")
            else:
                rep.proved("R-C22-map", f"{m.relpath}:_new_ops Allocate reset ops", "operations returned by every get_wire call (the reset) are "
                           "emitted before the next hand-out and before the generator ends")
        elif ops_var:
            rep.refuted("R-C22-map", m.relpath, "_new_ops", branches["Allocate"][0],
                        "the operations returned by manager.get_wire (the reset of a reused wire) are dropped: the wire is used as |0> without being reset")
    # Deallocate
    body = ast.Module(body=branches["Deallocate"], type_ignores=[])
    rws = [n for n in ast.walk(body) if isinstance(n, ast.Call) and method_call(n) and method_call(n)[1] == "return_wire" and norm(method_call(n)[0]) == mgr]
    adds = [n for n in ast.walk(body) if isinstance(n, ast.Call) and method_call(n) and method_call(n)[1] == "add" and norm(method_call(n)[0]) == dealloc]
    if not rws:
        rep.refuted("R-C22-map", m.relpath, "_new_ops", branches["Deallocate"][0], "deallocated wires are never returned to the manager")
    else:
        a = rws[0].args[0] if rws[0].args else None
        r = method_call(a) if isinstance(a, ast.Call) else None
        if r and r[1] == "pop" and norm(r[0]) == wmap:
            rep.proved("R-C22-map", f"{m.relpath}:_new_ops Deallocate", "label returned with a destructive wire_map.pop")
        else:
            rep.refuted("R-C22-map", m.relpath, "_new_ops", rws[0],
                        "the label is returned to the manager but stays in the wire map: later operators on the dead dynamic wire are silently "
                        "mapped onto a concrete wire that may have been loaned again")
    if adds:
        rep.proved("R-C22-map", f"{m.relpath}:_new_ops Deallocate record", "deallocated wire recorded")
    else:
        rep.refuted("R-C22-map", m.relpath, "_new_ops", branches["Deallocate"][0], "deallocated dynamic wires are not recorded: use-after-deallocation goes undetected")
    # other: yield dominated by the deallocated check
    sub = ast.FunctionDef(name="_other", args=f.node.args, body=branches["other"], decorator_list=[], lineno=f.node.lineno, col_offset=0)
    cfg = CFG(sub, may_raise=lambda n: False)
    ys = [x for x in cfg.stmts("stmt") if isinstance(x.stmt, ast.Expr) and isinstance(x.stmt.value, ast.Yield)]

    def _raising_helper(call):
        """a call `h(op, deallocated)` of a function of this module whose body raises under a test on its deallocated-set parameter"""
        if not (isinstance(call, ast.Call) and isinstance(call.func, ast.Name)):
            return False
        g = m.functions.get(call.func.id)
        if g is None or not any(isinstance(a_, ast.Name) and a_.id == dealloc for a_ in call.args):
            return False
        pos = [i for i, a_ in enumerate(call.args) if isinstance(a_, ast.Name) and a_.id == dealloc][0]
        gp = [x.arg for x in g.node.args.args]
        if pos >= len(gp):
            return False
        return any(isinstance(t_, ast.If) and gp[pos] in norm(t_.test) and any(isinstance(b, ast.Raise) for b in t_.body) for t_ in walk_shallow(g.node))

    def is_check(x):
        if x.kind == "test" and dealloc in norm(x.stmt.test):
            if any(isinstance(b, ast.Raise) for b in x.stmt.body):
                return True
            # `if deallocated: _validate(op, deallocated)`: the test only skips the check when the set is empty
            if any(isinstance(b, ast.Expr) and _raising_helper(b.value) for b in x.stmt.body):
                return True
        return x.kind == "stmt" and isinstance(x.stmt, ast.Expr) and _raising_helper(x.stmt.value)

    if not ys:
        rep.unknown("R-C22-map", f"{m.relpath}:_new_ops other", "no yield found")
    for y in ys:
        if cfg.path_avoiding(cfg.entry, y.id, is_check) is None:
            rep.proved("R-C22-map", f"{m.relpath}:_new_ops other", "operators are checked against the deallocated set before being emitted")
        else:
            rep.refuted("R-C22-map", m.relpath, "_new_ops", y.stmt, "an operator can be emitted without the use-after-deallocation check")


ALLOC = "pennylane/allocation.py"


def _promise(ix, rep):
    """R-C22-promise: the allocator trusts `restored` (R-C22-zero sends a wire back to the zero register under it); what an Allocate operator
    records must therefore be what the caller promised, never something stronger."""
    from ..astutil import expand_locals

    rep.rule("R-C22-promise", "Allocate.__init__ records under 'restored' the caller's argument itself (possibly through bool()): the promise is never "
             "or-ed with another condition — a wire the user did not promise to restore must not be filed as clean")
    cls = ix.cls(ALLOC, "Allocate")
    init = cls.own_method("__init__")
    if init is None:
        raise AnalysisError("Allocate.__init__ vanished")
    rep.analysed(ALLOC, init.qualname)
    n = 0
    for st in init.node.body:
        vals = []
        if isinstance(st, ast.Assign) and any("_hyperparameters" in norm(t) or "hyperparameters" in norm(t) for t in st.targets):
            if isinstance(st.value, ast.Dict):
                vals = [v for k, v in zip(st.value.keys, st.value.values) if isinstance(k, ast.Constant) and k.value == "restored"]
            if isinstance(st.targets[0], ast.Subscript) and isinstance(st.targets[0].slice, ast.Constant) and st.targets[0].slice.value == "restored":
                vals = [st.value]
        for v in vals:
            n += 1
            e = expand_locals(init.node, st, v)
            while isinstance(e, ast.Call) and isinstance(e.func, ast.Name) and e.func.id == "bool" and len(e.args) == 1:
                e = e.args[0]
            where = f"{ALLOC}:Allocate.__init__ restored={norm(v)}"
            if isinstance(e, ast.Name) and e.id == "restored":
                rep.proved("R-C22-promise", where, "the caller's promise, unchanged")
            elif isinstance(e, ast.BoolOp) and isinstance(e.op, ast.Or) and any("restored" in norm(x) for x in e.values):
                rep.refuted("R-C22-promise", ALLOC, "Allocate.__init__", st,
                            f"the recorded promise is `{norm(e)[:70]}`: it is true in cases where the caller passed restored=False, so the allocator files a "
                            "wire the circuit leaves dirty back into the zero register and hands it out as |0> without a reset")
            elif isinstance(e, ast.Constant) and e.value is True:
                rep.refuted("R-C22-promise", ALLOC, "Allocate.__init__", st, "every allocation is recorded as restored, whatever the caller promised")
            else:
                rep.unknown("R-C22-promise", where, "recorded value not classified")
    rep.floor("recordings of the restored promise", n, 1)
