"""C61 (one clause) — step_and_cost returns the cost at the pre-step parameters.

Provenance of the returned cost value, decided on the CFG of every step_and_cost / compute_grad.
"""

from __future__ import annotations

import ast

from ..astutil import call_name
from ..cfg import CFG, walk_shallow
from ..core import Report, norm
from ..index import FuncInfo

DIR = "pennylane/optimize/"
# step_and_cost methods without objective arguments: nothing to decide for this clause (named, with reason)
OUT_OF_RULE = {
    "AdaptiveOptimizer": "takes a circuit and an operator pool, returns the circuit's own energy; no objective/arguments pair",
    "RiemannianGradientOptimizer": "no arguments: optimises the circuit stored on the optimizer",
    "QNGOptimizerQJIT": "functional (params, state) interface returning the state; cost provenance is the qnode call on `params`",
}
UPDATE_METHODS = {"apply_grad", "_step_core", "_apply_blocking", "step"}


def _names(e):
    return {n.id for n in ast.walk(e) if isinstance(n, ast.Name)}


def check(ctx):
    ix = ctx.index
    rep = Report("C61", "`step_and_cost` returns the cost at the pre-step parameters (the update formulas and accumulator arithmetic "
                 "are numerical and not decided).")
    rep.rule("R-C61-cost", "in every step_and_cost(self, objective_fn, <params>…) the returned cost comes from a call of the objective (or "
             "of a function derived from it) on the method's own, unmodified parameters, evaluated at a point that no write to those "
             "parameters (rebinding or in-place update by the optimizer's own update methods) can reach — or from the `forward` slot "
             "returned by compute_grad")
    rep.rule("R-C61-forward", "every compute_grad that harvests `.forward` of the gradient function called that function on `args` itself, "
             "or discards the harvested value exactly under the condition under which it shifted the arguments")
    rep.rule("R-C61-step", "`step` performs the same sequence of optimizer update calls as `step_and_cost` (or delegates to it)")
    rep.assume("objective functions are pure; `self.<update>()` calls may modify mutable arguments in place")

    sac = [f for f in ix.functions if f.name == "step_and_cost" and f.cls is not None and f.module.relpath.startswith(DIR)]
    rep.floor("step_and_cost definitions", len(sac), 9)
    n_decided = 0
    for f in sorted(sac, key=lambda f: f.module.relpath):
        rel, qn = f.module.relpath, f.qualname
        rep.analysed(rel, qn)
        if f.cls.name in OUT_OF_RULE:
            rep.exempt("R-C61-cost", f"{rel}:{qn}", OUT_OF_RULE[f.cls.name])
            continue
        a = f.node.args
        pos = [x.arg for x in a.args][1:]
        if not pos:
            rep.unknown("R-C61-cost", f"{rel}:{qn}", "no objective parameter")
            continue
        obj = pos[0]
        own_params = set(pos[1:]) | ({a.vararg.arg} if a.vararg else set())
        kw = a.kwarg.arg if a.kwarg else None
        cfg = CFG(f.node, may_raise=lambda n: False)
        nodes = cfg.stmts()
        rets = [n for n in nodes if n.kind == "return" and n.stmt.value is not None]
        n_decided += 1
        ok = True
        for r in rets:
            v = r.stmt.value
            if not isinstance(v, ast.Tuple) or len(v.elts) < 2:
                rep.unknown("R-C61-cost", f"{rel}:{qn} {norm(r.stmt)[:60]}", "return is not a (new parameters, cost) tuple")
                continue
            cost = v.elts[-1] if f.cls.name.startswith("Rotoselect") else v.elts[1]
            verdict = _cost_ok(cfg, nodes, r, cost, obj, own_params, kw, f)
            if verdict is True:
                continue
            ok = False
            if verdict is None:
                rep.unknown("R-C61-cost", f"{rel}:{qn} {norm(r.stmt)[:60]}", "cost provenance not resolved")
            else:
                node, why = verdict
                rep.refuted("R-C61-cost", rel, qn, node, f"{why}: step_and_cost does not return the cost at the pre-step parameters")
        if ok and rets:
            rep.proved("R-C61-cost", f"{rel}:{qn}", "cost = objective(own unmodified parameters) evaluated before any update, or compute_grad's forward")
        # step vs step_and_cost
        st = f.cls.own_method("step")
        if st is not None:
            _step_agreement(rep, f, st)
    rep.floor("step_and_cost methods decided", n_decided, 6)

    # ---- compute_grad -------------------------------------------------------------------------
    cgs = [f for f in ix.functions if f.name == "compute_grad" and f.cls is not None and f.module.relpath.startswith(DIR)]
    rep.floor("compute_grad definitions", len(cgs), 4)
    for f in cgs:
        rel, qn = f.module.relpath, f.qualname
        rep.analysed(rel, qn)
        params = [x.arg for x in f.node.args.args]
        argsname = "args" if "args" in params else None
        harvest = [n for n in walk_shallow(f.node) if isinstance(n, ast.Assign) and any(
            isinstance(c, ast.Call) and call_name(c) == "getattr" and len(c.args) >= 2 and isinstance(c.args[1], ast.Constant) and c.args[1].value == "forward"
            for c in ast.walk(n.value))]
        if not harvest:
            rep.proved("R-C61-forward", f"{rel}:{qn}", "does not harvest a forward value", nontrivial=False)
            continue
        h = harvest[0]
        gname = next(c.args[0].id for c in ast.walk(h.value) if isinstance(c, ast.Call) and call_name(c) == "getattr" and isinstance(c.args[0], ast.Name))
        gcalls = [c for c in walk_shallow(f.node) if isinstance(c, ast.Call) and isinstance(c.func, ast.Name) and c.func.id == gname]
        star = [a_.value for c in gcalls for a_ in c.args if isinstance(a_, ast.Starred)]
        if not gcalls or not star:
            rep.unknown("R-C61-forward", f"{rel}:{qn}", "gradient function call not recognised")
            continue
        s0 = star[0]
        if isinstance(s0, ast.Name) and s0.id == argsname:
            rep.proved("R-C61-forward", f"{rel}:{qn}", f"{gname}(*{argsname}) — forward is the objective at the current arguments")
            continue
        # gradient taken at other arguments: where are they modified, and is the harvest discarded there?
        sname = s0.id if isinstance(s0, ast.Name) else None
        conds = set()
        parents = {}
        for p in ast.walk(f.node):
            for c in ast.iter_child_nodes(p):
                parents[c] = p
        for n in walk_shallow(f.node):
            tgt = None
            if isinstance(n, ast.Assign) and isinstance(n.targets[0], ast.Subscript) and isinstance(n.targets[0].value, ast.Name) and n.targets[0].value.id == sname:
                tgt = n
            if tgt is not None:
                cur, found = tgt, None
                while cur in parents:
                    cur = parents[cur]
                    if isinstance(cur, ast.If):
                        found = norm(cur.test)
                        break
                conds.add(found)
        hv = h.value
        guarded = isinstance(hv, ast.IfExp) and isinstance(hv.body, ast.Constant) and hv.body.value is None and norm(hv.test) in conds and None not in conds
        if guarded:
            rep.proved("R-C61-forward", f"{rel}:{qn}", f"forward harvested from {gname}(*{sname}) is discarded exactly when `{norm(hv.test)}` (the condition under which {sname} is shifted)")
        elif not conds:
            rep.unknown("R-C61-forward", f"{rel}:{qn}", f"{gname} is called on `{norm(s0)}`, whose relation to args is not modelled")
        else:
            rep.refuted("R-C61-forward", rel, qn, h,
                        f"the gradient function is evaluated at `{norm(s0)}`, which differs from `args` when {sorted(c for c in conds if c)}; its forward pass is "
                        "harvested unconditionally and handed to step_and_cost as the cost, which is then the cost at the shifted point, not at the pre-step parameters")
    from .c61_extra import extra, metric_state, tstep

    tstep(ctx, rep)
    metric_state(ctx, rep)

    extra(ctx, rep)
    return rep


def _cost_ok(cfg, nodes, ret, cost, obj, own_params, kw, f):
    """True / None (unknown) / (node, why)"""
    # direct call in the return expression
    def objective_call(c):
        if not isinstance(c, ast.Call):
            return False
        fn = c.func
        if isinstance(fn, ast.Name) and fn.id == obj:
            return True
        # a function derived from the objective: set_shots(objective_fn, ...)(…)
        if isinstance(fn, ast.Call) and obj in _names(fn):
            return True
        return False

    def writes(node):
        """parameter names this CFG node may write (rebinding or in-place through an update method)"""
        st = node.stmt
        out = set()
        if st is None or node.kind not in ("stmt", "for", "with_enter"):
            return out
        for n in walk_shallow(st):
            if isinstance(n, ast.Assign):
                for t in n.targets:
                    for x in ast.walk(t):
                        if isinstance(x, ast.Name) and isinstance(x.ctx, ast.Store) and x.id in own_params:
                            out.add(x.id)
                        if isinstance(x, ast.Subscript) and isinstance(x.value, ast.Name) and x.value.id in own_params:
                            out.add(x.value.id)
            if isinstance(n, ast.AugAssign) and isinstance(n.target, ast.Name) and n.target.id in own_params:
                out.add(n.target.id)
            if isinstance(n, ast.Call) and isinstance(n.func, ast.Attribute) and isinstance(n.func.value, ast.Name) and n.func.value.id == "self" \
                    and n.func.attr in UPDATE_METHODS:
                # an update method receiving a parameter that is not the vararg tuple may modify it in place
                for a_ in n.args:
                    if isinstance(a_, ast.Name) and a_.id in own_params and a_.id != (f.node.args.vararg.arg if f.node.args.vararg else None):
                        out.add(a_.id)
        return out

    def check_call(c, at_node):
        used = set()
        for a_ in c.args:
            inner = a_.value if isinstance(a_, ast.Starred) else a_
            if isinstance(inner, ast.Name):
                used.add(inner.id)
            else:
                used |= _names(inner)
        foreign = {u for u in used if u not in own_params and u != kw}
        if foreign:
            return (at_node.stmt, f"the cost is `{norm(c)[:70]}`, evaluated at `{sorted(foreign)[0]}` rather than at the method's own parameters")
        # no write to the used parameters may reach this evaluation
        for w in nodes:
            ws = writes(w) & used
            if ws and w.id != at_node.id and at_node.id in cfg.reachable(w.id):
                return (at_node.stmt, f"the cost `{norm(c)[:70]}` is evaluated after `{norm(w.stmt)[:70]}`, which rebinds or updates `{sorted(ws)[0]}` in place")
            if ws and w.id == at_node.id:
                pass
        return True

    if objective_call(cost):
        return check_call(cost, ret)
    if isinstance(cost, ast.Name):
        defs = [n for n in nodes if n.kind == "stmt" and isinstance(n.stmt, ast.Assign) and ret.id in cfg.reachable(n.id) and any(
            cost.id in {x.id for x in ast.walk(t) if isinstance(x, ast.Name)} for t in n.stmt.targets)]
        if not defs:
            return None
        unknown = False
        for d in defs:
            v = d.stmt.value
            if objective_call(v):
                r = check_call(v, d)
                if r is not True:
                    return r
            elif isinstance(v, ast.Call) and isinstance(v.func, ast.Attribute) and v.func.attr == "compute_grad":
                continue  # forward slot (R-C61-forward decides it)
            elif isinstance(v, ast.Call) and isinstance(v.func, ast.Attribute) and norm(v.func.value) == "self" and obj in _names(v):
                unknown = True  # produced by another method of the optimizer from the objective
            else:
                unknown = True
        return None if unknown else True
    return None


def _step_agreement(rep, sac: FuncInfo, st: FuncInfo):
    rel = sac.module.relpath

    def seq(fn):
        out = []
        for n in walk_shallow(fn.node):
            if isinstance(n, ast.Call) and isinstance(n.func, ast.Attribute) and norm(n.func.value) == "self":
                out.append((n.lineno, n.col_offset, n.func.attr))
            if isinstance(n, ast.AugAssign) and norm(n.target).startswith("self."):
                out.append((n.lineno, n.col_offset, norm(n)))
        return [x[2] for x in sorted(out)]

    a, b = seq(sac), seq(st)
    where = f"{rel}:{st.qualname} vs step_and_cost"
    if "step_and_cost" in b or "step" in a:
        rep.proved("R-C61-step", where, "one delegates to the other")
        return
    if a == b:
        rep.proved("R-C61-step", where, f"same update sequence {a}")
        return
    missing = [x for x in a if x not in b]
    extra = [x for x in b if x not in a]
    upd = [x for x in missing + extra if x in UPDATE_METHODS or "+=" in x]
    if upd:
        which = st.qualname if missing else sac.qualname
        rep.refuted("R-C61-step", rel, st.qualname, st.node,
                    f"`step` and `step_and_cost` perform different updates: {('step lacks ' + str(missing)) if missing else ''} "
                    f"{('step has extra ' + str(extra)) if extra else ''} — the two entry points of one optimizer apply different update rules")
    else:
        rep.unknown("R-C61-step", where, f"sequences differ in non-update calls: {missing} / {extra}")
