"""C11 — declared decomposition resources match the emitted gates (E3 rulescan).

The rule body and its resource function are two pieces of source that sit next to each other;
both are summarised by the same symbolic executor (``pennyverif.rulescan``) into
``path condition -> {type key: count}`` and compared.

* R-C11-set    every type key emitted on some path is declared on some path (all rules).
* R-C11-count  exact rules: on every pair of paths that carry the *same* normalised conditions the
               emitted multiset equals the declared one (counts are polynomials in symbolic atoms;
               loops multiply by their trip count; data-dependent emissions are ranges).
* R-C11-work   allocate(n, state, restored) needs ``work_wires=`` with the matching kind and a
               literal count >= the number of simultaneously allocated wires.

Only a refutation alarms; anything the executor cannot read is ``unknown``.
"""

from __future__ import annotations

import ast
import re
from dataclasses import dataclass, field

from ..core import Report, norm
from ..rulescan import MANY, ZERO, DictV, Poly, c_add, counts_equal, get_scanner

KINDS = ("zeroed", "borrowed", "burnable", "garbage")
# floors: what the executor reaches on the tree this checker was written against, minus a margin
FLOOR_RULES = 270
FLOOR_RESOLVED = 235
FLOOR_EXACT = 172
FLOOR_ALLOC = 10


@dataclass
class Verdict:
    set_v: str = "unknown"  # proved | refuted | unknown
    set_detail: str = ""
    count_v: str = "n/a"  # proved | coarse | refuted | unknown | n/a (inexact)
    count_detail: str = ""
    aligned: int = 0
    work_v: str = "n/a"
    work_detail: str = ""
    findings: list = field(default_factory=list)  # (rule id, node-or-text, message)

    @property
    def summary(self):
        if self.findings:
            return "REFUTED"
        if self.count_v == "proved":
            return "exact"
        if self.count_v == "coarse":
            return "exact(coarse)"
        if self.set_v == "proved":
            return "set"
        return "unknown"


def _fmt(c):
    return str(c)


def _strip_fuzzy(k):
    while k.startswith("Adjoint(") and k.endswith(")"):
        k = k[len("Adjoint("):-1]
    return k


def shape(sc, key):
    """wrapper structure of a key with the innermost operator replaced by ``$`` (generic symbolic
    rules name their base through a parameter: compared structurally, wrapper kind only)"""
    k = sc.coarse(key)
    if k.startswith(("ChangeOpBasis", "Prod")):
        return k
    return re.sub(r"[A-Za-z_$][\w$]*(?=\)*$)", "$", k)


def _bare_classes(ri):
    """classes that occur without a literal refinement on either side (``PauliRot`` next to
    ``PauliRot[ZZ]``): their refined keys are aggregated per class"""
    keys = set(ri.emitted_keys()) | set(ri.declared_keys())
    names = set()
    for k in keys:
        for m in re.finditer(r"(\w+)(\[)?", k):
            if not m.group(2):
                names.add(m.group(1))
    return names


class _Coarse:
    def __init__(self, sc, ri):
        self.sc, self.strip = sc, _bare_classes(ri)
        self.cache = {}

    def coarse(self, k):
        r = self.cache.get(k)
        if r is None:
            r = self.cache[k] = self.sc.coarse(k, self.strip)
        return r


def _declared_keysets(sc, ri):
    exact, coarse = set(), set()
    for p in ri.declared_paths:
        if p.declared is None:
            continue
        for k in p.declared.items:
            exact.add(k)
            coarse.add(sc.coarse(k))
    return exact, coarse


def _check_set(sc, ri, v: Verdict):
    dk, dc = _declared_keysets(sc, ri)
    if not ri.declared_paths or all(p.declared is None for p in ri.declared_paths):
        v.set_v, v.set_detail = "unknown", "; ".join(ri.declared_why)[:120] or "resource side not read"
        return
    opaque = not ri.declared_resolved
    missing, unsure = [], []
    seen = set()
    for e in ri.emissions:
        if e.key in seen:
            continue
        seen.add(e.key)
        if e.key in dk or sc.coarse(e.key) in dc:
            continue
        if e.key.startswith("?"):
            continue
        if "$" in e.key and shape(sc, e.key) in {shape(sc, k) for k in dk}:
            continue
        if shape(sc, e.key) in {shape(sc, k) for k in dk if "$" in k}:
            continue
        if e.fuzzy:
            k2 = _strip_fuzzy(e.key)
            if k2 in dk or sc.coarse(k2) in dc:
                continue
            unsure.append(e)
            continue
        if opaque:
            unsure.append(e)
            continue
        missing.append(e)
    for e in missing:
        v.findings.append(("R-C11-set", e.node, f"{ri.qualname} emits operator type {e.key} ({norm(e.node)[:70]}) but its resource "
                           f"declaration {sorted(dk)} does not list it"))
    if missing:
        v.set_v, v.set_detail = "refuted", "undeclared: " + ", ".join(e.key for e in missing)
    elif not ri.resolved and not seen:
        v.set_v, v.set_detail = "unknown", "no emission of the body could be resolved"
    elif unsure or not ri.resolved:
        v.set_v = "unknown" if unsure else "proved"
        v.set_detail = ("not decided for " + ", ".join(e.key for e in unsure)) if unsure else "every resolved emission is declared (body partly unresolved)"
    else:
        v.set_v, v.set_detail = "proved", f"{len(seen)} emitted keys all declared"


def _coarsen(sc, ms, fn=None):
    out = {}
    for k, (lo, hi) in ms.items():
        ck = fn(sc, k) if fn else sc.coarse(k)
        plo, phi = out.get(ck, (ZERO, ZERO))
        out[ck] = (c_add(plo, lo), c_add(phi, hi))
    return out


def _coarsen_decl(sc, d, fn=None):
    out = {}
    for k, c in d.items():
        ck = fn(sc, k) if fn else sc.coarse(k)
        out[ck] = c_add(out.get(ck, ZERO), c)
    return out


def _compare(ms, decl):
    """-> (status, [(key, emitted text, declared text)]) status: equal | mismatch | undetermined"""
    bad, und = [], []
    for k in sorted(set(ms) | set(decl)):
        lo, hi = ms.get(k, (ZERO, ZERO))
        d = decl.get(k, ZERO)
        et = _fmt(lo) if str(lo) == str(hi) else f"{lo}..{hi}"
        if lo is MANY or hi is MANY or d is MANY:
            if not (lo is MANY or hi is MANY) and d is MANY:
                und.append((k, et, "many"))
            elif isinstance(d, Poly) and d == ZERO:
                bad.append((k, et, "0"))
            else:
                und.append((k, et, _fmt(d)))
            continue
        if str(lo) == str(hi):
            r = counts_equal(lo, d)
        else:
            li, hi_, di = lo.as_int(), hi.as_int(), d.as_int()
            if li is not None and hi_ is not None and di is not None:
                r = li <= di <= hi_
            elif counts_equal(lo, d) or counts_equal(hi, d):
                r = True
            else:
                r = None
        if r is True:
            continue
        (bad if r is False else und).append((k, et, _fmt(d)))
    if bad:
        return "mismatch", bad
    if und:
        return "undetermined", und
    return "equal", []


def _check_count(sc, ri, v: Verdict):
    if ri.exact is not True:
        v.count_v = "n/a"
        v.count_detail = "exact=False" if ri.exact is False else "exact= not literal"
        return
    if not ri.resolved:
        v.count_v, v.count_detail = "unknown", "body not fully resolved: " + "; ".join(ri.unresolved)[:100]
        return
    if not ri.declared_resolved:
        v.count_v, v.count_detail = "unknown", "resource side: " + "; ".join(ri.declared_why)[:100]
        return
    dpaths = {tuple(sorted(p.conds.items())): p for p in ri.declared_paths}
    n_eq = n_coarse = n_und = n_unaligned = 0
    notes = []
    for p in ri.paths:
        d = dpaths.get(tuple(sorted(p.conds.items())))
        if d is None:
            n_unaligned += 1
            continue
        ms = p.multiset()
        decl = dict(d.declared.items)
        fuzzy_keys = {e.key for e in p.emissions if e.fuzzy}
        st, diff = _compare(ms, decl)
        if st == "equal":
            n_eq += 1
            continue
        if st == "mismatch" or st == "undetermined":
            st2, diff2 = _compare(_coarsen(sc, ms), _coarsen_decl(sc, decl))
            if st2 == "equal":
                n_coarse += 1
                continue
            resid = {k for k, _, _ in diff2}
            if any("$" in k for k in resid):
                # a generic operand ($: the rule's base / an operator class passed as parameter) may stand for the
                # concrete class named on the other side: compare the disagreeing keys by wrapper structure only
                cms = {k: c for k, c in _coarsen(sc, ms).items() if k in resid}
                cdl = {k: c for k, c in _coarsen_decl(sc, decl).items() if k in resid}
                st3, diff3 = _compare(_coarsen(sc, cms, shape), _coarsen_decl(sc, cdl, shape))
                if st3 == "equal":
                    n_coarse += 1
                    continue
                st2, diff2 = st3, diff3
            if st2 == "mismatch" and not any(sc.coarse(fk) == k for fk in fuzzy_keys for k, _, _ in diff2):
                where = " when " + " and ".join(f"{'' if b else 'not '}({c})" for c, b in sorted(p.conds.items())) if p.conds else ""
                for k, et, dt in diff2:
                    origs = sorted({kk for kk in list(ms) + list(decl) if k in (kk, sc.coarse(kk), shape(sc, kk))})
                    label = k if not origs or origs == [k] else f"{'/'.join(origs)} (= {k})"
                    node = None
                    for kk, nd in d.declared.nodes.items():
                        if k in (sc.coarse(kk), shape(sc, kk)):
                            node = nd
                    em = next((e for e in p.emissions if k in (sc.coarse(e.key), shape(sc, e.key))), None)
                    stmt = f"{label}: declared {dt}, emitted {et}{where}"
                    v.findings.append(("R-C11-count", stmt, f"{ri.qualname}: the rule body emits {et} x {label}{where} but the resource "
                                       f"declaration says {dt}", (node or (em.node if em else ri.deco))))
                continue
            n_und += 1
            notes.append("; ".join(f"{k}: emitted {et} vs declared {dt}" for k, et, dt in (diff2 if st2 != "equal" else diff))[:120])
    v.aligned = n_eq + n_coarse
    if n_unaligned and not any(f[0] == "R-C11-count" for f in v.findings):
        _strictness(sc, ri, v, dpaths)
    if any(f[0] == "R-C11-count" for f in v.findings):
        v.count_v = "refuted"
        v.count_detail = "; ".join(f[1] for f in v.findings if f[0] == "R-C11-count")[:160]
    elif n_unaligned == 0 and n_und == 0 and (n_eq + n_coarse) > 0:
        v.count_v = "coarse" if n_coarse else "proved"
        v.count_detail = f"{n_eq + n_coarse} aligned path(s) equal" + (" (after folding custom controlled operators into C(base) / matching generic operands structurally)" if n_coarse else "")
    else:
        v.count_v = "unknown"
        v.count_detail = f"{n_eq + n_coarse} aligned equal, {n_unaligned} path(s) without a declared path on the same conditions, {n_und} undetermined"
        if notes:
            v.count_detail += ": " + notes[0]


import re as _re

_GE0 = _re.compile(r"^(.*?)([+-]\d+)?>=0$")


def _cmp_parts(text):
    """conditions are normalised by E3 to `<integer expression> >= 0`: -> (expression without its constant term, constant)"""
    m = _GE0.match(text.replace(" ", ""))
    if not m or not m.group(1):
        return None
    return m.group(1), int(m.group(2) or 0)


def _strictness(sc, ri, v, dpaths):
    """Sibling contradiction: the rule body and its resource function branch on the same comparison, one with a strict and the
    other with a non-strict operator (`value > m` / `value >= m`; E3 normalises both to `<expr> >= 0`, so the two conditions
    differ in the constant term only).  If using one threshold on both sides makes every path align with equal
    counts, and the two branches declare different resources, then at the boundary input (lhs == rhs) the resource function
    answers for the other branch than the rule body takes."""
    ekeys = {k for p in ri.paths for k in p.conds}
    dkeys = {k for p in ri.declared_paths for k in p.conds}
    pairs = []
    for ek in sorted(ekeys - dkeys):
        pe = _cmp_parts(ek)
        if not pe:
            continue
        for dk in sorted(dkeys - ekeys):
            pd = _cmp_parts(dk)
            if pd and pd[0] == pe[0] and pd[1] != pe[1]:
                pairs.append((ek, dk))
    if len(pairs) != 1:
        return
    ek, dk = pairs[0]
    # applicability conditions mentioning the compared quantity may exclude the boundary: leave undecided
    names = set(_re.findall(r"[A-Za-z_][A-Za-z_0-9]*", ek)) - {"pow", "len", "min", "max"}
    for d in ri.func.node.decorator_list:
        if isinstance(d, ast.Call) and "register_condition" in norm(d.func):
            mentioned = {x.id for x in ast.walk(d) if isinstance(x, ast.Name)} | \
                {a.arg for x in ast.walk(d) if isinstance(x, ast.Lambda) for a in x.args.args + x.args.kwonlyargs}
            if names & mentioned:
                return
    ce, cd = _cmp_parts(ek)[1], _cmp_parts(dk)[1]
    ren = {}
    for key, dp in dpaths.items():
        ren[tuple(sorted((ek if c == dk else c, b) for c, b in key))] = dp

    def cmp2(ms, decl):
        st, _ = _compare(ms, decl)
        if st != "equal":
            st2, _ = _compare(_coarsen(sc, ms), _coarsen_decl(sc, decl))
            return st2
        return st
    # with one threshold on both sides nothing may disagree (otherwise the difference is not just the boundary)
    for p in ri.paths:
        d = ren.get(tuple(sorted(p.conds.items())))
        if d is None or cmp2(p.multiset(), dict(d.declared.items)) == "mismatch":
            return
    # inputs between the two thresholds: the rule is on one side of its guard, the resource function on the other side of its own
    e_side = ce > cd
    hit = False
    for p in ri.paths:
        if p.conds.get(ek) is not e_side:
            continue
        want = tuple(sorted((dk, not e_side) if c == ek else (c, b) for c, b in p.conds.items()))
        d = dpaths.get(want)
        if d is None:
            return
        if cmp2(p.multiset(), dict(d.declared.items)) != "mismatch":
            return
        hit = True
    if not hit:
        return
    node = None
    for dp in ri.declared_paths:
        node = node or next(iter(dp.declared.nodes.values()), None)
    lo, hi = sorted((-ce, -cd))
    stmt = f"branch boundary: rule `{ek}` vs resources `{dk}`"
    v.findings.append(("R-C11-count", stmt, f"{ri.qualname}: the rule body branches on `{ek}` while its resource function branches on `{dk}` (the thresholds differ by "
                       f"{abs(ce - cd)}); with either threshold on both sides every path declares exactly what is emitted, and the two branches declare different "
                       f"gate counts, so for inputs with {lo} <= {_cmp_parts(ek)[0]} < {hi} the resource function describes the branch the rule does not take",
                       node or ri.deco))


def _work_decl(sc, ri):
    """-> ("none"|"literal"|"dynamic", {kind: int|None})"""
    w = ri.work_wires
    if w is None or (isinstance(w, ast.Constant) and w.value is None):
        return "none", {}
    if isinstance(w, ast.Dict):
        out = {}
        for k, val in zip(w.keys, w.values):
            if not (isinstance(k, ast.Constant) and isinstance(k.value, str)):
                return "dynamic", {}
            out[k.value] = val.value if isinstance(val, ast.Constant) and isinstance(val.value, int) else None
        return "literal", out
    return "dynamic", {}


def _check_work(sc, ri, v: Verdict):
    form, decl = _work_decl(sc, ri)
    if form == "dynamic":  # a work-wire spec function (or a dict with computed keys): decided symbolically
        from .c11_work import check_dynamic

        return check_dynamic(sc, ri, v)
    if not ri.allocs:
        if form == "literal" and any(decl.values()):
            v.work_v, v.work_detail = "unknown", "work wires declared, no allocate() found in the body (may allocate through an unresolved helper)"
        return
    if form == "dynamic":
        v.work_v, v.work_detail = "unknown", f"work_wires={norm(ri.work_wires)[:50]} is not a literal dict"
        return
    need = {}
    unknown_kind = False
    for p in ri.paths:
        for kind, peak in p.alloc_peak.items():
            if kind == "?":
                unknown_kind = True
                continue
            i = peak.as_int() if isinstance(peak, Poly) else None
            prev = need.get(kind, 0)
            need[kind] = None if (i is None or prev is None) else max(prev, i)
    sites = {a.kind: a for a in ri.allocs if a.kind}
    for a in ri.allocs:
        if not a.managed:
            unknown_kind = True
    bad = False
    for kind, n in sorted(need.items()):
        site = sites.get(kind)
        node = site.node if site else ri.deco
        call = norm(node)[:70]
        if kind not in decl or decl.get(kind) == 0:
            bad = True
            have = ("work_wires=" + norm(ri.work_wires)[:50]) if ri.work_wires is not None else "no work_wires="
            v.findings.append(("R-C11-work", f"{call} needs {kind}", f"{ri.qualname} allocates {kind} work wires ({call}: state={site.state if site else '?'}, "
                               f"restored={site.restored if site else '?'}) but is registered with {have}: the wire kind is not declared", node))
        elif n is not None and decl[kind] is not None and decl[kind] < n:
            bad = True
            v.findings.append(("R-C11-work", f"{call} needs {n} {kind}", f"{ri.qualname} holds {n} {kind} work wire(s) allocated at once ({call}) but "
                               f"declares only {decl[kind]}", node))
    if bad:
        v.work_v, v.work_detail = "refuted", "; ".join(f[1] for f in v.findings if f[0] == "R-C11-work")
    elif unknown_kind or any(n is None for n in need.values()) or not ri.resolved and not need:
        v.work_v, v.work_detail = "unknown", "allocation state/restored/count not literal"
    else:
        v.work_v, v.work_detail = "proved", ", ".join(f"{k}: needs {n}, declares {decl.get(k)}" for k, n in sorted(need.items()))


def judge(sc, ri) -> Verdict:
    v = Verdict()
    cs = _Coarse(sc, ri)
    _check_set(cs, ri, v)
    _check_count(cs, ri, v)
    _check_work(sc, ri, v)
    return v


def check(ctx):
    ix = ctx.index
    rep = Report("C11", "for exact rules the number of gates of each resource type emitted by the rule body equals the declared count; "
                 "for inexact rules every emitted type is among the declared types; declared work wires bound the wires the rule "
                 "allocates — decided on the rules whose body and resource function the symbolic executor resolves.")
    rep.rule("R-C11-set", "every operator type key constructed (and left in the queue) on some path of a @register_resources rule body "
             "is a key of the dict its resource function / dict / lambda returns on some path (keys normalised through the class index; "
             "custom controlled operators folded into C(base); PauliRot / PauliMeasure refined by a literal pauli word)")
    rep.rule("R-C11-count", "rules with exact=True: on every pair (body path, resource path) with identical normalised conditions the emitted "
             "multiset equals the declared one; loops multiply by a trip count that must normalise to the declared expression; "
             "measurement-conditioned operations count as their target; data-dependent emissions are ranges")
    rep.rule("R-C11-work", "allocate(n, state, restored) in a rule body requires work_wires= with the kind (zero,True)->zeroed, (any,True)->borrowed, "
             "(zero,False)->burnable, (any,False)->garbage and a literal count >= the wires held at once")
    from .c11_work import describe

    describe(rep)
    rep.assume("a callee that does not resolve to an operator class, a known wrapper or an inlinable helper of the package is effect-free; "
               "rules that call through such a value are marked unresolved and never refuted on counts")
    rep.assume("len(X), num_X and n_X denote the same quantity on the body side and the resource side (repository naming convention); "
               "slices are in range; loops run a non-negative number of times; zip() arguments have equal length")
    rep.assume("qp.cond(m, Op)(w) with a mid-circuit-measurement predicate is declared as plain Op (repository convention)")

    sc = get_scanner(ix)
    rules = sc.rules()
    rep.floor("functions decorated @register_resources", len(rules), FLOOR_RULES)
    n_res = n_exact = n_set = n_unk = n_alloc = 0
    table = []
    for ri in rules:
        where = f"{ri.module.relpath}:{ri.qualname}"
        rep.analysed(ri.module.relpath, ri.qualname)
        v = judge(sc, ri)
        n_res += bool(ri.resolved)
        n_alloc += bool(ri.allocs)
        for f in v.findings:
            rid, stmt, msg = f[0], f[1], f[2]
            node = f[3] if len(f) > 3 else (stmt if isinstance(stmt, ast.AST) else None)
            line = getattr(node, "lineno", 0) if node is not None else 0
            rep.refuted(rid, ri.module.relpath, ri.qualname, stmt, msg, line=line)
        refuted_rules = {f[0] for f in v.findings}
        # set
        if "R-C11-set" not in refuted_rules:
            if v.set_v == "proved":
                rep.proved("R-C11-set", where, v.set_detail, nontrivial=bool(ri.emissions))
            else:
                rep.unknown("R-C11-set", where, v.set_detail)
        # count
        if v.count_v == "n/a":
            rep.exempt("R-C11-count", where, v.count_detail)
        elif v.count_v in ("proved", "coarse"):
            n_exact += 1
            rep.proved("R-C11-count", where, v.count_detail)
        elif v.count_v == "unknown":
            rep.unknown("R-C11-count", where, v.count_detail)
        if v.summary == "set":
            n_set += 1
        elif v.summary == "unknown":
            n_unk += 1
        # work
        if v.work_v == "proved":
            rep.proved("R-C11-work", where, v.work_detail)
        elif v.work_v == "unknown":
            rep.unknown("R-C11-work", where, v.work_detail)
        table.append((where, v.summary))
    rep.floor("rules with fully resolved emissions", n_res, FLOOR_RESOLVED)
    rep.floor("exact rules proved by count", n_exact, FLOOR_EXACT)
    rep.floor("rules that allocate work wires", n_alloc, FLOOR_ALLOC)
    rep.extra["c11_counts"] = {"rules": len(rules), "resolved": n_res, "exact_by_count": n_exact, "by_set_inclusion": n_set,
                               "unknown": n_unk, "allocating": n_alloc}  # fmt: skip
    rep.note(f"{len(rules)} rules; {n_res} with fully resolved emissions; {n_exact} proved by exact count; {n_set} by set inclusion only; "
             f"{n_unk} unknown; {n_alloc} allocate work wires")
    from .c11_extra import extra

    extra(ctx, rep)
    from .c11_exact import exactprop

    exactprop(ctx, rep)
    return rep
