"""C73 — the execution tracker counts what was executed (structure of simulator_tracking)."""

from __future__ import annotations

import ast
import re

from ..astutil import call_name, param_names
from ..cfg import CFG, walk_shallow
from ..core import AnalysisError, Report, norm
from ..index import FuncInfo

MOD = "pennylane/devices/modifiers/simulator_tracking.py"
DEV = "pennylane/devices/device_api.py"
TRK = "pennylane/devices/tracker.py"
# keys the property statement names, per entry point ("executions, batches, shots, derivative batches and simulated resources")
REQUIRED = {
    "execute": {"batches", "executions", "shots", "resources", "simulations"},
    "compute_derivatives": {"derivative_batches", "derivatives"},
}


def _is_tracker_call(n, name):
    """<x>.tracker.<name>(...) or tracker.<name>(...) through a local / parameter called `tracker` (tracker = self.tracker)"""
    if not (isinstance(n, ast.Call) and isinstance(n.func, ast.Attribute) and n.func.attr == name):
        return False
    recv = n.func.value
    return (isinstance(recv, ast.Attribute) and recv.attr == "tracker") or (isinstance(recv, ast.Name) and recv.id in ("tracker", "trk", "device_tracker"))


def check(ctx):
    ix = ctx.index
    rep = Report("C73", "every device entry point updates and records the tracker once per call, with per-circuit "
                 "counts normalised for the single-circuit call form and with the documented keys.")
    rep.rule("R-C73-cover", "the entry points of Device that take `circuits` = {execute} ∪ keys(modifier_map); each key maps to the "
             "wrapper whose inner function has that name and the same positional parameters as the Device method")
    rep.rule("R-C73-pair", "in every wrapper the wrapped function is called exactly once on every path with all parameters forwarded "
             "in order and its result returned; every tracker.update is guarded by tracker.active and followed by tracker.record() "
             "before return; the raw `circuits` parameter is used for counting/iteration only on the not-a-single-QuantumScript branch")
    rep.rule("R-C73-keys", "keyword names passed to tracker.update across the wrappers = the keys documented in simulator_tracking's docstring")
    rep.rule("R-C73-applied", "every concrete new-API Device subclass in pennylane/devices is decorated @simulator_tracking outside "
             "@single_tape_support, or delegates/updates the tracker itself")
    rep.rule("R-C73-tracker", "Tracker.update appends every value to history in call order and adds numeric values to totals; reset clears all three stores")
    rep.assume("the wrapped device method itself is not analysed; 'performed' means one entry-point call with the given batch")

    m = ix.module(MOD)
    rep.analysed(m.relpath)
    dev = ix.cls(DEV, "Device")
    rep.analysed(DEV)

    # ---- entry points derived from the class --------------------------------------------
    entry = {}
    for name, fl in dev.methods.items():
        for f in fl:
            if any(d for d in f.node.decorator_list if norm(d).endswith("overload")):
                continue
            ps = param_names(f.node, skip_self=True)
            if ps and ps[0] == "circuits":
                entry[name] = f
    rep.floor("Device entry points taking circuits", len(entry), 7)

    st = ix.func(MOD, "simulator_tracking")
    rep.analysed(m.relpath, "simulator_tracking")
    covered = {}
    # cls.<name> = _track_x(cls.<name>)
    for n in walk_shallow(st.node):
        if isinstance(n, ast.Assign) and len(n.targets) == 1 and isinstance(n.targets[0], ast.Attribute) \
                and isinstance(n.targets[0].value, ast.Name) and n.targets[0].value.id == "cls" and isinstance(n.value, ast.Call):
            cn = call_name(n.value)
            if cn and cn.startswith("_track"):
                covered[n.targets[0].attr] = (cn, n)
        # the name -> wrapper table (whatever the local is called): a dict display {"<method name>": _track_<x>, ...}
        if isinstance(n, ast.Assign) and isinstance(n.value, ast.Dict) and n.value.keys and all(
                isinstance(k, ast.Constant) and isinstance(k.value, str) and isinstance(v, ast.Name) and v.id.startswith("_track")
                for k, v in zip(n.value.keys, n.value.values)):
            for k, v in zip(n.value.keys, n.value.values):
                covered[k.value] = (v.id, n)
    # the same table kept at module level as a dict or as a tuple/list of (name, wrapper) pairs that simulator_tracking iterates
    for st_ in m.tree.body:
        v_ = st_.value if isinstance(st_, (ast.Assign, ast.AnnAssign)) else None
        tname = None
        if isinstance(st_, ast.Assign) and len(st_.targets) == 1 and isinstance(st_.targets[0], ast.Name):
            tname = st_.targets[0].id
        elif isinstance(st_, ast.AnnAssign) and isinstance(st_.target, ast.Name):
            tname = st_.target.id
        if v_ is None or tname is None or not any(isinstance(x_, ast.Name) and x_.id == tname for x_ in ast.walk(st.node)):
            continue
        pairs = []
        if isinstance(v_, ast.Dict):
            pairs = list(zip(v_.keys, v_.values))
        elif isinstance(v_, (ast.Tuple, ast.List)) and all(isinstance(e_, (ast.Tuple, ast.List)) and len(e_.elts) == 2 for e_ in v_.elts):
            pairs = [(e_.elts[0], e_.elts[1]) for e_ in v_.elts]
        if pairs and all(isinstance(k_, ast.Constant) and isinstance(k_.value, str) and isinstance(w_, ast.Name) and w_.id.startswith("_track") for k_, w_ in pairs):
            for k_, w_ in pairs:
                covered[k_.value] = (w_.id, st_)
    if not covered:
        raise AnalysisError("simulator_tracking: no wrapper assignments / modifier_map found")
    for name, f in sorted(entry.items()):
        if name in covered:
            rep.proved("R-C73-cover", f"{DEV}:Device.{name}", f"wrapped by {covered[name][0]}")
        else:
            rep.refuted("R-C73-cover", DEV, f"Device.{name}", f"def {name}(self, circuits, ...)",
                        f"device entry point {name} takes circuits but simulator_tracking installs no tracking wrapper for it: "
                        "calls through it are invisible to the tracker", line=f.node.lineno)
    for name, (wn, node) in sorted(covered.items()):
        if name not in entry:
            rep.refuted("R-C73-cover", m.relpath, "simulator_tracking", f"{name!r}: {wn}",
                        f"wrapper registered for {name!r}, which is not a Device entry point taking circuits", line=node.lineno)

    # ---- wrappers --------------------------------------------------------------------------
    update_keys = {}
    splat_unknown = set()
    n_wr = 0
    for name, (wn, node) in sorted(covered.items()):
        wf = m.functions.get(wn)
        if wf is None:
            rep.refuted("R-C73-cover", m.relpath, "simulator_tracking", f"{name!r}: {wn}", f"wrapper {wn} is not defined in the module", line=node.lineno)
            continue
        inner = [s for s in wf.node.body if isinstance(s, ast.FunctionDef)]
        if len(inner) != 1:
            rep.unknown("R-C73-pair", f"{m.relpath}:{wn}", "wrapper shape not recognised")
            continue
        inner = inner[0]
        n_wr += 1
        qn = f"{wn}.<locals>.{inner.name}"
        rep.analysed(m.relpath, qn)
        wrapped = wf.node.args.args[0].arg
        # sibling agreement name/signature
        if inner.name != name:
            rep.refuted("R-C73-cover", m.relpath, "simulator_tracking", f"{name!r}: {wn}",
                        f"entry point {name!r} is wrapped by {wn}, whose wrapper implements {inner.name!r}: the wrong counters are updated", line=node.lineno)
        elif name in entry:
            want = param_names(entry[name].node)
            got = param_names(inner)
            if want != got:
                rep.refuted("R-C73-cover", m.relpath, qn, inner, f"wrapper parameters {got} differ from Device.{name}{want}")
            else:
                rep.proved("R-C73-cover", f"{m.relpath}:{qn}", "name and parameters match the Device method")

        cfg = CFG(inner, may_raise=lambda n: False)
        params = param_names(inner)
        circ = params[1] if len(params) > 1 else "circuits"

        def is_wrapped_call(nd, wrapped=wrapped):
            return nd.stmt is not None and nd.kind in ("stmt", "return") and any(
                isinstance(c, ast.Call) and isinstance(c.func, ast.Name) and c.func.id == wrapped for c in walk_shallow(nd.stmt))

        calls = [nd for nd in cfg.stmts() if is_wrapped_call(nd)]
        ok = True
        if not calls or not cfg.must_pass(cfg.entry, cfg.exit, is_wrapped_call):
            ok = False
            rep.refuted("R-C73-pair", m.relpath, qn, inner, "a path through the wrapper returns without calling the wrapped device method")
        for cnode in calls:
            for s, _ in cfg.succ[cnode.id]:
                if any(is_wrapped_call(cfg.nodes[r]) for r in cfg.reachable(s)):
                    ok = False
                    rep.refuted("R-C73-pair", m.relpath, qn, cnode.stmt, "the wrapped device method can be called twice on one path (double execution)")
                    break
            call = next(c for c in walk_shallow(cnode.stmt) if isinstance(c, ast.Call) and isinstance(c.func, ast.Name) and c.func.id == wrapped)
            args = [a.id if isinstance(a, ast.Name) else None for a in call.args]
            if args != params or call.keywords:
                ok = False
                rep.refuted("R-C73-pair", m.relpath, qn, cnode.stmt, f"wrapped call does not forward the parameters {params} unchanged and in order")
            # result returned
            if isinstance(cnode.stmt, ast.Return):
                pass
            elif isinstance(cnode.stmt, ast.Assign) and len(cnode.stmt.targets) == 1 and isinstance(cnode.stmt.targets[0], ast.Name):
                rv = cnode.stmt.targets[0].id
                rets = [nd for nd in cfg.stmts("return")]
                if not rets or not all(isinstance(r.stmt.value, ast.Name) and r.stmt.value.id == rv for r in rets):
                    ok = False
                    rep.refuted("R-C73-pair", m.relpath, qn, cnode.stmt, "the wrapped method's result is not what the wrapper returns")
            else:
                ok = False
                rep.refuted("R-C73-pair", m.relpath, qn, cnode.stmt, "the wrapped method's result is discarded")
        if ok:
            rep.proved("R-C73-pair", f"{m.relpath}:{qn} call", "wrapped method called exactly once, parameters forwarded, result returned")

        # update -> record pairing, active guard
        def is_update(nd):
            return nd.stmt is not None and nd.kind == "stmt" and any(_is_tracker_call(c, "update") for c in walk_shallow(nd.stmt))

        def is_record(nd):
            return nd.stmt is not None and nd.kind == "stmt" and any(_is_tracker_call(c, "record") for c in walk_shallow(nd.stmt))

        def is_active_test(nd):
            return nd.kind == "test" and "tracker.active" in norm(nd.stmt.test) and not isinstance(nd.stmt.test, ast.UnaryOp)

        ups = [nd for nd in cfg.stmts() if is_update(nd)]
        # helpers of this module that are handed the tracker (or the device): literal keys they update count for this wrapper,
        # anything else they do is not followed (missing keys become unknown for this wrapper)
        delegates = [c_ for c_ in walk_shallow(inner) if isinstance(c_, ast.Call) and isinstance(c_.func, ast.Name) and c_.func.id in m.functions
                     and any("tracker" in norm(a_) or norm(a_) == "self" for a_ in list(c_.args) + [k_.value for k_ in c_.keywords])]
        if delegates:
            splat_unknown.add(qn.split(".")[-1])
            rep.unknown("R-C73-pair", f"{m.relpath}:{qn}", f"the tracker is handed to `{delegates[0].func.id}`; only the literal keys updated there are followed")
            for d_ in delegates:
                g_ = m.functions[d_.func.id]
                for c_ in ast.walk(g_.node):
                    if _is_tracker_call(c_, "update"):
                        for kw in c_.keywords:
                            if kw.arg:
                                update_keys.setdefault(kw.arg, []).append((qn, kw.value))
        elif not ups:
            rep.refuted("R-C73-pair", m.relpath, qn, inner, "wrapper never updates the tracker")
        for u in ups:
            for c in walk_shallow(u.stmt):
                if _is_tracker_call(c, "update"):
                    for kw in c.keywords:
                        if kw.arg:
                            update_keys.setdefault(kw.arg, []).append((qn, kw.value))
                        elif isinstance(kw.value, ast.Name):
                            # update(**name): keys of the dict display / dict(...) call bound to the name plus `name["k"] = v` stores
                            got_any = False
                            for st_ in walk_shallow(inner):
                                if isinstance(st_, ast.Assign) and len(st_.targets) == 1:
                                    t_ = st_.targets[0]
                                    if isinstance(t_, ast.Name) and t_.id == kw.value.id:
                                        v_ = st_.value
                                        if isinstance(v_, ast.Dict) and all(isinstance(k_, ast.Constant) and isinstance(k_.value, str) for k_ in v_.keys):
                                            for k_, val_ in zip(v_.keys, v_.values):
                                                update_keys.setdefault(k_.value, []).append((qn, val_))
                                            got_any = True
                                        elif isinstance(v_, ast.Call) and call_name(v_) == "dict" and not v_.args:
                                            for k2 in v_.keywords:
                                                if k2.arg:
                                                    update_keys.setdefault(k2.arg, []).append((qn, k2.value))
                                            got_any = True
                                    elif isinstance(t_, ast.Subscript) and isinstance(t_.value, ast.Name) and t_.value.id == kw.value.id \
                                            and isinstance(t_.slice, ast.Constant) and isinstance(t_.slice.value, str):
                                        update_keys.setdefault(t_.slice.value, []).append((qn, st_.value))
                                        got_any = True
                            if not got_any:
                                splat_unknown.add(qn.split(".")[-1])
                                rep.unknown("R-C73-keys", f"{m.relpath}:{qn}", f"update(**{kw.value.id}) whose keys are not literal")
                        else:
                            splat_unknown.add(qn.split(".")[-1])
                            rep.unknown("R-C73-keys", f"{m.relpath}:{qn}", "update(**kwargs) with non-literal keys")
            p = cfg.path_avoiding(u.id, cfg.exit, is_record)
            if p is not None:
                rep.refuted("R-C73-pair", m.relpath, qn, u.stmt,
                            "tracker.update(...) can reach the return without tracker.record(): the callback never sees this update")
            else:
                rep.proved("R-C73-pair", f"{m.relpath}:{qn} L{u.line} update->record", "record() on every path to the return")
            # guarded by active: every path entry->update passes the true edge of an active test
            # every path entry -> update crosses an edge that establishes tracker.active (true edge of `if …active`, false edge of
            # `if not …active: return`)
            seen_, stack_, reach_ = {cfg.entry}, [cfg.entry], False
            while stack_:
                cur_ = stack_.pop()
                if cur_ == u.id:
                    reach_ = True
                    break
                nd_ = cfg.nodes[cur_]
                glabel = None
                if nd_.kind == "test" and "tracker.active" in norm(nd_.stmt.test).replace("tracker_active", "tracker.active") or (
                        nd_.kind == "test" and norm(nd_.stmt.test).endswith(".active")):
                    t_ = nd_.stmt.test
                    glabel = "false" if isinstance(t_, ast.UnaryOp) and isinstance(t_.op, ast.Not) else ("true" if not isinstance(t_, ast.BoolOp) else None)
                for s_, lab_ in cfg.succ[cur_]:
                    if glabel is not None and lab_ == glabel:
                        continue
                    if s_ not in seen_:
                        seen_.add(s_)
                        stack_.append(s_)
            if reach_:
                rep.refuted("R-C73-pair", m.relpath, qn, u.stmt, "tracker.update(...) is reachable without testing tracker.active")
        # raw circuits uses
        _raw_uses(rep, m, qn, inner, circ, wrapped)

    rep.floor("tracking wrappers analysed", n_wr, 7)

    # ---- keys ------------------------------------------------------------------------------
    doc = ast.get_docstring(st.node) or ""
    documented = set(re.findall(r"^\s*\*\s+``(\w+)``\s*:", doc, re.M))
    # The docstring list is documentation: a disagreement is reported as unknown (an edit of the
    # docstring alone does not change behaviour).  What is refuted is a missing key that the
    # property statement itself names, per entry point.
    if len(documented) >= 10:
        for k in sorted(set(update_keys) ^ documented):
            rep.unknown("R-C73-keys", f"{m.relpath} key {k}", "updated-vs-documented key sets differ (documentation only)")
    by_wrapper = {}
    for k, sites in update_keys.items():
        for qn, _ in sites:
            by_wrapper.setdefault(qn.split(".")[-1], set()).add(k)
    for ep, need in sorted(REQUIRED.items()):
        have = by_wrapper.get(ep, set())
        for k in sorted(need):
            if k in have:
                rep.proved("R-C73-keys", f"{m.relpath}:{ep} key {k}", "updated by the wrapper of this entry point")
            elif ep in splat_unknown:
                rep.unknown("R-C73-keys", f"{m.relpath}:{ep} key {k}", "the wrapper updates the tracker through a ** mapping whose keys are not literal")
            else:
                rep.refuted("R-C73-keys", m.relpath, f"_track_{ep}.<locals>.{ep}", f"{k}=...",
                            f"the {ep} wrapper never updates tracker key {k!r}, which the property names among the totals the tracker reports")
    for ep, have in sorted(by_wrapper.items()):
        if not any(k.endswith("batches") for k in have):
            rep.refuted("R-C73-keys", m.relpath, f"_track_{ep}.<locals>.{ep}", "<per-call counter>",
                        f"the {ep} wrapper updates no per-call '*batches' counter")
    rep.floor("distinct tracker keys updated", len(update_keys), 15)

    # counts: '*_batches' / 'batches' keys are literal 1; per-circuit keys are len(normalised batch) or 1/len on branches
    for k, sites in sorted(update_keys.items()):
        for qn, val in sites:
            if k.endswith("batches"):
                if isinstance(val, ast.Constant) and val.value == 1:
                    rep.proved("R-C73-pair", f"{m.relpath}:{qn} {k}", "one batch per call")
                else:
                    rep.refuted("R-C73-pair", m.relpath, qn, f"{k}={norm(val)}", f"{k} must be incremented by exactly 1 per entry-point call")

    # ---- applied ---------------------------------------------------------------------------
    n_dev = 0
    for c in ix.classes:
        if not c.module.relpath.startswith("pennylane/devices/") or c is dev or dev not in c.mro():
            continue
        n_dev += 1
        decs = [norm(d) for d in c.node.decorator_list]
        names = [d.split(".")[-1].split("(")[0] for d in decs]
        where = f"{c.module.relpath}:{c.name}"
        if "simulator_tracking" in names:
            if "single_tape_support" in names and names.index("simulator_tracking") > names.index("single_tape_support"):
                rep.refuted("R-C73-applied", c.module.relpath, c.name, c.node,
                            "@simulator_tracking is applied inside @single_tape_support: the tracker would always see a 1-tuple batch "
                            "but the outer normalisation changes what the wrappers count")
            else:
                rep.proved("R-C73-applied", where, "decorated @simulator_tracking (outermost)")
        else:
            own_tracker = any(_is_tracker_call(n, "update") for n in ast.walk(c.node))
            delegates = c.own_method("tracker") is not None
            if own_tracker or delegates:
                rep.proved("R-C73-applied", where, "updates the tracker itself / delegates the tracker to the wrapped legacy device")
            else:
                ex = c.own_method("execute")
                if ex is None:
                    rep.exempt("R-C73-applied", where, "abstract: defines no execute")
                else:
                    rep.refuted("R-C73-applied", c.module.relpath, c.name, c.node,
                                "concrete device defines execute but is neither decorated @simulator_tracking nor updates the tracker: its executions are not counted")
    rep.floor("Device subclasses in pennylane/devices", n_dev, 6)

    # ---- Tracker itself ----------------------------------------------------------------------
    _tracker(ix, rep)
    _shots(ix, rep)
    from .c73_extra import check_extra, wrap_condition
    check_extra(ctx, rep)
    wrap_condition(ctx, rep)
    return rep


SAMP = "pennylane/devices/qubit/sampling.py"


def _shots(ix, rep):
    """R-C73-shots: the two accumulators returned by get_num_shots_and_executions move together."""
    rep.rule("R-C73-shots", "in get_num_shots_and_executions (the source of the tracker's executions/shots) every statement block that "
             "adds E to the executions counter adds total_shots*E to the shots counter (or both add total_shots: one execution per shot), "
             "and every block that scales the executions counter scales the shots counter by the same factor")
    f = ix.func(SAMP, "get_num_shots_and_executions")
    rep.analysed(SAMP, f.qualname)
    rets = [n for n in walk_shallow(f.node) if isinstance(n, ast.Return) and isinstance(n.value, ast.Tuple) and len(n.value.elts) == 2
            and all(isinstance(e, ast.Name) for e in n.value.elts)]
    if not rets:
        rep.unknown("R-C73-shots", f"{SAMP}:{f.qualname}", "return (executions, shots) not recognised")
        return
    ex, sh = rets[0].value.elts[0].id, rets[0].value.elts[1].id

    def augs(body, name):
        """AugAssign to `name` directly in `body` or under an `if <...shots...>:` inside it."""
        out = []
        for st in body:
            if isinstance(st, ast.AugAssign) and isinstance(st.target, ast.Name) and st.target.id == name:
                out.append(st)
            elif isinstance(st, ast.If) and "shots" in norm(st.test) and not st.orelse and name == sh:
                out += augs(st.body, name)
        return out

    def is_total(e):
        return norm(e).endswith("shots.total_shots")

    blocks = []
    for n in ast.walk(f.node):
        for fld in ("body", "orelse"):
            b = getattr(n, fld, None)
            if isinstance(b, list) and b and isinstance(b[0], ast.stmt):
                blocks.append(b)
    n_blocks = 0
    for b in blocks:
        e_aug = augs(b, ex)
        if not e_aug:
            continue
        n_blocks += 1
        s_aug = augs(b, sh)
        for ea in e_aug:
            where = f"{SAMP}:{f.qualname} {norm(ea)}"
            same_op = [x for x in s_aug if type(x.op) is type(ea.op)]
            if not same_op:
                rep.refuted("R-C73-shots", SAMP, f.qualname, ea,
                            f"the executions counter is updated ({norm(ea)}) but the shots counter is not updated alongside it: the tracker's "
                            "shots total no longer equals executions x shots for these circuits")
                continue
            sa = same_op[0]
            E, S = ea.value, sa.value
            ok = None
            if isinstance(ea.op, ast.Mult):
                ok = norm(E) == norm(S)
            elif isinstance(ea.op, ast.Add):
                if isinstance(E, ast.Constant) and E.value == 1:
                    ok = is_total(S)
                elif is_total(E):
                    ok = is_total(S)
                elif isinstance(S, ast.BinOp) and isinstance(S.op, ast.Mult):
                    parts = {norm(S.left), norm(S.right)}
                    ok = norm(E) in parts and any(p.endswith("shots.total_shots") for p in parts)
                elif is_total(S) and isinstance(E, (ast.Name, ast.Call)):
                    ok = False  # k executions but only one execution's worth of shots
                else:
                    ok = None
            if ok is True:
                rep.proved("R-C73-shots", where, f"paired with {norm(sa)}")
            elif ok is False:
                rep.refuted("R-C73-shots", SAMP, f.qualname, sa,
                            f"executions are updated with `{norm(ea)}` but shots with `{norm(sa)}`: the two counters no longer move together")
            else:
                rep.unknown("R-C73-shots", where, f"pairing with {norm(sa)} not modelled")
    rep.floor("executions-counter update blocks in get_num_shots_and_executions", n_blocks, 5)


def _raw_uses(rep, m, qn, inner, circ, wrapped):
    """uses of the raw `circuits` parameter: allowed only in the isinstance test, the wrapped call,
    the normalising expression, or on the else-branch of the isinstance test."""
    parents = {}
    for p in ast.walk(inner):
        for c in ast.iter_child_nodes(p):
            parents[c] = p

    def is_single_test(t):
        return isinstance(t, ast.Call) and call_name(t) == "isinstance" and t.args and isinstance(t.args[0], ast.Name) \
            and t.args[0].id == circ and "QuantumScript" in norm(t.args[1])

    def helper_kind(call):
        """'normaliser' when the called same-module function wraps a single QuantumScript into a tuple/list and returns batches as they are;
        'unknown' for any other function of the module; None for builtins / other callees"""
        if not (isinstance(call.func, ast.Name) and call.func.id in m.functions):
            return None
        g = m.functions[call.func.id].node
        gp = [a.arg for a in g.args.args]
        if not gp:
            return "unknown"
        p0 = gp[0]
        single = [t for t in ast.walk(g) if isinstance(t, ast.Call) and call_name(t) == "isinstance" and t.args and isinstance(t.args[0], ast.Name)
                  and t.args[0].id == p0 and "QuantumScript" in norm(t.args[1])]
        rets = [r.value for r in ast.walk(g) if isinstance(r, ast.Return) and r.value is not None]
        wraps = any(isinstance(r, (ast.Tuple, ast.List)) and len(r.elts) == 1 and isinstance(r.elts[0], ast.Name) and r.elts[0].id == p0 for r in rets) or any(
            isinstance(r, ast.IfExp) and isinstance(r.body, (ast.Tuple, ast.List)) for r in rets)
        passes = any(isinstance(r, ast.Name) and r.id == p0 for r in rets) or any(isinstance(r, ast.IfExp) and isinstance(r.orelse, ast.Name) for r in rets)
        return "normaliser" if single and wraps and passes else "unknown"

    bad = []
    undecided = []
    n_norm = 0
    for n in walk_shallow(inner):
        if not (isinstance(n, ast.Name) and n.id == circ and isinstance(n.ctx, ast.Load)):
            continue
        # climb
        cur, okay = n, False
        direct = parents.get(n)
        if isinstance(direct, ast.Call) and n in direct.args:
            hk = helper_kind(direct)
            if hk == "normaliser":
                n_norm += 1
                continue
            if hk == "unknown":
                undecided.append(n)
                continue
        while cur in parents:
            p = parents[cur]
            if isinstance(p, ast.Call) and is_single_test(p):
                okay = True
            if isinstance(p, ast.Call) and isinstance(p.func, ast.Name) and p.func.id == wrapped and cur in p.args:
                okay = True
            if isinstance(p, ast.IfExp) and is_single_test(p.test):
                # (circuits,) if single else circuits
                if cur is p.orelse or (cur is p.body and isinstance(p.body, (ast.Tuple, ast.List))):
                    okay = True
                    n_norm += 1
            if isinstance(p, ast.If) and is_single_test(p.test):
                if cur in p.orelse:
                    okay = True
                    n_norm += 1
                elif cur in p.body and isinstance(direct, (ast.Tuple, ast.List)):
                    okay = True  # batch = (circuits,)
            cur = p
        if not okay:
            bad.append(n)
    for n in bad:
        p = parents.get(n)
        stmt = n
        while stmt in parents and not isinstance(stmt, ast.stmt):
            stmt = parents[stmt]
        rep.refuted("R-C73-pair", m.relpath, qn, stmt,
                    f"raw `{circ}` is used for counting/iteration without the single-QuantumScript normalisation: for a single tape "
                    "len()/iteration ranges over its operations and measurements, not over one circuit")
    for n in undecided:
        rep.unknown("R-C73-pair", f"{m.relpath}:{qn} L{n.lineno}", f"raw `{circ}` is handed to a helper of the module that is not recognised as the normalisation")
    if not bad and not undecided:
        rep.proved("R-C73-pair", f"{m.relpath}:{qn} normalisation", f"raw `{circ}` only reaches the wrapped call, the isinstance test, a normalising helper or the non-single branch")


def _tracker(ix, rep):
    T = ix.cls(TRK, "Tracker")
    rep.analysed(TRK)
    up = T.own_method("update")
    rs = T.own_method("reset")
    if up is None or rs is None:
        raise AnalysisError("Tracker.update/reset vanished")
    rep.analysed(TRK, "Tracker.update")
    src = up.node
    # history append in a loop over kwargs.items()
    loops = [n for n in walk_shallow(src) if isinstance(n, ast.For) and "kwargs.items()" in norm(n.iter)]
    if not loops:
        rep.unknown("R-C73-tracker", f"{TRK}:Tracker.update", "loop over kwargs.items() not recognised")
        return
    lp = loops[0]
    kname, vname = (lp.target.elts[0].id, lp.target.elts[1].id) if isinstance(lp.target, ast.Tuple) else (None, None)
    body_src = norm(ast.Module(body=lp.body, type_ignores=[]))
    def history_writes(nodes, vn):
        app = any(isinstance(n, ast.Call) and isinstance(n.func, ast.Attribute) and n.func.attr == "append" and "history" in norm(n.func.value)
                  and n.args and isinstance(n.args[0], ast.Name) and n.args[0].id == vn for b in nodes for n in ast.walk(b))
        cre = any(isinstance(n, ast.Assign) and "history" in norm(n.targets[0]) and isinstance(n.value, ast.List) and len(n.value.elts) == 1
                  and isinstance(n.value.elts[0], ast.Name) and n.value.elts[0].id == vn for b in nodes for n in ast.walk(b))
        # self.history.setdefault(key, []).append(value): creates and appends in one expression
        sd = any(isinstance(n, ast.Call) and isinstance(n.func, ast.Attribute) and n.func.attr == "append" and isinstance(n.func.value, ast.Call)
                 and isinstance(n.func.value.func, ast.Attribute) and n.func.value.func.attr == "setdefault" and "history" in norm(n.func.value.func.value)
                 and n.args and isinstance(n.args[0], ast.Name) and n.args[0].id == vn for b in nodes for n in ast.walk(b))
        return app or sd, cre or sd
    appended, created = history_writes(lp.body, vname)
    helper_seen = False
    if not (appended and created):
        # a helper method of Tracker that receives the value: look one call deep (self._append_to_history(key, value))
        for b in lp.body:
            for c in ast.walk(b):
                if isinstance(c, ast.Call) and isinstance(c.func, ast.Attribute) and isinstance(c.func.value, ast.Name) and c.func.value.id == "self":
                    g = T.own_method(c.func.attr)
                    pos = [i for i, a_ in enumerate(c.args) if isinstance(a_, ast.Name) and a_.id == vname]
                    if g is None or not pos:
                        continue
                    helper_seen = True
                    gp = [x.arg for x in g.node.args.args][1:]
                    if pos[0] < len(gp):
                        a2, c2 = history_writes(g.node.body, gp[pos[0]])
                        appended, created = appended or a2, created or c2
    mentions_history = any("history" in norm(b) for b in lp.body)
    if appended and created:
        rep.proved("R-C73-tracker", f"{TRK}:Tracker.update history", "every value is appended (or starts a list) in call order")
    elif helper_seen or (mentions_history and (appended or created)):
        rep.unknown("R-C73-tracker", f"{TRK}:Tracker.update history", "the history update is written in a form this rule does not follow")
    else:
        rep.refuted("R-C73-tracker", TRK, "Tracker.update", lp, "history is not extended with every updated value in call order")
    tot = [n for b in lp.body for n in ast.walk(b) if isinstance(n, ast.Assign) and "totals" in norm(n.targets[0])]
    good = False
    for a in tot:
        v = a.value
        if isinstance(v, ast.BinOp) and isinstance(v.op, ast.Add):
            sides = {norm(v.left), norm(v.right)}
            if vname in sides and any("totals.get" in s and s.endswith(", 0)") for s in sides):
                good = True
    if not good and not tot:
        # totals updated in a helper that receives the totals mapping and the value (module-level function or method): follow one call
        tm = ix.module(TRK)
        for b in lp.body:
            for c in ast.walk(b):
                if isinstance(c, ast.Call) and any(isinstance(a_, ast.Name) and a_.id == vname for a_ in c.args) and any("totals" in norm(a_) for a_ in c.args):
                    g = tm.functions.get(c.func.id) if isinstance(c.func, ast.Name) else (T.own_method(c.func.attr) if isinstance(c.func, ast.Attribute) else None)
                    if g is None:
                        continue
                    helper_totals = True
                    gp = [x.arg for x in g.node.args.args]
                    vpos = [i for i, a_ in enumerate(c.args) if isinstance(a_, ast.Name) and a_.id == vname][0]
                    off = 1 if gp and gp[0] in ("self", "cls") else 0
                    vn2 = gp[vpos + off] if vpos + off < len(gp) else None
                    for a in [n for n in ast.walk(g.node) if isinstance(n, ast.Assign) and isinstance(n.targets[0], ast.Subscript)]:
                        v = a.value
                        if isinstance(v, ast.BinOp) and isinstance(v.op, ast.Add):
                            sides = {norm(v.left), norm(v.right)}
                            if vn2 in sides and any(".get(" in s_ and s_.endswith(", 0)") for s_ in sides):
                                good = True
    if good:
        rep.proved("R-C73-tracker", f"{TRK}:Tracker.update totals", "totals[key] = value + totals.get(key, 0)")
    elif not tot and 'helper_totals' in locals():
        rep.unknown("R-C73-tracker", f"{TRK}:Tracker.update totals", "totals are updated in a helper whose form is not followed")
    else:
        rep.refuted("R-C73-tracker", TRK, "Tracker.update", tot[0] if tot else lp, "totals are not accumulated as value + previous total")
    stores = {norm(t) for n in walk_shallow(rs.node) if isinstance(n, ast.Assign) for t in n.targets}
    need = {"self.totals", "self.history", "self.latest"}
    if need <= stores:
        rep.proved("R-C73-tracker", f"{TRK}:Tracker.reset", "clears totals, history, latest")
    else:
        rep.refuted("R-C73-tracker", TRK, "Tracker.reset", rs.node, f"reset does not clear {sorted(need - stores)}")
