"""C33 (last sentence) — unsupported circuits are rejected with an error and never silently altered:
validators raise and return their input unchanged; every built-in device installs them; every name in
a device's target gate table denotes something the simulator can apply."""

from __future__ import annotations

import ast

from ..astutil import call_name
from ..cfg import CFG, walk_shallow
from ..core import AnalysisError, Report, norm
from ..index import ClassInfo, FuncInfo

PRE = "pennylane/devices/preprocess.py"
VALIDATOR_FILES = (PRE, "pennylane/devices/default_qubit.py", "pennylane/devices/default_clifford.py", "pennylane/devices/default_mixed.py",
                   "pennylane/devices/default_tensor.py", "pennylane/devices/reference_qubit.py")
# validators that legitimately return a modified tape (named, with reason)
MAY_REBUILD = {
    "validate_device_wires": "fills the device wires into wire-less measurements / snapshots through tape.copy(...); raises for foreign wires",
}
# (module, class, method) -> required transforms, frozen after reading each device's pipeline
PIPELINES = {
    ("pennylane/devices/default_qubit.py", "DefaultQubit", "preprocess_transforms"): {"validate_device_wires", "decompose", "validate_measurements"},
    ("pennylane/devices/default_mixed.py", "DefaultMixed", "preprocess"): {"validate_device_wires", "decompose", "validate_measurements", "validate_observables"},
    ("pennylane/devices/default_tensor.py", "DefaultTensor", "preprocess"): {"validate_device_wires", "decompose", "validate_measurements", "validate_observables"},
    ("pennylane/devices/reference_qubit.py", "ReferenceQubit", "preprocess"): {"validate_device_wires", "decompose", "validate_measurements"},
    # decompose is added under `if self._check_clifford` by design (documented opt-out), hence not required here
    ("pennylane/devices/default_clifford.py", "DefaultClifford", "preprocess"): {"validate_device_wires", "validate_measurements", "validate_observables"},
}
GATE_TABLES = (
    ("pennylane/devices/default_qubit.py", "_BASE_DQ_GATE_SET"),
    ("pennylane/devices/default_mixed.py", "operations"),
    ("pennylane/devices/default_mixed.py", "channels"),
)
# names with nothing statically applicable that the simulators handle by a dedicated registration (named, with reason)
GATE_EXCEPTIONS = {
    "Snapshot": "has an apply_operation registration in both simulators",
    "QubitDensityMatrix": "consumed by qubit_mixed/initialize_state.py as a state preparation",
    "MidMeasure": "handled by apply_operation / the mid-circuit-measurement transforms",
    "MidMeasureMP": "handled by apply_operation / the mid-circuit-measurement transforms",
    "Conditional": "applied through its base when the measurement value is concrete",
}


def _is_transform(f: FuncInfo):
    for d in f.node.decorator_list:
        t = norm(d)
        if t == "transform" or t.endswith(".transform") or t.startswith("partial(transform"):
            return True
    return False


def _raise_reachable(ix, f: FuncInfo, depth=2, seen=None):
    seen = seen or set()
    if id(f) in seen:
        return False
    seen.add(id(f))
    for n in walk_shallow(f.node):
        if isinstance(n, ast.Raise):
            return True
    if depth <= 0:
        return False
    for n in walk_shallow(f.node):
        if isinstance(n, ast.Call) and isinstance(n.func, ast.Name):
            g = f.module.functions.get(n.func.id)
            if g is not None and _raise_reachable(ix, g, depth - 1, seen):
                return True
    return False


def check(ctx):
    ix = ctx.index
    rep = Report("C33", "unsupported circuits are rejected with an error and never silently altered (validator transforms raise and hand "
                 "their input back unchanged; every built-in device installs them; listed target gates are applicable). Equivalence of "
                 "the preprocessed circuits and correctness of stopping predicates are runtime and not decided.")
    rep.rule("R-C33-validator", "every validate_* / no_* / _validate_* transform of the device layer contains a reachable raise and, on "
             "every normal exit, returns `(tape,), null_postprocessing` with `tape` the unmodified first parameter")
    rep.rule("R-C33-pipeline", "every built-in device adds validate_device_wires, a decompose and validate_measurements (and validate_observables "
             "where it did when confirmed) unconditionally in its preprocessing pipeline")
    rep.rule("R-C33-gateset", "every name in a device's target gate table resolves to an operator class that statically has something the "
             "simulator can apply (matrix, sparse matrix, Kraus matrices, state preparation) or a named dedicated registration")
    n_val = 0
    for rel in VALIDATOR_FILES:
        m = ix.by_relpath.get(rel)
        if m is None:
            continue
        for name, f in sorted(m.functions.items()):
            if not (name.startswith("validate_") or name.startswith("no_") or name.startswith("_validate_")) or not _is_transform(f):
                continue
            n_val += 1
            rep.analysed(rel, name)
            p0 = f.node.args.args[0].arg
            if not _raise_reachable(ix, f):
                rep.refuted("R-C33-validator", rel, name, f.node,
                            f"validator `{name}` contains no reachable `raise`: a circuit it is meant to reject is let through (at most with a warning)")
            else:
                rep.proved("R-C33-validator", f"{rel}:{name} raises", "a raise is reachable")
            # unchanged tape on every return
            rebuilt = [n for n in walk_shallow(f.node) if isinstance(n, (ast.Assign, ast.AugAssign)) and any(
                isinstance(t, ast.Name) and t.id == p0 for t in (n.targets if isinstance(n, ast.Assign) else [n.target]))]
            bad = None
            for r in [n for n in walk_shallow(f.node) if isinstance(n, ast.Return)]:
                v = r.value
                ok = isinstance(v, ast.Tuple) and len(v.elts) == 2 and isinstance(v.elts[0], (ast.Tuple, ast.List)) and len(v.elts[0].elts) == 1 \
                    and isinstance(v.elts[0].elts[0], ast.Name) and v.elts[0].elts[0].id == p0
                if not ok:
                    bad = (r, f"returns `{norm(v)[:80]}` instead of its own input")
            if bad is None and rebuilt and name not in MAY_REBUILD:
                bad = (rebuilt[0], f"rebinds `{p0}` (`{norm(rebuilt[0])[:80]}`) before returning it")
            if name in MAY_REBUILD:
                rep.exempt("R-C33-validator", f"{rel}:{name} returns", MAY_REBUILD[name])
            elif bad:
                rep.refuted("R-C33-validator", rel, name, bad[0],
                            f"validator `{name}` {bad[1]}: instead of rejecting an unsupported circuit it can hand a silently altered one to the device")
            else:
                rep.proved("R-C33-validator", f"{rel}:{name} returns", "returns the unmodified input tape on every exit")
    rep.floor("validator transforms", n_val, 9)

    # ---- R-C33-config: every configuration parameter of a device-layer transform is consumed ------------
    rep.rule("R-C33-config", "every parameter of a device-layer preprocessing transform is read by its body (a device passes e.g. allow_resets / "
             "stopping_condition / name to configure what is rejected or rewritten; a parameter that is accepted and ignored silently drops that policy)")
    n_par = 0
    for rel in VALIDATOR_FILES:
        m = ix.by_relpath.get(rel)
        if m is None:
            continue
        for name, f in sorted(m.functions.items()):
            if not _is_transform(f):
                continue
            a = f.node.args
            ps = [x.arg for x in a.posonlyargs + a.args + a.kwonlyargs][1:]
            used = {n.id for n in ast.walk(f.node) if isinstance(n, ast.Name) and isinstance(n.ctx, ast.Load)}
            for pn in ps:
                n_par += 1
                if pn in used or pn.startswith("_"):
                    rep.proved("R-C33-config", f"{rel}:{name}({pn})", "read in the body", nontrivial=False)
                else:
                    rep.refuted("R-C33-config", rel, name, f"parameter `{pn}` of {name}",
                                f"`{name}` accepts `{pn}` but never reads it: the device's configuration (e.g. which resets / gates / measurements are "
                                "allowed) is silently ignored and circuits it should reject or rewrite differently pass through", line=f.node.lineno)
    rep.floor("configuration parameters of device-layer transforms", n_par, 25)

    # ---- pipelines -------------------------------------------------------------------------------
    for (rel, cname, meth), required in sorted(PIPELINES.items()):
        cls = ix.cls(rel, cname)
        f = cls.own_method(meth)
        if f is None:
            raise AnalysisError(f"{cname}.{meth} vanished")
        rep.analysed(rel, f.qualname)
        uncond, cond = set(), set()

        helper_stack = []
        # names the pipeline object goes by in this method (receivers of add_transform); a call that hands one of them to a
        # function that cannot be resolved may install transforms this scan does not see
        pipe_names = {k.func.value.id for k in ast.walk(f.node) if isinstance(k, ast.Call) and isinstance(k.func, ast.Attribute)
                      and k.func.attr == "add_transform" and isinstance(k.func.value, ast.Name)}
        opaque = []

        def scan(body, conditional):
            for st in body:
                if isinstance(st, ast.If) and st.orelse:
                    # added in both arms of an if/else == added unconditionally
                    arms = []
                    for sub in (st.body, st.orelse):
                        u2, c2 = set(), set()
                        saved = (set(uncond), set(cond))
                        uncond.clear(); cond.clear()
                        scan(sub, conditional)
                        arms.append(set(uncond))
                        both_c = set(cond) | set(uncond)
                        uncond.clear(); cond.clear()
                        uncond.update(saved[0]); cond.update(saved[1]); cond.update(both_c)
                    common = arms[0] & arms[1]
                    if not conditional:
                        uncond.update(common)
                    continue
                if isinstance(st, (ast.If, ast.While, ast.For, ast.Try)):
                    for sub in (getattr(st, "body", []), getattr(st, "orelse", []), getattr(st, "finalbody", [])):
                        scan(sub, True)
                    for h in getattr(st, "handlers", []):
                        scan(h.body, True)
                    continue
                if isinstance(st, ast.With):
                    scan(st.body, conditional)
                    continue
                for n in walk_shallow(st):
                    if isinstance(n, ast.Call) and isinstance(n.func, ast.Attribute) and n.func.attr == "add_transform" and n.args:
                        nm = (norm(n.args[0])).split(".")[-1]
                        (cond if conditional else uncond).add(nm)
                    elif isinstance(n, ast.Call) and (isinstance(n.func, ast.Name) or (
                            isinstance(n.func, ast.Attribute) and isinstance(n.func.value, ast.Name) and n.func.value.id in ("self", "cls"))):
                        # helper that adds transforms to the program passed to it (function of the module / method of the class):
                        # its body is scanned in place, under the same conditionality as the call
                        if isinstance(n.func, ast.Name):
                            g = f.module.functions.get(n.func.id)
                        else:
                            g = None
                            if f.cls is not None:
                                _c, g = f.cls.lookup(n.func.attr)
                                if not hasattr(g, "node"):
                                    g = None
                        if g is not None and g.node not in helper_stack and len(helper_stack) < 4:
                            helper_stack.append(g.node)
                            scan(g.node.body, conditional)
                            helper_stack.pop()
                        elif g is None and any(isinstance(a_, ast.Name) and a_.id in pipe_names for a_ in n.args):
                            opaque.append(norm(n.func))

        scan(f.node.body, False)
        for t in sorted(required):
            where = f"{rel}:{cname}.{meth} adds {t}"
            if t in uncond:
                rep.proved("R-C33-pipeline", where, "added unconditionally")
            elif t in cond:
                rep.refuted("R-C33-pipeline", rel, f"{cname}.{meth}", f"add_transform({t}, …) [conditional]",
                            f"{cname} installs `{t}` only under a condition, where the confirmed pipeline installed it on every path: for the other "
                            "configurations unsupported circuits reach the simulator unchecked", line=f.node.lineno)
            elif opaque:
                rep.unknown("R-C33-pipeline", where, f"not added here, but the pipeline is handed to `{opaque[0]}`, which is not followed")
            else:
                rep.refuted("R-C33-pipeline", rel, f"{cname}.{meth}", f"add_transform({t}, …)",
                            f"{cname} no longer installs `{t}` in its preprocessing pipeline: circuits that this step rejects (or brings into the "
                            "device's gate set) reach the simulator unchecked", line=f.node.lineno)
    rep.floor("device pipelines", len(PIPELINES), 5)

    # ---- order: the wire check runs on the circuit the simulator will see ------------------------------
    rep.rule("R-C33-order", "in the pipelines of default.qubit, default.mixed, default.clifford and reference.qubit validate_device_wires is added after "
             "every transform that can add wires (defer_measurements, device_resolve_dynamic_wires) — 'Defer first since it adds wires to the "
             "device' (default.mixed); default.tensor, which rejects foreign wires at execution, is reported as undecided")
    ADDERS = ("defer_measurements", "device_resolve_dynamic_wires")
    n_ord = 0
    for (rel, cname, meth), _req in sorted(PIPELINES.items()):
        f = ix.cls(rel, cname).own_method(meth)
        seq = []
        for n in sorted((x for x in walk_shallow(f.node) if isinstance(x, ast.Call) and isinstance(x.func, ast.Attribute) and x.func.attr == "add_transform" and x.args),
                        key=lambda x: (x.lineno, x.col_offset)):
            seq.append((norm(n.args[0]).split(".")[-1], n))
        names = [s_[0] for s_ in seq]
        if "validate_device_wires" not in names:
            continue
        iv = names.index("validate_device_wires")
        for a_ in ADDERS:
            if a_ not in names:
                continue
            n_ord += 1
            late = [i for i, nm in enumerate(names) if nm == a_ and i > iv]
            where = f"{rel}:{cname}.{meth} {a_} before validate_device_wires"
            if not late:
                rep.proved("R-C33-order", where, "the wire check sees the wires this transform adds")
            elif cname in ("DefaultQubit", "DefaultMixed", "DefaultClifford", "ReferenceQubit"):
                rep.refuted("R-C33-order", rel, f"{cname}.{meth}", f"add_transform({a_}, …) after add_transform(validate_device_wires, …)",
                            f"`{a_}` is added to the pipeline after validate_device_wires: the auxiliary wires it introduces are never checked against the "
                            f"device, so a circuit that needs more wires than {cname} has is simulated on a larger register instead of being rejected "
                            "with a WireError", line=seq[late[0]][1].lineno)
            else:
                rep.unknown("R-C33-order", where, f"{cname} checks wires before `{a_}`; probed: default.tensor rejects the enlarged circuit at execution "
                                                  "(WireError from the tensor-network backend), so nothing runs on a foreign wire")
    rep.floor("(wire-adding transform, wire check) pairs in device pipelines", n_ord, 5)

    # ---- gate tables -------------------------------------------------------------------------------
    from ..opfacts import resolve_op_name

    n_names = 0
    for rel, tname in GATE_TABLES:
        m = ix.module(rel)
        vals = m.all_assigns.get(tname, [])
        disp = next((v for v in vals if isinstance(v, (ast.Set, ast.List, ast.Tuple))), None)
        if disp is None:
            rep.unknown("R-C33-gateset", f"{rel}:{tname}", "table is not a literal display")
            continue
        for e in disp.elts:
            if not (isinstance(e, ast.Constant) and isinstance(e.value, str)):
                continue
            n_names += 1
            name = e.value
            where = f"{rel}:{tname}[{name!r}]"
            if name in GATE_EXCEPTIONS:
                rep.exempt("R-C33-gateset", where, GATE_EXCEPTIONS[name])
                continue
            c = resolve_op_name(ix, name)
            if not isinstance(c, ClassInfo):
                rep.refuted("R-C33-gateset", rel, f"{tname}[{name!r}]", e,
                            f"`{name}` in the device's target gate table is not the name of any operator class: the decomposition stops at nothing / "
                            "the entry is dead", line=e.lineno)
                continue
            applicable = None
            for meth_ in ("compute_matrix", "matrix", "compute_sparse_matrix", "sparse_matrix", "compute_kraus_matrices", "kraus_matrices", "state_vector"):
                dc, g = c.lookup(meth_, stop_at=("Operator", "Operator2", "Operation", "Channel"))
                if isinstance(g, FuncInfo):
                    # an override that always raises does not count
                    raises_only = all(isinstance(s, (ast.Raise, ast.Expr)) for s in g.node.body) and any(isinstance(s, ast.Raise) for s in g.node.body)
                    if not raises_only:
                        applicable = f"{dc.name}.{meth_}"
                        break
            if applicable is None and any(b.name in ("StatePrepBase", "StatePrepBase2") for b in c.mro()):
                applicable = "state preparation"
            if applicable:
                rep.proved("R-C33-gateset", where, applicable)
            else:
                rep.refuted("R-C33-gateset", rel, f"{tname}[{name!r}]", e,
                            f"`{name}` is listed as a target gate but its class {c.name} defines no matrix, sparse matrix, Kraus matrices or state "
                            "preparation below the base classes: decomposition stops at an operator the simulator cannot apply", line=e.lineno)
    rep.floor("names in device gate tables", n_names, 90)
    from .c33_extra import modes, rebuild

    rebuild(ctx, rep)
    modes(ctx, rep)
    return rep
