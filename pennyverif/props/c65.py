"""C65 — executor backends behave like map and starmap: order preservation and faithful
forwarding of the argument sequences (static call-shape analysis against the stdlib signatures)."""

from __future__ import annotations

import ast

from ..astutil import call_name, const_value, local_placeholders, norm_renamed
from ..cfg import walk_shallow
from ..core import AnalysisError, Report, norm
from ..index import ClassInfo, FuncInfo

DIR = "pennylane/concurrency/executors/native/"
API = DIR + "api.py"

# Reference: documented stdlib signatures (the checker's own table; an external standard).
#   kind -> name -> (ordered?, shape)
#   shape: "varargs" = f(fn, *args, **kwargs) forwarded to fn;  "iterables" = f(fn, *iterables);
#          "apply" = f(func, args=(), kwds={});  "one-iterable" = f(func, iterable);  "tuples" = f(func, iterable_of_tuples)
STDLIB = {
    "Executor": {  # concurrent.futures.Executor
        "submit": (True, "varargs"),
        "map": (True, "iterables"),
        "shutdown": (True, None),
    },
    "Pool": {  # multiprocessing.pool.Pool
        "apply": (True, "apply"),
        "map": (True, "one-iterable"),
        "starmap": (True, "tuples"),
        "imap": (True, "one-iterable"),
        "imap_unordered": (False, "one-iterable"),
        "apply_async": (False, "apply"),
        "map_async": (False, "one-iterable"),
        "starmap_async": (False, "tuples"),
        "close": (True, None),
        "terminate": (True, None),
        "join": (True, None),
    },
}
UNORDERED_NAMES = {"as_completed", "imap_unordered", "wait", "map_async", "apply_async", "starmap_async", "FIRST_COMPLETED"}
BUILTIN_NO_KW = {"list", "tuple", "zip", "map", "set", "iter"}


def _backend_kind(ix, cls: ClassInfo):
    f = cls.own_method("_exec_backend")
    if f is None:
        return None, None
    rets = [n.value for n in walk_shallow(f.node) if isinstance(n, ast.Return) and n.value is not None]
    if len(rets) != 1:
        return None, None
    e = rets[0]
    txt = norm(e)
    if "ProcessPoolExecutor" in txt or "ThreadPoolExecutor" in txt:
        return "Executor", None
    if txt.endswith(".Pool") or txt == "Pool":
        return "Pool", None
    r = ix.resolve_expr(cls.module, e)
    if isinstance(r, ClassInfo):
        return "repo", r
    return None, None


def _cfg_of(cls: ClassInfo):
    init = cls.own_method("__init__")
    if init is None:
        return None
    out = None
    for n in walk_shallow(init.node):
        if isinstance(n, ast.Assign) and any(norm(t) == "self._cfg" for t in n.targets) and isinstance(n.value, ast.Call):
            out = {kw.arg: const_value(kw.value, "?") for kw in n.value.keywords if kw.arg}
    return out


def _backend_has(kind, repo_cls, name):
    if kind == "repo":
        return repo_cls.lookup(name)[1] is not None
    if kind in STDLIB:
        return name in STDLIB[kind]
    return None


def _shape_of(kind, repo_cls, name):
    """-> (ordered, shape) or (None, None) when unknown"""
    if kind == "repo":
        c, f = repo_cls.lookup(name)
        if not isinstance(f, FuncInfo):
            return None, None
        a = f.node.args
        if a.vararg is not None:
            # how is the vararg used in the body?  map(fn, *args) -> iterables ; fn(*args) -> varargs
            for n in walk_shallow(f.node):
                if isinstance(n, ast.Call) and call_name(n) == "map":
                    return True, "iterables"
            return True, "varargs"
        pos = [x.arg for x in a.args if x.arg not in ("self", "cls")]
        if len(pos) == 2:
            for n in walk_shallow(f.node):
                if isinstance(n, ast.Call) and (call_name(n) or "").split(".")[-1] == "starmap":
                    return True, "tuples"
            return True, "one-iterable"
        return None, None
    t = STDLIB.get(kind, {}).get(name)
    return t if t else (None, None)


def _eval(test, cfg, kind, repo_cls):
    """three-valued evaluation of a branch condition under one executor class's configuration"""
    if isinstance(test, ast.BoolOp):
        vals = [_eval(v, cfg, kind, repo_cls) for v in test.values]
        if isinstance(test.op, ast.And):
            if any(v is False for v in vals):
                return False
            return True if all(v is True for v in vals) else None
        if any(v is True for v in vals):
            return True
        return False if all(v is False for v in vals) else None
    if isinstance(test, ast.UnaryOp) and isinstance(test.op, ast.Not):
        v = _eval(test.operand, cfg, kind, repo_cls)
        return None if v is None else (not v)
    if isinstance(test, ast.Attribute) and norm(test.value) == "self._cfg":
        v = cfg.get(test.attr, None)
        return bool(v) if v in (True, False, None) and test.attr in cfg else None
    if isinstance(test, ast.Call) and call_name(test) == "hasattr" and len(test.args) == 2 and isinstance(test.args[1], ast.Constant):
        return _backend_has(kind, repo_cls, test.args[1].value)
    return None


def _sites(body, conds):
    """yield (stmt, conds) for every simple statement with the branch conditions leading to it"""
    for st in body:
        if isinstance(st, ast.If):
            yield from _sites(st.body, conds + [(st.test, True)])
            yield from _sites(st.orelse, conds + [(st.test, False)])
            if st.body and isinstance(st.body[-1], (ast.Return, ast.Raise)) and not st.orelse:
                conds = conds + [(st.test, False)]  # the rest of the block runs only when the test failed
        elif isinstance(st, (ast.For, ast.While, ast.With)):
            yield from _sites(st.body, conds)
        elif isinstance(st, ast.Try):
            yield from _sites(st.body, conds)
            for h in st.handlers:
                yield from _sites(h.body, conds)
            yield from _sites(st.finalbody, conds)
        else:
            yield st, conds


def _argshape(call: ast.Call):
    out = []
    for a in call.args:
        if isinstance(a, ast.Starred):
            out.append(("star", norm(a.value), a.value))
        else:
            out.append(("pos", norm(a), a))
    for kw in call.keywords:
        if kw.arg is None:
            out.append(("kwsplat", norm(kw.value), kw.value))
        else:
            out.append(("kw", kw.arg, kw.value))
    return out


def check(ctx):
    ix = ctx.index
    rep = Report("C65", "results come back in input order whatever the completion order, and the function, the "
                 "argument sequences and the keyword arguments handed to submit/map/starmap reach the function the way "
                 "the built-in call/map/itertools.starmap would pass them.")
    rep.rule("R-C65-order", "backend functions named in ExecBackendConfig are order-preserving blocking stdlib calls; no as_completed / "
             "imap_unordered / *_async / wait / set-of-futures anywhere in the native executors")
    rep.rule("R-C65-forward", "for every executor class, on every branch feasible under its configuration, the call into the backend "
             "binds the user's function, the vararg iterables (starred or zipped, never the tuple itself), and the keyword arguments "
             "(through partial(fn, **kw) or a forwarding **kw — never into a builtin or into the backend's own parameters) according "
             "to the stdlib signature of the configured backend function")
    rep.assume("stdlib signatures of concurrent.futures.Executor.submit/map and multiprocessing.Pool.apply/map/starmap are the reference")
    rep.assume("branch conditions other than self._cfg.<flag> and hasattr(exec_be, name) are treated as feasible both ways")

    api = ix.module(API)
    base = ix.cls(API, "PyNativeExec")
    rep.analysed(api.relpath)
    execs = []
    for c in ix.classes:
        if c.module.relpath.startswith(DIR) and c is not base and base in c.mro():
            execs.append(c)
    rep.floor("native executor classes", len(execs), 4)

    # ---------------------------------------------------------------- R-C65-order
    native_mods = [m for m in ix.modules.values() if m.relpath.startswith(DIR)]
    for m in native_mods:
        rep.analysed(m.relpath)
        for n in ast.walk(m.tree):
            nm = None
            if isinstance(n, ast.Attribute) and n.attr in UNORDERED_NAMES:
                nm = n.attr
            elif isinstance(n, ast.Name) and n.id in UNORDERED_NAMES:
                nm = n.id
            elif isinstance(n, ast.alias) and n.name in UNORDERED_NAMES:
                nm = n.name
            if nm:
                rep.refuted("R-C65-order", m.relpath, "<module>", nm,
                            f"uses {nm}, which yields results in completion order (or asynchronously), not in input order", line=getattr(n, "lineno", 0))
    cfgs = {}
    for c in execs:
        cfg = _cfg_of(c)
        kind, rc = _backend_kind(ix, c)
        if cfg is None or kind is None:
            rep.unknown("R-C65-order", f"{c.module.relpath}:{c.name}", "configuration or backend class not readable")
            continue
        cfgs[c] = (cfg, kind, rc)
        for slot in ("submit_fn", "map_fn", "starmap_fn"):
            name = cfg.get(slot)
            if name in (None, "?"):
                continue
            if not isinstance(name, str):
                continue
            ordered, shape = _shape_of(kind, rc, name)
            where = f"{c.module.relpath}:{c.name}.{slot}={name!r}"
            if ordered is None:
                if slot == "starmap_fn" and _backend_has(kind, rc, name) is False:
                    rep.proved("R-C65-order", where, "backend has no such attribute; the generic starmap falls back to map", nontrivial=False)
                else:
                    rep.unknown("R-C65-order", where, "backend function not in the reference table")
            elif ordered:
                rep.proved("R-C65-order", where, f"{kind}.{name} returns results in input order")
            else:
                rep.refuted("R-C65-order", c.module.relpath, f"{c.name}.__init__", f"{slot}={name!r}",
                            f"{kind}.{name} does not return results in input order / synchronously: map/starmap would return results in completion order")
    rep.floor("executor configurations read", len(cfgs), 4)

    # ---------------------------------------------------------------- R-C65-forward
    n_sites = 0
    for c in execs:
        if c not in cfgs:
            continue
        cfg, kind, rc = cfgs[c]
        for meth in ("submit", "map", "starmap"):
            chain = [(k, f) for k, f in c.lookup_all(meth) if isinstance(f, FuncInfo)]
            for defcls, f in chain:
                if defcls is not base and defcls is not c:
                    continue
                rep.analysed(f.module.relpath, f.qualname)
                n_sites += _check_method(rep, c, defcls, f, meth, cfg, kind, rc)
    rep.floor("backend call sites examined (per executor class)", n_sites, 12)

    # ---------------------------------------------------------------- R-C65-consume
    rep.rule("R-C65-consume", "map/starmap never iterate over the caller's argument sequences themselves before handing them to the "
             "backend (a one-shot iterator would arrive exhausted): the sequences flow only into the backend call, zip(*args) or a "
             "forwarding call")
    CONSUMERS = {"list", "tuple", "sorted", "sum", "set", "frozenset", "min", "max", "any", "all", "next", "dict", "enumerate", "reversed", "len"}
    n_cons = 0
    for c in [base] + execs:
        for meth in ("map", "starmap"):
            f = c.own_method(meth)
            if f is None:
                continue
            n_cons += 1
            a = f.node.args
            seqs = set()
            if a.vararg:
                seqs.add(a.vararg.arg)
            pos = [x.arg for x in a.args][1:]
            if meth == "starmap" and len(pos) > 1:
                seqs.add(pos[1])
            elem_vars = {}
            for n in walk_shallow(f.node):
                if isinstance(n, (ast.For, ast.comprehension)) and isinstance(n.iter, ast.Name) and n.iter.id in seqs and isinstance(n.target, ast.Name):
                    elem_vars[n.target.id] = n
            bad = None
            for n in walk_shallow(f.node):
                if not isinstance(n, ast.Call):
                    continue
                cn = call_name(n)
                if cn in CONSUMERS:
                    for arg in n.args:
                        # element of the vararg consumed:  list(arg) / sum(1 for _ in arg) ...
                        names = {x.id for x in ast.walk(arg) if isinstance(x, ast.Name)}
                        if names & set(elem_vars) and cn != "len":
                            bad = (n, f"an element of `{next(iter(seqs))}` is consumed by {cn}()")
                        if isinstance(arg, ast.Subscript) and isinstance(arg.value, ast.Name) and arg.value.id in seqs and cn != "len":
                            bad = (n, f"`{norm(arg)}` is consumed by {cn}()")
                        if meth == "starmap" and isinstance(arg, ast.Name) and arg.id in seqs and cn not in ("len", "list", "tuple", "zip"):
                            bad = (n, f"`{arg.id}` is consumed by {cn}()")
            for ev, loop in elem_vars.items():
                if isinstance(loop, ast.For):
                    bad = bad or (loop, f"the method iterates over the elements of `{loop.iter.id}` itself")
            if bad:
                rep.refuted("R-C65-consume", f.module.relpath, f.qualname, bad[0],
                            f"{bad[1]} before the sequences reach the backend: a generator / one-shot iterator argument arrives exhausted and "
                            "map returns fewer (or no) results than the built-in map")
            else:
                rep.proved("R-C65-consume", f"{f.module.relpath}:{f.qualname}", "argument sequences are only forwarded (starred, zipped or passed on)")
    rep.floor("map/starmap methods checked for premature consumption", n_cons, 3)
    from .c65_extra import check_extra, repo_backends
    check_extra(ctx, rep, base, execs, cfgs)
    repo_backends(ctx, rep, base, execs)
    return rep


def _check_method(rep, execcls, defcls, f: FuncInfo, meth, cfg, kind, rc):
    a = f.node.args
    vararg = a.vararg.arg if a.vararg else None
    kwarg = a.kwarg.arg if a.kwarg else None
    pos = [x.arg for x in a.args][1:]
    fn = pos[0] if pos else "fn"
    seq = pos[1] if len(pos) > 1 else None  # starmap's sequence of tuples
    rel = f.module.relpath
    qn = f.qualname
    # names bound to partial(fn, **kwargs)
    partials = set()
    for n in walk_shallow(f.node):
        if isinstance(n, ast.Assign) and isinstance(n.value, ast.Call) and (call_name(n.value) or "").split(".")[-1] == "partial":
            sh = _argshape(n.value)
            if any(k == "pos" and t == fn for k, t, _ in sh) and (kwarg is None or any(k == "kwsplat" and t == kwarg for k, t, _ in sh)):
                partials |= {t.id for t in n.targets if isinstance(t, ast.Name)}
    from .c65_extra import backend_fn_aliases

    fn_aliases = backend_fn_aliases(f.node)
    flag_defs = {}
    for n_ in walk_shallow(f.node):
        if isinstance(n_, ast.Assign) and len(n_.targets) == 1 and isinstance(n_.targets[0], ast.Name) and isinstance(n_.value, (ast.BoolOp, ast.Attribute, ast.Compare, ast.UnaryOp)):
            flag_defs.setdefault(n_.targets[0].id, []).append(n_.value)
    flag_defs = {k: v[0] for k, v in flag_defs.items() if len(v) == 1}
    count = 0
    for st, conds in _sites(f.node.body, []):
        # branch conditions held in a local flag (`unpack_args = self._cfg.map_unpack and …`) are read through
        conds = [((flag_defs[t.id] if isinstance(t, ast.Name) and t.id in flag_defs else
                   (ast.UnaryOp(op=ast.Not(), operand=flag_defs[t.operand.id]) if isinstance(t, ast.UnaryOp) and isinstance(t.op, ast.Not)
                    and isinstance(t.operand, ast.Name) and t.operand.id in flag_defs else t)), pol) for t, pol in conds]
        feas = True
        for test, pol in conds:
            v = _eval(test, cfg, kind, rc)
            if v is not None and v != pol:
                feas = False
        if not feas:
            continue
        for call in [n for n in walk_shallow(st) if isinstance(n, ast.Call)]:
            shape = _argshape(call)
            callee = call.func
            where = f"{rel}:{qn} [{execcls.name}] {norm(call)[:90]}"
            # builtin given **kwargs
            cn = call_name(call)
            if cn in BUILTIN_NO_KW and any(k == "kwsplat" for k, _, _ in shape):
                count += 1
                rep.refuted("R-C65-forward", rel, qn, st,
                            f"**{kwarg} is passed to the builtin {cn}() instead of to the mapped function: any keyword argument raises TypeError "
                            f"(reached for {execcls.name}: backend {kind} " + ("has" if _backend_has(kind, rc, 'starmap') else "has no") + " starmap)")
                continue
            slot = None
            if isinstance(callee, ast.Call) and isinstance(callee.func, ast.Attribute) and norm(callee.func.value) == "self" \
                    and callee.func.attr in ("_submit_fn", "_map_fn", "_starmap_fn"):
                slot = callee.func.attr[1:]
                bname = cfg.get(slot)
            elif isinstance(callee, ast.Name) and callee.id in fn_aliases:
                # backend_submit = self._submit_fn(exec_be); backend_submit(fn, …)
                slot = fn_aliases[callee.id]
                bname = cfg.get(slot)
            elif isinstance(callee, ast.Attribute) and isinstance(callee.value, ast.Name) and callee.value.id == "exec_be":
                slot, bname = "direct", callee.attr
            else:
                continue
            if not isinstance(bname, str):
                continue
            ordered, bshape = _shape_of(kind, rc, bname)
            if bshape is None:
                rep.unknown("R-C65-forward", where, f"no reference signature for {kind}.{bname}")
                continue
            count += 1
            args = shape[1:] if shape and shape[0][0] == "pos" else shape
            first = shape[0] if shape else None
            fn_ok = first is not None and first[0] == "pos" and (first[1] == fn or first[1] in partials)
            kw_via_partial = first is not None and first[1] in partials
            problems = []
            if not fn_ok:
                problems.append(("fn-not-first", f"first argument {first[1] if first else None!r} is not the user's function"))
            has_kwsplat = any(k == "kwsplat" and t == kwarg for k, t, _ in args)
            if bshape == "varargs":
                if vararg and any(k == "pos" and t == vararg for k, t, _ in args):
                    problems.append(("args-unstarred", f"`{vararg}` is passed unstarred to {kind}.{bname}(fn, *args, **kwargs): the function receives the whole tuple as one argument"))
                if kwarg and not has_kwsplat and not kw_via_partial:
                    problems.append(("kwargs-lost", f"**{kwarg} never reaches the function"))
            elif bshape == "apply":
                if vararg and any(k == "star" and t == vararg for k, t, _ in args):
                    problems.append(("args-starred-into-apply", f"`*{vararg}` is unpacked into {kind}.{bname}(func, args, kwds), whose second parameter is the argument tuple"))
                if has_kwsplat:
                    problems.append(("kwargs-into-apply", f"**{kwarg} is expanded into {kind}.{bname}'s own parameters (func, args, kwds) instead of being passed as the kwds dict: "
                                    "any keyword argument raises TypeError"))
            elif bshape == "iterables":
                if vararg and any(k == "pos" and t == vararg for k, t, _ in args):
                    problems.append(("iterables-unstarred", f"`{vararg}` (the tuple of iterables) is passed unstarred to {kind}.{bname}(fn, *iterables): it maps over the tuple, "
                                    "calling fn once per iterable instead of once per element"))
                if has_kwsplat and kind != "repo":
                    problems.append(("kwargs-into-backend", f"**{kwarg} is expanded into {kind}.{bname}'s own keyword parameters"))
                if kwarg and not has_kwsplat and not kw_via_partial:
                    problems.append(("kwargs-lost", f"**{kwarg} never reaches the function"))
            elif bshape == "one-iterable":
                if vararg and any(k == "pos" and t == vararg for k, t, _ in args):
                    problems.append(("iterables-unstarred", f"`{vararg}` (the tuple of iterables) is passed as the single iterable of {kind}.{bname}(func, iterable): it maps over "
                                    "the tuple, calling fn once per iterable instead of once per element"))
                if vararg and any(k == "star" and t == vararg for k, t, _ in args):
                    problems.append(("iterables-starred-into-pool-map", f"`*{vararg}` is unpacked into {kind}.{bname}(func, iterable, chunksize)"))
                if kwarg and not kw_via_partial:
                    problems.append(("kwargs-lost", f"**{kwarg} never reaches the function"))
            elif bshape == "tuples":
                if seq:
                    direct = any(k == "pos" and t in (seq, f"list({seq})", f"tuple({seq})") for k, t, _ in args)
                    transposed = any(k == "pos" and t.replace(" ", "").startswith(f"zip(*{seq}") for k, t, _ in args)
                    if transposed or any(k == "star" and t == seq for k, t, _ in args):
                        problems.append(("tuples-transposed", f"the sequence of argument tuples `{seq}` is transposed/unpacked before {kind}.{bname}(func, iterable_of_tuples): "
                                        "each tuple must be one call's arguments"))
                    elif not direct:
                        unknown_note = f"argument of {kind}.{bname} is derived from `{seq}` in a way this analysis does not model"
                        rep.unknown("R-C65-forward", where, unknown_note)
                if kwarg and not kw_via_partial and not (kind == "repo" and has_kwsplat):
                    problems.append(("kwargs-lost", f"**{kwarg} never reaches the function"))
            if problems:
                # the finding is identified by the statement AND the branch condition under which it runs: the
                # condition determines which inputs fail, so widening it is a different violation
                # locals are written by position of first binding (_1, _2, …): renaming a local is not a different violation
                ph = local_placeholders(f.node)
                guard = " and ".join((norm_renamed(t, ph) if pol else f"not ({norm_renamed(t, ph)})") for t, pol in conds) or "always"
                # the finding is identified by what is wrong and under which configuration branch, not by how the statement is spelled
                for pcode, p in problems:
                    text = f"{pcode} in the backend call  [when {guard}]"
                    rep.refuted("R-C65-forward", rel, qn, text, f"{p} (executor {execcls.name}, backend {kind}.{bname}; statement `{norm(st)[:80]}`)",
                                line=getattr(st, "lineno", 0), executor=execcls.name)
            else:
                rep.proved("R-C65-forward", where, f"binds as {kind}.{bname} [{bshape}]")
    return count
