"""C01 — operator representations describe one and the same linear map (partial).

R-C01-flag     a representation reported as available is produced, one reported as unavailable raises:
               an override of R/compute_R that can raise the matching ...UndefinedError on some path
               needs an instance-level has_<R> property; an always-raising override needs has_<R> False;
               constant flags must match the resolved override.
R-C01-symflag  wrappers in ops/op_math: the sub-object capabilities consulted by has_R contain every
               sub-object representation R() calls outside a try / a local capability guard.
R-C01-gen      generator spectrum versus the exact Fourier support of compute_matrix (E4 trigdom).
"""

from __future__ import annotations

import ast
from fractions import Fraction
from itertools import product

from .. import trigdom as T
from ..cfg import CFG, no_raise
from ..core import Report, norm
from ..index import ClassInfo, FuncInfo, has_decorator

REPS = {
    "matrix": ("MatrixUndefinedError", "has_matrix"),
    "compute_matrix": ("MatrixUndefinedError", "has_matrix"),
    "sparse_matrix": ("SparseMatrixUndefinedError", "has_sparse_matrix"),
    "compute_sparse_matrix": ("SparseMatrixUndefinedError", "has_sparse_matrix"),
    "decomposition": ("DecompositionUndefinedError", "has_decomposition"),
    "compute_decomposition": ("DecompositionUndefinedError", "has_decomposition"),
    "diagonalizing_gates": ("DiagGatesUndefinedError", "has_diagonalizing_gates"),
    "compute_diagonalizing_gates": ("DiagGatesUndefinedError", "has_diagonalizing_gates"),
    "generator": ("GeneratorUndefinedError", "has_generator"),
    "adjoint": ("AdjointUndefinedError", "has_adjoint"),
}
FLAG_METHODS = {}
for _m, (_e, _f) in REPS.items():
    FLAG_METHODS.setdefault(_f, []).append(_m)
CAP_OF = {"matrix": "has_matrix", "sparse_matrix": "has_sparse_matrix", "decomposition": "has_decomposition",
          "diagonalizing_gates": "has_diagonalizing_gates", "generator": "has_generator", "adjoint": "has_adjoint",
          "compute_diagonalizing_gates": "has_diagonalizing_gates"}  # fmt: skip

# named exceptions, each with the reason the class itself documents -------------------------------
# No class is exempt: TmpPauliRot's deliberate `has_matrix = False` over a working matrix() is a genuine
# deviation from the property as stated and is listed in known_findings.json instead of being skipped here.
FLAG_EXEMPT = {}
WRAPPER_DIR = "pennylane/ops/op_math/"
PAULI_NAMES = {"PauliX", "PauliY", "PauliZ"}
IDENTITY_NAMES = {"Identity"}


def _exc_name(r: ast.Raise):
    e = r.exc
    if isinstance(e, ast.Call):
        e = e.func
    if isinstance(e, ast.Attribute):
        return e.attr
    if isinstance(e, ast.Name):
        return e.id
    return None


def flag_status(c, flag):
    """('static', None) | ('property', cls) | ('const', bool, cls, node) | ('other', cls)"""
    dc, fl = c.lookup(flag, stop_at=T.BASE_STOP)
    if dc is None:
        return ("static", None)
    if isinstance(fl, FuncInfo):
        if has_decorator(fl.node, "property", "cached_property"):
            return ("property", dc)
        return ("other", dc)
    if isinstance(fl, ast.Constant) and isinstance(fl.value, bool):
        return ("const", fl.value, dc, fl)
    return ("other", dc)


def raise_profile(f: FuncInfo, err):
    """(#raise sites of `err` that escape the method, can the method return normally?)"""
    cfg = CFG(f.node, may_raise=no_raise)
    live = cfg.live()
    sites = [n for n in cfg.stmts("raise") if _exc_name(n.stmt) == err and cfg.raise_exit in cfg.reachable(n.id)]
    return sites, cfg.exit in live


def check_flag(ix, rep):
    rule = "R-C01-flag"
    n_sites = n_dyn = 0
    op_classes = [c for c in ix.classes if T.is_operator_class(c) and c.fq not in T.BASE_STOP]
    for c in op_classes:
        for m, (err, flag) in REPS.items():
            f = c.own_method(m)
            if f is None:
                continue
            sites, returns = raise_profile(f, err)
            if not sites:
                continue
            n_sites += len(sites)
            rep.analysed(c.module.relpath, f"{c.name}.{m}")
            st = flag_status(c, flag)
            where = f"{c.module.relpath}:{c.name}.{m} raises {err}"
            if (c.name, flag) in FLAG_EXEMPT:
                rep.exempt(rule, where, FLAG_EXEMPT[(c.name, flag)])
                continue
            if returns:
                if st[0] == "property":
                    n_dyn += 1
                    rep.proved(rule, where, f"{flag} is an instance-level property of {st[1].name}")
                elif st[0] == "static" or (st[0] == "const" and st[1] is True):
                    how = "is the class-level flag of the base class, which is True as soon as the method is overridden" if st[0] == "static" \
                        else f"is the constant True in {st[2].name}"
                    rep.refuted(rule, c.module.relpath, f"{c.name}.{m}", sites[0].stmt,
                                f"{c.name}.{m} raises {err} on some path and returns on another, but {flag} {how}: on the raising path the "
                                f"operator reports the representation as available and then raises (callers that test {flag} first are not protected)",
                                flag=flag)
                else:
                    rep.unknown(rule, where, f"{flag} is {st[0]} in {st[-1].name if isinstance(st[-1], ClassInfo) else '?'}; mixed raise/return not decided")
            else:
                if st[0] == "property" or (st[0] == "const" and st[1] is False):
                    n_dyn += 1
                    rep.proved(rule, where, f"always raises and {flag} is {'a property' if st[0] == 'property' else 'the constant False'}")
                elif st[0] == "static" or (st[0] == "const" and st[1] is True):
                    rep.refuted(rule, c.module.relpath, f"{c.name}.{m}", sites[0].stmt,
                                f"{c.name}.{m} raises {err} on every path but {flag} is statically True for the class", flag=flag)
                else:
                    rep.unknown(rule, where, f"{flag} is not a property or constant")
    # constant flags must match the resolved override
    n_const = 0
    for c in op_classes:
        for flag, methods in FLAG_METHODS.items():
            v = c.assigns.get(flag)
            if not (isinstance(v, ast.Constant) and isinstance(v.value, bool)):
                continue
            n_const += 1
            where = f"{c.module.relpath}:{c.name}.{flag} = {v.value}"
            if (c.name, flag) in FLAG_EXEMPT:
                rep.exempt(rule, where, FLAG_EXEMPT[(c.name, flag)])
                continue
            resolved = [(m, c.lookup(m, stop_at=T.BASE_STOP)) for m in methods]
            over = [(m, dc, f) for m, (dc, f) in resolved if isinstance(f, FuncInfo)]
            err = REPS[methods[0]][0]
            returning = [(m, dc) for m, dc, f in over if raise_profile(f, err)[1]]
            if flag == "has_decomposition":
                # the graph decomposition system can supply a rule through add_decomps(<Class>, ...)
                registered = any(isinstance(n, ast.Call) and norm(n.func).split(".")[-1] == "add_decomps" and n.args
                                 and norm(n.args[0]).split(".")[-1] == c.name for n in ast.walk(c.module.tree))
                if v.value and (returning or registered):
                    rep.proved(rule, where, "an override returns" if returning else "a decomposition rule is registered for the class")
                elif v.value:
                    rep.unknown(rule, where, "no override and no add_decomps(...) in the defining module")
                else:
                    rep.proved(rule, where, "reports no decomposition") if not returning else rep.unknown(rule, where, "an override can return")
                continue
            if v.value:
                if returning:
                    rep.proved(rule, where, f"resolved override {returning[0][1].name}.{returning[0][0]} returns")
                else:
                    rep.refuted(rule, c.module.relpath, f"{c.name}.{flag}", f"{flag} = True",
                                f"{c.name} sets {flag} = True but neither {' nor '.join(methods)} is overridden below the base class by a method that can return")
            else:
                if not returning:
                    rep.proved(rule, where, "no override that can return: the base method raises " + err)
                else:
                    m, dc = returning[0]
                    rep.refuted(rule, c.module.relpath, f"{c.name}.{flag}", f"{flag} = False",
                                f"{c.name} sets {flag} = False but the resolved {dc.name}.{m} returns a value instead of raising {err}: a representation "
                                "reported as unavailable is produced")
    rep.floor("raise sites of a matching ...UndefinedError in representation methods", n_sites, 21)
    rep.floor("raise sites covered by an instance-level/constant flag", n_dyn, 19)
    rep.floor("constant capability flags", n_const, 5)


# =============================================================================================
# R-C01-symflag


def _is_self(n):
    return isinstance(n, ast.Name) and n.id == "self"


def consulted_caps(c, f, depth=3, seen=()):
    """has_* names read on sub-objects (non-self receivers) by a flag property, following self.has_*"""
    out = set()
    for n in ast.walk(f.node):
        if isinstance(n, ast.Attribute) and n.attr.startswith("has_") and isinstance(n.ctx, ast.Load):
            if _is_self(n.value):
                if depth > 0 and n.attr not in seen:
                    _, g = c.lookup(n.attr)
                    if isinstance(g, FuncInfo):
                        out |= consulted_caps(c, g, depth - 1, seen + (n.attr,))
            else:
                out.add(n.attr)
    return out


def used_caps(ix, f):
    """(capability, receiver text, call node) for sub-object representation calls outside a try body
    and outside an if that tests the capability."""
    parents = {}
    for p in ast.walk(f.node):
        for ch in ast.iter_child_nodes(p):
            parents[ch] = p
    out = []
    for n in ast.walk(f.node):
        if not (isinstance(n, ast.Call) and isinstance(n.func, ast.Attribute) and n.func.attr in CAP_OF):
            continue
        recv = n.func.value
        if _is_self(recv) or (isinstance(recv, ast.Call) and norm(recv.func) == "super"):
            continue
        if isinstance(recv, (ast.Name, ast.Attribute)):
            root = recv
            while isinstance(root, ast.Attribute):
                root = root.value
            if isinstance(root, ast.Name) and root.id in f.module.names and root.id != "self":
                continue  # qp.adjoint(...), Operator.matrix(self): a module function / unbound class call, not a sub-object's method
        cap = CAP_OF[n.func.attr]
        cur, in_try, guarded = n, False, False
        while cur in parents:
            p = parents[cur]
            if isinstance(p, ast.Try) and cur in p.body:
                in_try = True
            if isinstance(p, (ast.If, ast.IfExp)) and cap in norm(p.test) and cur is not p.test:
                guarded = True
            cur = p
        if not in_try and not guarded:
            out.append((cap, norm(recv), n))
    return out


def check_symflag(ix, rep):
    rule = "R-C01-symflag"
    n_flags = n_calls = 0
    for c in ix.classes:
        if not c.module.relpath.startswith(WRAPPER_DIR) or not T.is_operator_class(c):
            continue
        for flag, methods in FLAG_METHODS.items():
            defines = c.own_method(flag) is not None or any(c.own_method(m) is not None for m in methods)
            if not defines:
                continue
            st = flag_status(c, flag)
            if st[0] != "property":
                continue
            _, hf = c.lookup(flag, stop_at=T.BASE_STOP)
            n_flags += 1
            cons = consulted_caps(c, hf)
            rep.analysed(c.module.relpath, f"{c.name}.{flag}")
            bad = False
            for m in methods:
                dc, f = c.lookup(m, stop_at=T.BASE_STOP)
                if not isinstance(f, FuncInfo):
                    continue
                for cap, recv, node in used_caps(ix, f):
                    n_calls += 1
                    if cap in cons:
                        continue
                    bad = True
                    rep.refuted(rule, dc.module.relpath, f"{c.name}.{flag}", node,
                                f"{dc.name}.{m} calls {recv}.{node.func.attr}() outside a try, but {c.name}.{flag} (defined in {st[1].name}) consults "
                                f"only {sorted(cons) or 'no sub-object capability'}: when the sub-object lacks {cap} the wrapper reports {flag} and then raises",
                                line=node.lineno)
            if not bad:
                rep.proved(rule, f"{c.module.relpath}:{c.name}.{flag}", f"consults {sorted(cons)}; every unguarded sub-object call is covered")
    rep.floor("wrapper capability properties examined", n_flags, 90)
    rep.floor("unguarded sub-object representation calls", n_calls, 35)


# =============================================================================================
# R-C01-gen


class _Unknown(Exception):
    pass


def _num(node):
    if isinstance(node, ast.Constant) and isinstance(node.value, (int, float)) and not isinstance(node.value, bool):
        c = T.cx_of(node.value)
        if c is None:
            raise _Unknown
        return c.re
    if isinstance(node, ast.UnaryOp) and isinstance(node.op, (ast.USub, ast.UAdd)):
        v = _num(node.operand)
        return -v if isinstance(node.op, ast.USub) else v
    if isinstance(node, ast.BinOp) and isinstance(node.op, (ast.Div, ast.Mult)):
        a, b = _num(node.left), _num(node.right)
        if isinstance(node.op, ast.Div):
            if not b:
                raise _Unknown
            return a / b
        return a * b
    raise _Unknown


def _word_kind(ix, module, node):
    """'pauli' (spectrum {+1,-1}), 'identity' ({+1}) for an operator expression; raises _Unknown."""
    if isinstance(node, ast.BinOp) and isinstance(node.op, ast.MatMult):
        kinds = {_word_kind(ix, module, node.left), _word_kind(ix, module, node.right)}
        return "pauli" if "pauli" in kinds else "identity"
    if isinstance(node, ast.Call):
        fn = norm(node.func).split(".")[-1]
        if fn == "string_to_pauli_word":
            return "pauli"
        if fn == "reduce" and len(node.args) == 2 and norm(node.args[0]).split(".")[-1] == "matmul" and isinstance(node.args[1], ast.ListComp):
            return _word_kind(ix, module, node.args[1].elt)
        r = ix.resolve_expr(module, node.func)
        if isinstance(r, ClassInfo):
            if r.name in PAULI_NAMES:
                return "pauli"
            if r.name in IDENTITY_NAMES:
                return "identity"
    raise _Unknown


def generator_spectrum(ix, g: FuncInfo):
    """-> (set of candidate eigenvalues, single_term: bool) of the operator returned by generator()"""
    rets = [n for n in ast.walk(g.node) if isinstance(n, ast.Return) and n.value is not None]
    if len(rets) != 1:
        raise _Unknown
    v = rets[0].value
    m = g.module
    if isinstance(v, ast.Call):
        fn = norm(v.func).split(".")[-1]
        if fn == "Hamiltonian" and len(v.args) == 2 and isinstance(v.args[0], ast.List) and isinstance(v.args[1], ast.List) \
                and len(v.args[0].elts) == len(v.args[1].elts) and v.args[0].elts:
            coeffs = [_num(e) for e in v.args[0].elts]
            kinds = [_word_kind(ix, m, e) for e in v.args[1].elts]
            if len(coeffs) > 10:
                raise _Unknown
            signs = [(1, -1) if k == "pauli" else (1,) for k in kinds]
            spec = {sum(s * c for s, c in zip(ss, coeffs)) for ss in product(*signs)}
            return spec, len(coeffs) == 1
        if fn == "Projector" and v.args:
            return {Fraction(0), Fraction(1)}, True
        if fn == "s_prod" and len(v.args) == 2:
            c = _num(v.args[0])
            k = _word_kind(ix, m, v.args[1])
            return ({c, -c} if k == "pauli" else {c}), True
    if isinstance(v, ast.BinOp) and isinstance(v.op, ast.Mult):
        for a, b in ((v.left, v.right), (v.right, v.left)):
            try:
                c = _num(a)
                k = _word_kind(ix, m, b)
                return ({c, -c} if k == "pauli" else {c}), True
            except _Unknown:
                continue
    raise _Unknown


def check_gen(ix, rep):
    rule = "R-C01-gen"
    n_cmp = n_eq = 0
    for c in ix.classes:
        if not T.is_operator_class(c) or c.fq in T.BASE_STOP:
            continue
        dc, g = c.lookup("generator", stop_at=T.BASE_STOP)
        if not isinstance(g, FuncInfo) or dc is not c and c.own_method("compute_matrix") is None:
            continue
        where = f"{c.module.relpath}:{c.name}.generator"
        try:
            spec, single = generator_spectrum(ix, g)
        except _Unknown:
            continue  # not one of the recognised single-/multi-term forms
        info = T.analyse_matrix(ix, c)
        if info.node is None or len(info.params) != 1:
            rep.unknown(rule, where, f"no one-parameter compute_matrix to compare with ({info.why})")
            continue
        p = info.params[0]
        sup = info.support[p]
        rep.analysed(c.module.relpath, f"{c.name}.generator")
        rep.analysed(info.node.module.relpath, info.node.qualname)
        if sup.freqs is None:
            rep.unknown(rule, where, f"matrix support is Top ({info.why})")
            continue
        n_cmp += 1
        F = set(sup.freqs)
        fmt = lambda s: "{" + ", ".join(str(x) for x in sorted(s)) + "}"  # noqa: E731
        if single and sup.exact:
            if F == spec:
                n_eq += 1
                rep.proved(rule, where, f"spec(generator) = {fmt(spec)} = Fourier support of {info.node.qualname}")
            else:
                rep.refuted(rule, c.module.relpath, f"{c.name}.generator", g.node,
                            f"{c.name}: the generator's spectrum is {fmt(spec)} but the exact Fourier support of {info.node.qualname} in `{p}` is "
                            f"{fmt(F)}: the matrix is not exp(i*{p}*generator) (a sign, a factor or a Pauli letter differs)", line=g.node.lineno)
        elif F <= spec:
            n_eq += 1
            rep.proved(rule, where, f"Fourier support {fmt(F)}{'' if sup.exact else '~'} ⊆ candidate spectrum {fmt(spec)} of the {'single' if single else 'multi'}-term generator")
        elif sup.exact:
            rep.refuted(rule, c.module.relpath, f"{c.name}.generator", g.node,
                        f"{c.name}: the exact Fourier support {fmt(F)} of {info.node.qualname} in `{p}` contains frequencies outside the values "
                        f"{fmt(spec)} that a generator with these coefficients can have: the matrix is not exp(i*{p}*generator)", line=g.node.lineno)
        else:
            rep.unknown(rule, where, f"support {fmt(F)}~ is an over-approximation; not contained in {fmt(spec)}")
    rep.floor("generator/matrix pairs compared", n_cmp, 21)
    rep.floor("generator/matrix pairs proved", n_eq, 21)


# =============================================================================================
# R-C01-pure

PURE_REPS = {"matrix", "sparse_matrix", "eigvals", "diagonalizing_gates", "decomposition", "generator", "terms"}
PURE_METHODS = PURE_REPS | {"compute_" + r for r in PURE_REPS}
# calls that may hand back their argument itself (no copy) or a view sharing its memory
PASS_THROUGH_FUNCS = {"asarray", "asanyarray", "cast_like", "convert_like", "cast", "real", "imag", "conj", "conjugate", "transpose",
                      "reshape", "ravel", "squeeze", "atleast_1d", "atleast_2d", "expand_dims", "moveaxis", "swapaxes", "diagonal",
                      "csr_matrix", "csc_matrix", "coo_matrix", "csr_array", "unwrap", "stop_gradient"}  # fmt: skip
PASS_THROUGH_METHODS = {"asformat", "tocsr", "tocsc", "tocoo", "reshape", "ravel", "squeeze", "transpose", "view", "conj", "conjugate",
                        "swapaxes", "diagonal", "astype"}  # fmt: skip
PASS_THROUGH_ATTRS = {"T", "real", "imag", "data", "indices", "indptr", "flat", "mT"}
INPLACE_METHODS = {"sort", "resize", "setdiag", "fill", "itemset", "put", "partition", "sort_indices", "sum_duplicates", "setfield",
                   "byteswap", "__setitem__", "__imul__", "__iadd__", "__isub__"}  # fmt: skip
INPLACE_FUNCS = {"copyto", "fill_diagonal", "put", "place", "putmask", "put_along_axis"}  # first argument is written


def _root(node):
    while isinstance(node, (ast.Attribute, ast.Subscript)):
        node = node.value
    return node


def sub_rep_call(f: FuncInfo, node):
    """Is ``node`` a representation call on a sub-object (not on self / super() / a module)?  -> text or None"""
    if not isinstance(node, ast.Call):
        return None
    fn = node.func
    if isinstance(fn, ast.Attribute) and fn.attr in PURE_METHODS:
        recv = fn.value
        if _is_self(recv) or (isinstance(recv, ast.Call) and norm(recv.func) == "super"):
            return None
        r = _root(recv)
        if isinstance(r, ast.Name) and r.id != "self" and r.id in f.module.names:
            # qp.matrix(sub) / qp.eigvals(sub): the functional form hands back the sub-object's own result
            if node.args and fn.attr in PURE_REPS and not _is_self(node.args[0]) and f.module.names[r.id][0] in ("import", "from") \
                    and isinstance(node.args[0], (ast.Name, ast.Attribute, ast.Subscript)):
                return norm(node)[:60]
            return None
        if isinstance(r, ast.Call):
            return None
        return f"{norm(recv)}.{fn.attr}()"
    return None


class PureScan:
    """flow-sensitive may-alias scan of one method: names that may still refer to (a view of) a value a
    sub-object handed out; every in-place operation on such a name is a sink."""

    def __init__(self, f: FuncInfo):
        self.f = f
        self.sources = []  # (text, node)
        self.sinks = []  # (node, what, origin text)

    def origin(self, node, env):
        """origin text if the expression may be (a view of) a sub-object's value, else None"""
        if isinstance(node, ast.Name):
            return env.get(node.id)
        t = sub_rep_call(self.f, node)
        if t is not None:
            self.sources.append((t, node))
            return t
        if isinstance(node, ast.Attribute) and node.attr in PASS_THROUGH_ATTRS:
            return self.origin(node.value, env)
        if isinstance(node, ast.Subscript):
            return self.origin(node.value, env)  # element / slice view of a tainted container
        if isinstance(node, ast.Call):
            fn = node.func
            if isinstance(fn, ast.Attribute) and fn.attr in PASS_THROUGH_METHODS:
                o = self.origin(fn.value, env)
                if o:
                    return o
            last = fn.attr if isinstance(fn, ast.Attribute) else (fn.id if isinstance(fn, ast.Name) else None)
            if last in PASS_THROUGH_FUNCS and node.args:
                return self.origin(node.args[0], env)
            return None
        if isinstance(node, ast.IfExp):
            return self.origin(node.body, env) or self.origin(node.orelse, env)
        if isinstance(node, (ast.List, ast.Tuple)):
            for e in node.elts:
                o = self.origin(e.value if isinstance(e, ast.Starred) else e, env)
                if o:
                    return o
            return None
        if isinstance(node, (ast.ListComp, ast.GeneratorExp)):
            sub = dict(env)
            for g in node.generators:
                o = self.origin(g.iter, sub)
                for nm in ast.walk(g.target):
                    if isinstance(nm, ast.Name):
                        sub[nm.id] = o
            return self.origin(node.elt, sub)
        if isinstance(node, ast.NamedExpr):
            return self.origin(node.value, env)
        return None

    def visit_expr(self, node, env):
        """sinks inside an expression: in-place method calls, out=, numpy writers; also registers sources"""
        for n in ast.walk(node):
            if not isinstance(n, ast.Call):
                continue
            sub_rep_call(self.f, n) and self.sources.append((sub_rep_call(self.f, n), n))
            fn = n.func
            if isinstance(fn, ast.Attribute) and fn.attr in INPLACE_METHODS:
                o = self.origin(fn.value, env)
                if o:
                    self.sinks.append((n, f".{fn.attr}() modifies its receiver in place", o))
            for kw in n.keywords:
                if kw.arg == "out":
                    o = self.origin(kw.value, env)
                    if o:
                        self.sinks.append((n, "out= writes into it", o))
            last = fn.attr if isinstance(fn, ast.Attribute) else (fn.id if isinstance(fn, ast.Name) else None)
            if last in INPLACE_FUNCS and n.args and not (isinstance(fn, ast.Attribute) and self.origin(fn.value, env)):
                o = self.origin(n.args[0], env)
                if o:
                    self.sinks.append((n, f"{last}() writes into its first argument", o))

    def bind(self, target, o, env):
        if isinstance(target, ast.Name):
            if o:
                env[target.id] = o
            else:
                env.pop(target.id, None)
        elif isinstance(target, (ast.Tuple, ast.List)):
            for e in target.elts:
                self.bind(e.value if isinstance(e, ast.Starred) else e, o, env)

    def run(self, stmts, env):
        for st in stmts:
            if isinstance(st, (ast.FunctionDef, ast.AsyncFunctionDef, ast.ClassDef)):
                continue
            if isinstance(st, ast.Assign):
                self.visit_expr(st.value, env)
                o = self.origin(st.value, env)
                for t in st.targets:
                    if isinstance(t, (ast.Subscript, ast.Attribute)):
                        to = self.origin(t.value, env)
                        if to:
                            kind = "subscript store" if isinstance(t, ast.Subscript) else f"attribute store .{t.attr} ="
                            self.sinks.append((st, f"{kind} writes into it", to))
                    else:
                        self.bind(t, o, env)
                continue
            if isinstance(st, ast.AnnAssign):
                if st.value is not None:
                    self.visit_expr(st.value, env)
                    self.bind(st.target, self.origin(st.value, env), env)
                continue
            if isinstance(st, ast.AugAssign):
                self.visit_expr(st.value, env)
                t = st.target
                to = self.origin(t, env) if isinstance(t, ast.Name) else self.origin(t.value, env)
                if to:
                    self.sinks.append((st, f"augmented assignment `{norm(t)} {_AUG.get(type(st.op), '?')}= ...` operates in place", to))
                continue
            if isinstance(st, ast.If):
                self.visit_expr(st.test, env)
                e1, e2 = dict(env), dict(env)
                self.run(st.body, e1)
                self.run(st.orelse, e2)
                env.clear()
                env.update({**e2, **e1})  # may-alias: union
                continue
            if isinstance(st, (ast.For, ast.AsyncFor)):
                self.visit_expr(st.iter, env)
                o = self.origin(st.iter, env)
                for _ in range(2):
                    self.bind(st.target, o, env)
                    self.run(st.body, env)
                self.run(st.orelse, env)
                continue
            if isinstance(st, ast.While):
                self.visit_expr(st.test, env)
                for _ in range(2):
                    self.run(st.body, env)
                self.run(st.orelse, env)
                continue
            if isinstance(st, (ast.With, ast.AsyncWith)):
                for it in st.items:
                    self.visit_expr(it.context_expr, env)
                self.run(st.body, env)
                continue
            if isinstance(st, ast.Try):
                self.run(st.body, env)
                for h in st.handlers:
                    self.run(h.body, env)
                self.run(st.orelse, env)
                self.run(st.finalbody, env)
                continue
            for ch in ast.iter_child_nodes(st):
                if isinstance(ch, ast.expr):
                    self.visit_expr(ch, env)
                    # a bare expression can still create a source (counted by visit_expr)
        return env


_AUG = {ast.Add: "+", ast.Sub: "-", ast.Mult: "*", ast.MatMult: "@", ast.Div: "/", ast.Pow: "**", ast.BitOr: "|", ast.BitAnd: "&",
        ast.FloorDiv: "//", ast.Mod: "%", ast.BitXor: "^", ast.LShift: "<<", ast.RShift: ">>"}  # fmt: skip


def check_pure(ix, rep):
    rule = "R-C01-pure"
    n_methods = n_sources = 0
    for c in ix.classes:
        if not T.is_operator_class(c) or c.fq in T.BASE_STOP:
            continue
        for m in sorted(PURE_METHODS):
            f = c.own_method(m)
            if f is None:
                continue
            ps = PureScan(f)
            ps.run(f.node.body, {})
            srcs = {id(n): t for t, n in ps.sources}
            if not srcs:
                continue
            n_methods += 1
            n_sources += len(srcs)
            rep.analysed(c.module.relpath, f"{c.name}.{m}")
            seen = set()
            for node, what, origin in ps.sinks:
                if id(node) in seen:
                    continue
                seen.add(id(node))
                rep.refuted(rule, c.module.relpath, f"{c.name}.{m}", node,
                            f"{c.name}.{m} modifies in place a value handed out by a sub-object ({origin}): {what}. If the sub-object returns "
                            "stored data (SparseHamiltonian.sparse_matrix, Hermitian.matrix, QubitUnitary...) a later query of the sub-object "
                            "describes a different linear map", line=getattr(node, "lineno", 0))
            if not ps.sinks:
                rep.proved(rule, f"{c.module.relpath}:{c.name}.{m}", f"{len(srcs)} sub-object representation call(s), no in-place operation on their values")
    rep.floor("representation methods that query a sub-object's representation", n_methods, 53)
    rep.floor("(method, sub-object representation call) sites", n_sources, 55)


def check(ctx):
    ix = ctx.index
    rep = Report("C01", "a representation the operator reports as available is always produced and one it reports as unavailable raises "
                 "the documented error; for parametrized gates the Fourier support of the matrix equals the spectrum of the generator.")
    rep.rule("R-C01-flag", "for every operator class C and method m in {matrix, compute_matrix, sparse_matrix, compute_sparse_matrix, "
             "decomposition, compute_decomposition, diagonalizing_gates, compute_diagonalizing_gates, generator, adjoint} defined in C whose "
             "CFG (explicit raise edges) lets the matching ...UndefinedError escape: if m can also return, has_<R> must be an instance-level "
             "property below the base classes; if m always raises, has_<R> must be False or a property; a constant has_<R> must agree with "
             "the resolved override (named exception: " + ", ".join(f"{a}.{b}" for a, b in FLAG_EXEMPT) + ")")
    rep.rule("R-C01-symflag", "for wrapper classes in ops/op_math with a has_<R> property: every sub-object representation call "
             "(<sub>.matrix(), .sparse_matrix(), .decomposition(), .diagonalizing_gates(), .generator(), .adjoint()) made by R()/compute_R() "
             "outside a try body and outside an if testing that capability must be among the sub-object capabilities has_<R> consults")
    rep.rule("R-C01-gen", "for classes whose generator() returns Hamiltonian([c..],[Pauli words]), c*PauliWord, s_prod(c, I) or Projector(...) "
             "and whose one-parameter compute_matrix E4 resolves: single-term generator and exact support ⇒ support == spectrum; otherwise "
             "support ⊆ {Σ ±c_i}; a violated inclusion/equality with an exact support is refuted")
    rep.rule("R-C01-pure", "in every representation method (matrix, sparse_matrix, eigvals, diagonalizing_gates, decomposition, generator, "
             "terms and their compute_* variants) of every operator class, a value obtained from a sub-object's representation call "
             "(<sub>.<rep>(...), <sub>.compute_<rep>(...), qp.<rep>(<sub>), local aliases, views and elements of it; flow-sensitive "
             "may-alias over straight-line code, branches and loops) is never the target of an in-place operation: augmented assignment, "
             "attribute/subscript store, in-place method (sort, resize, setdiag, fill, ...), out=, numpy writers")
    rep.assume("only explicit raise statements are followed (a callee raising the error is not seen); eigvals/pow have no capability flag")
    rep.assume("E4 assumptions (scalar parameters, non-zero unknown constants); Pauli words have spectrum {+1,-1}, Identity {+1}, Projector {0,1}")
    check_flag(ix, rep)
    check_symflag(ix, rep)
    check_gen(ix, rep)
    check_pure(ix, rep)
    return rep
