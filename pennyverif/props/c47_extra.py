"""C47 (second part) — the additive combinators do not change their operands, and bookkeeping state is per call.

R-C47-pure     E2 effect analysis rooted at `self` and `other` of Resources.add_series / add_parallel / multiply_* /
               __add__ / __and__ / __mul__ / __matmul__ and the other non-constructor methods: no write through the operands'
               gate_types (the mapping gate -> count) nor to their attributes.  If `a + b` changed `a`, a part reused in a
               later sum would be counted twice: total(a + b) + total(a + c) != 2·total(a) + total(b) + total(c).
R-C47-percall  a WireResourceManager (mutable wire bookkeeping) is created inside the function that runs one estimation;
               a factory that creates it once and returns a closure using it leaks any-state / zeroed counts from one call
               of the returned callable into the next.
"""

from __future__ import annotations

import ast

from ..astutil import call_name
from ..core import norm
from ..effects import Engine, Spec, T

RB = "pennylane/estimator/resources_base.py"
EST = "pennylane/estimator/"
RES_SPEC = Spec(
    name="Resources operand",
    alias_attrs=frozenset({"gate_types"}),
    root_classes=frozenset({"Resources"}),
    share_attrs=frozenset({"gate_types"}),
)
CTOR_LIKE = {"__init__", "__new__", "__post_init__"}


def extra(ctx, rep):
    ix = ctx.index
    rep.rule("R-C47-pure", "no method of Resources other than its constructor writes through `self` / `other` (attributes, the gate_types mapping) "
             "or stores an operand's gate_types mapping in the result without copying it (E2 effect analysis, helpers summarised)")
    cls = ix.cls(RB, "Resources")
    eng = Engine(ix, RES_SPEC, max_depth=4)
    n = 0
    for name, fl in sorted(cls.methods.items()):
        if name in CTOR_LIKE:
            continue
        for f in fl:
            params = [a.arg for a in f.node.args.args]
            if not params or params[0] != "self":
                continue
            n += 1
            rep.analysed(RB, f.qualname)
            env = {"self": {T}}
            for p in params[1:]:
                ann = next((a.annotation for a in f.node.args.args if a.arg == p), None)
                if p == "other" or (ann is not None and "Resources" in norm(ann)):
                    env[p] = {T}
            res = eng.analyse(f, env)
            if not res.sinks:
                rep.proved("R-C47-pure", f"{RB}:{f.qualname}", "operands are only read")
            for s in res.sinks:
                rep.refuted("R-C47-pure", RB, f.qualname, s.node,
                            f"Resources.{name} {s.why}: combining resources changes an operand, so a part that is reused in another sum or product is "
                            "counted with the wrong gate counts afterwards (additivity over parts fails)", line=s.line)
    rep.floor("Resources methods analysed for operand purity", n, 8)

    rep.rule("R-C47-percall", "every `WireResourceManager(...)` in the estimator is created in the innermost function that uses it: never in a factory "
             "whose returned closure reads or updates it")
    m = 0
    for mod in ix.modules.values():
        if not mod.relpath.startswith(EST) or "WireResourceManager(" not in mod.source:
            continue
        for f in ix.funcs_in(mod):
            for st in ast.walk(f.node):
                if not (isinstance(st, ast.Assign) and isinstance(st.value, ast.Call) and (call_name(st.value) or "").split(".")[-1] == "WireResourceManager"
                        and len(st.targets) == 1 and isinstance(st.targets[0], ast.Name)):
                    continue
                # only creations that belong to f itself (not to a nested def)
                owner = f
                nested = [g for g in ix.funcs_in(mod) if g.parent is f]
                if any(st in list(ast.walk(g.node)) for g in nested):
                    continue
                m += 1
                var = st.targets[0].id
                rep.analysed(mod.relpath, f.qualname)
                users = [g for g in nested if any(isinstance(x, ast.Name) and x.id == var for x in ast.walk(g.node))
                         and not any(isinstance(x, ast.Name) and x.id == var and isinstance(x.ctx, ast.Store) for x in ast.walk(g.node))]
                returned = {x.value.id for x in ast.walk(f.node) if isinstance(x, ast.Return) and isinstance(x.value, ast.Name)}
                leaked = [g for g in users if g.name in returned]
                where = f"{mod.relpath}:{owner.qualname} `{norm(st)[:60]}`"
                if leaked:
                    rep.refuted("R-C47-percall", mod.relpath, f.qualname, st,
                                f"the wire manager is created once in {f.name} and used by the returned closure `{leaked[0].name}`: every call of the "
                                "returned callable continues from the counts the previous call left behind (any-state wires accumulate), so the "
                                "reported wire counts depend on how often the callable was used before", line=st.lineno)
                else:
                    rep.proved("R-C47-percall", where, "created in the function that performs the estimation")
    rep.floor("WireResourceManager creation sites", m, 2)


def collapse(ctx, rep):
    """R-C47-collapse — a sequence of (operator, count) pairs that a resource operator builds with zip(...) (one entry per factor,
    repeats allowed) is never turned into a last-wins mapping (`dict(pairs)`, `{op: n for op, n in pairs}`) whose items become the
    gate counts: repeated factors would keep only the last count and the total would no longer be the sum over the parts."""
    ix = ctx.index
    rep.rule("R-C47-collapse", "in pennylane/estimator: a (operator, count) pair sequence built by zip(...) in a class's constructor is not "
             "converted into a last-wins dict (dict(pairs) / identity dict comprehension) whose items are emitted as GateCount(op, count)")
    n_cls = 0
    for m in ix.modules.values():
        if not m.relpath.startswith(EST) or "zip(" not in m.source:
            continue
        for cls in m.classes.values():
            pair_attrs = set()
            for fl in cls.methods.values():
                for f in (fl if isinstance(fl, list) else [fl]):
                    if f.name != "__init__":
                        continue
                    for st in ast.walk(f.node):
                        if isinstance(st, ast.Assign) and len(st.targets) == 1 and isinstance(st.targets[0], ast.Attribute) \
                                and isinstance(st.targets[0].value, ast.Name) and st.targets[0].value.id == "self":
                            v = st.value
                            if isinstance(v, ast.Call) and call_name(v) in ("tuple", "list") and v.args:
                                v = v.args[0]
                            if isinstance(v, ast.Call) and call_name(v) == "zip" and len(v.args) == 2:
                                pair_attrs.add(st.targets[0].attr)
            if not pair_attrs:
                continue
            n_cls += 1
            for fl in cls.methods.values():
                for f in (fl if isinstance(fl, list) else [fl]):
                    if f.name == "__init__":
                        continue
                    params = {a.arg for a in f.node.args.posonlyargs + f.node.args.args + f.node.args.kwonlyargs}

                    def is_pairs(e):
                        return (isinstance(e, ast.Name) and e.id in pair_attrs and e.id in params) or (
                            isinstance(e, ast.Attribute) and e.attr in pair_attrs and isinstance(e.value, ast.Name) and e.value.id == "self")
                    maps = {}
                    for st in ast.walk(f.node):
                        if isinstance(st, ast.Assign) and len(st.targets) == 1 and isinstance(st.targets[0], ast.Name):
                            v = st.value
                            if isinstance(v, ast.Call) and call_name(v) == "dict" and len(v.args) == 1 and not v.keywords and is_pairs(v.args[0]):
                                maps[st.targets[0].id] = st
                            elif isinstance(v, ast.DictComp) and len(v.generators) == 1 and is_pairs(v.generators[0].iter) and not v.generators[0].ifs \
                                    and isinstance(v.generators[0].target, ast.Tuple) and len(v.generators[0].target.elts) == 2 \
                                    and norm(v.key) == norm(v.generators[0].target.elts[0]) and norm(v.value) == norm(v.generators[0].target.elts[1]):
                                maps[st.targets[0].id] = st
                    emitted = False
                    for n in ast.walk(f.node):
                        gens = n.generators if isinstance(n, (ast.ListComp, ast.GeneratorExp)) else ([n] if isinstance(n, ast.For) else [])
                        for g in gens:
                            it = g.iter
                            if isinstance(it, ast.Call) and isinstance(it.func, ast.Attribute) and it.func.attr == "items" \
                                    and isinstance(it.func.value, ast.Name) and it.func.value.id in maps:
                                tg = g.target
                                body = [n.elt] if not isinstance(n, ast.For) else n.body
                                if isinstance(tg, ast.Tuple) and len(tg.elts) == 2 and any(
                                        isinstance(c, ast.Call) and (call_name(c) or "").split(".")[-1] == "GateCount"
                                        and [norm(a) for a in c.args[:2]] == [norm(tg.elts[0]), norm(tg.elts[1])]
                                        for b in body for c in ast.walk(b)):
                                    emitted = True
                                    rep.refuted("R-C47-collapse", m.relpath, f.qualname, maps[it.func.value.id],
                                                f"`{norm(maps[it.func.value.id])[:70]}` keeps one count per distinct operator (the last one) of a pair "
                                                f"sequence that {cls.name}.__init__ builds with zip(...) — one entry per factor, repeats allowed — and its items "
                                                "become the gate counts: the counts of repeated factors are lost, the total is no longer the sum over the parts",
                                                line=maps[it.func.value.id].lineno)
                    if not emitted and any(is_pairs(x) for x in ast.walk(f.node)):
                        rep.proved("R-C47-collapse", f"{m.relpath}:{f.qualname}", "pair sequence is iterated entry by entry (no last-wins mapping feeds the gate counts)")
    rep.floor("estimator classes holding a zip-built (operator, count) pair sequence", n_cls, 1)
