"""C41 — queuing records exactly the program's operations, in the innermost context.

Decides the stack / pairing / ownership clauses; program order itself is Python evaluation order.
"""

from __future__ import annotations

import ast

from ..astutil import call_name, method_call, names_in
from ..cfg import CFG, walk_shallow
from ..core import AnalysisError, Report, norm
from ..index import FuncInfo

QMOD = "pennylane/core/queuing.py"
LIST_MUTATORS = {"append", "extend", "insert", "pop", "remove", "clear", "sort", "reverse", "__iadd__"}
STACK = "_active_contexts"
OP_BASES = ("Operator", "Operator2", "MeasurementProcess")
# operands that receive .map_wires but are not queueable objects (named exceptions, one reason each)
NOT_QUEUED = {
    ("Conditional", "meas_val"): "a MeasurementValue (classical expression over mid-circuit outcomes); it is never put in a queue",
}


def _attr_chain_has(node, attr):
    return isinstance(node, ast.Attribute) and node.attr == attr


def _stack_writes(func_node):
    """Statements in ``func_node`` that write the stack attribute: (kind, stmt_or_expr)."""
    out = []
    for n in walk_shallow(func_node):
        if isinstance(n, (ast.Assign, ast.AnnAssign, ast.AugAssign)):
            tgts = n.targets if isinstance(n, ast.Assign) else [n.target]
            for t in tgts:
                if _attr_chain_has(t, STACK):
                    out.append(("assign", n))
                elif isinstance(t, ast.Subscript) and _attr_chain_has(t.value, STACK):
                    out.append(("setitem", n))
        elif isinstance(n, ast.Delete):
            for t in n.targets:
                if _attr_chain_has(t, STACK) or (isinstance(t, ast.Subscript) and _attr_chain_has(t.value, STACK)):
                    out.append(("del", n))
        elif isinstance(n, ast.Call):
            r = method_call(n)
            if r and r[1] in LIST_MUTATORS and _attr_chain_has(r[0], STACK):
                out.append((r[1], n))
    return out


def _is_call_to(n, name):
    return isinstance(n, ast.Call) and isinstance(n.func, ast.Attribute) and n.func.attr == name


def _stmt_calls(stmt, name):
    return any(_is_call_to(n, name) for n in walk_shallow(stmt))


def check(ctx):
    ix = ctx.index
    rep = Report("C41", "operations are recorded only in the innermost active context, nothing is recorded under "
                 "stop_recording, consumed operands are recorded only through their wrapper, qp.apply re-queues a "
                 "copy, and the context stack is restored after exceptions (stack / pairing / ownership facts).")
    rep.rule("R-C41-stack", "the context stack is written only by the push method (append), the pop method (pop) and the "
             "stop_recording generator (swap, restored on every exit); the push is called only from __enter__ methods, "
             "on every normal path and with nothing that may raise after it; the matching __exit__ pops exactly once on "
             "every path and before anything that may raise")
    rep.rule("R-C41-inner", "QueuingManager.append/remove/update_info/get_info delegate only to the top of the stack "
             "(index -1) and only when recording; stop_recording installs an empty stack")
    rep.rule("R-C41-own", "every queue() override appends self at most once per path (and on every recording path), and every "
             "operator-valued operand the class maps in map_wires is dequeued in queue() or in __init__")
    rep.rule("R-C41-apply", "queuing.apply queues a copy of its argument: the copy dominates every queue/append call")
    rep.assume("may-raise = any call other than <lock>.acquire/<lock>.release; attribute access and plain assignments do not raise")
    rep.assume("operands are discovered from the class's own map_wires (operator-valued hyperparameters receive .map_wires); "
               "classes whose map_wires cannot be read contribute no ownership obligation")

    qm = ix.module(QMOD)
    QM = ix.cls(QMOD, "QueuingManager")
    rep.analysed(qm.relpath)

    # ------------------------------------------------------------------ R-C41-stack: writers
    writers = {}
    for mod in ix.modules.values():
        if STACK not in mod.source:
            continue
        for f in ix.funcs_in(mod):
            ws = _stack_writes(f.node)
            if ws:
                writers[(mod.relpath, f.qualname)] = (f, ws)
        # module-level writes
        for st in mod.tree.body:
            if not isinstance(st, (ast.FunctionDef, ast.AsyncFunctionDef, ast.ClassDef)):
                for kind, n in _stack_writes(st):
                    rep.refuted("R-C41-stack", mod.relpath, "<module>", n, "module-level write to the recording stack")
    push_methods, pop_methods, swap_methods = [], [], []
    for (rel, qn), (f, ws) in sorted(writers.items()):
        if f.cls is not QM:
            for kind, n in ws:
                rep.refuted("R-C41-stack", rel, qn, n,
                            f"writes the recording stack ({kind}) outside QueuingManager: contexts pushed/popped here bypass the pairing discipline")
            continue
        kinds = [k for k, _ in ws]
        if kinds == ["append"]:
            push_methods.append(f)
            rep.proved("R-C41-stack", f"{rel}:{qn}", "push method (append only)")
        elif kinds == ["pop"] and not ws[0][1].args:
            pop_methods.append(f)
            rep.proved("R-C41-stack", f"{rel}:{qn}", "pop method (pop() of the top only)")
        elif all(k == "assign" for k in kinds):
            swap_methods.append((f, ws))
        else:
            for kind, n in ws:
                rep.refuted("R-C41-stack", rel, qn, n, f"unexpected mutation of the recording stack ({kind})")
    rep.floor("stack writers inside QueuingManager (push, pop, swap)", len(push_methods) + len(pop_methods) + len(swap_methods), 3)
    push_names = {f.name for f in push_methods}
    pop_names = {f.name for f in pop_methods}

    # swap methods: restored on every exit
    for f, ws in swap_methods:
        rep.analysed(qm.relpath, f.qualname)
        is_cm = any((isinstance(d, ast.Name) and d.id == "contextmanager") or (isinstance(d, ast.Attribute) and d.attr == "contextmanager")
                    for d in f.node.decorator_list)
        if not is_cm:
            for _, n in ws:
                rep.refuted("R-C41-stack", qm.relpath, f.qualname, n, "replaces the recording stack outside a scoped context manager")
            continue
        cfg = CFG(f.node)
        nodes = [nd for nd in cfg.stmts("stmt") if isinstance(nd.stmt, ast.Assign) and any(_attr_chain_has(t, STACK) for t in nd.stmt.targets)]
        # saved copies: name = cls._active_contexts
        saved = set()
        for nd in cfg.stmts("stmt"):
            if isinstance(nd.stmt, ast.Assign) and _attr_chain_has(nd.stmt.value, STACK):
                saved |= {t.id for t in nd.stmt.targets if isinstance(t, ast.Name)}

        def is_restore(nd):
            return (nd.kind == "stmt" and isinstance(nd.stmt, ast.Assign) and any(_attr_chain_has(t, STACK) for t in nd.stmt.targets)
                    and isinstance(nd.stmt.value, ast.Name) and nd.stmt.value.id in saved)

        swaps = [nd for nd in nodes if not is_restore(nd)]
        if not swaps:
            rep.unknown("R-C41-stack", f"{qm.relpath}:{f.qualname}", "no swap statement recognised")
        for sw in swaps:
            bad = None
            for ex, name in ((cfg.exit, "normal exit"), (cfg.raise_exit, "exceptional exit")):
                p = cfg.path_avoiding(sw.id, ex, is_restore)
                if p is not None:
                    bad = (name, p)
                    break
            if bad:
                via = " -> ".join(f"L{x.line}" for x in bad[1] if x.stmt is not None)
                rep.refuted("R-C41-stack", qm.relpath, f.qualname, sw.stmt,
                            f"the swapped-out recording stack is not restored on the {bad[0]} (path {via}): an exception inside "
                            "the block leaves recording disabled / the stack lost")
            else:
                rep.proved("R-C41-stack", f"{qm.relpath}:{f.qualname} swap", "restored on every path to both exits")
            # R-C41-inner: installs an empty stack
            v = sw.stmt.value
            empty = (isinstance(v, ast.List) and not v.elts) or (isinstance(v, ast.Call) and call_name(v) == "list" and not v.args)
            if empty:
                rep.proved("R-C41-inner", f"{qm.relpath}:{f.qualname}", "installs an empty stack, so recording() is False inside")
            else:
                rep.refuted("R-C41-inner", qm.relpath, f.qualname, sw.stmt,
                            "stop_recording does not install an empty stack: operators created inside could still be recorded")

    # push callers / pop callers
    def lock_call(c):
        r = method_call(c)
        return bool(r and r[1] in ("acquire", "release") and not c.args)

    def may_raise(node):
        for n in walk_shallow(node):
            if isinstance(n, (ast.Yield, ast.YieldFrom, ast.Await)):
                return True
            if isinstance(n, ast.Call) and not lock_call(n):
                return True
        return False

    def may_raise_except(names):
        def mr(node):
            for n in walk_shallow(node):
                if isinstance(n, ast.Call) and not lock_call(n) and not (isinstance(n.func, ast.Attribute) and n.func.attr in names):
                    return True
                if isinstance(n, (ast.Yield, ast.YieldFrom, ast.Await)):
                    return True
            return False
        return mr

    enter_classes = []
    n_push_sites = n_pop_sites = 0
    for mod in ix.modules.values():
        if not any(nm in mod.source for nm in push_names | pop_names):
            continue
        for f in ix.funcs_in(mod):
            if f.cls is QM:
                continue
            has_push = any(_is_call_to(n, nm) for n in walk_shallow(f.node) for nm in push_names)
            has_pop = any(_is_call_to(n, nm) for n in walk_shallow(f.node) for nm in pop_names)
            if has_push:
                n_push_sites += 1
                rep.analysed(mod.relpath, f.qualname)
                if f.name != "__enter__" or f.cls is None:
                    st = next(n for n in walk_shallow(f.node) if any(_is_call_to(n, nm) for nm in push_names))
                    rep.refuted("R-C41-stack", mod.relpath, f.qualname, st,
                                "pushes a recording context outside an __enter__ method: nothing guarantees the matching pop on exit or exception")
                else:
                    enter_classes.append(f.cls)
                    cfg = CFG(f.node, may_raise=may_raise_except(push_names))
                    pushes = [nd for nd in cfg.stmts() if nd.kind in ("stmt", "return") and any(_stmt_calls(nd.stmt, nm) for nm in push_names)]
                    is_push = lambda nd: nd.kind in ("stmt", "return") and any(_stmt_calls(nd.stmt, nm) for nm in push_names)  # noqa: E731
                    if not cfg.must_pass(cfg.entry, cfg.exit, is_push):
                        rep.refuted("R-C41-stack", mod.relpath, f.qualname, f.node,
                                    "__enter__ can return without pushing the context; __exit__ would then pop somebody else's context")
                    for pnode in pushes:
                        # anything that may raise after the push?
                        reach = cfg.reachable(pnode.id)
                        if cfg.raise_exit in reach:
                            p = cfg.path_avoiding(pnode.id, cfg.raise_exit, lambda nd: False)
                            culprit = next((x for x in p[1:] if x.stmt is not None), pnode)
                            rep.refuted("R-C41-stack", mod.relpath, f.qualname, culprit.stmt,
                                        "a statement that may raise follows the push inside __enter__: if it raises, __exit__ is never run and the context stays on the stack")
                        else:
                            rep.proved("R-C41-stack", f"{mod.relpath}:{f.qualname}", "push on every path, nothing may raise after it")
                    # matching __exit__
                    c, ex = f.cls.lookup("__exit__")
                    if not isinstance(ex, FuncInfo):
                        rep.refuted("R-C41-stack", mod.relpath, f.cls.name, f.node, "class pushes in __enter__ but defines no __exit__")
                    else:
                        rep.analysed(ex.module.relpath, ex.qualname)
                        xcfg = CFG(ex.node, may_raise=may_raise_except(pop_names))
                        is_pop = lambda nd: nd.kind in ("stmt", "return") and any(_stmt_calls(nd.stmt, nm) for nm in pop_names)  # noqa: E731
                        ok = True
                        for exit_id, label in ((xcfg.exit, "normal exit"), (xcfg.raise_exit, "exception raised inside __exit__")):
                            p = xcfg.path_avoiding(xcfg.entry, exit_id, is_pop)
                            if p is not None:
                                ok = False
                                culprit = next((x for x in p[1:] if x.stmt is not None), None)
                                rep.refuted("R-C41-stack", ex.module.relpath, ex.qualname, culprit.stmt if culprit else ex.node,
                                            f"__exit__ can reach its {label} without popping the context (a statement that may raise precedes the pop, "
                                            "or a path skips it): the stack is not restored")
                        pops = [nd for nd in xcfg.stmts() if is_pop(nd)]
                        for pn in pops:
                            for s, _ in xcfg.succ[pn.id]:
                                if any(is_pop(xcfg.nodes[r]) for r in xcfg.reachable(s)):
                                    ok = False
                                    rep.refuted("R-C41-stack", ex.module.relpath, ex.qualname, pn.stmt, "__exit__ can pop twice on one path")
                                    break
                        if ok:
                            rep.proved("R-C41-stack", f"{ex.module.relpath}:{ex.qualname}", "pops exactly once on every path, before anything that may raise")
            if has_pop:
                n_pop_sites += 1
                if f.name != "__exit__" or f.cls is None:
                    st = next(n for n in walk_shallow(f.node) if any(_is_call_to(n, nm) for nm in pop_names))
                    rep.refuted("R-C41-stack", mod.relpath, f.qualname, st, "pops a recording context outside an __exit__ method")
                else:
                    c, en = f.cls.lookup("__enter__")
                    if not (isinstance(en, FuncInfo) and any(_is_call_to(n, nm) for n in walk_shallow(en.node) for nm in push_names)):
                        rep.refuted("R-C41-stack", mod.relpath, f.qualname, f.node, "__exit__ pops a context its __enter__ never pushed")
    rep.floor("__enter__ methods that push a recording context", n_push_sites, 2)
    rep.floor("__exit__ methods that pop", n_pop_sites, 2)

    # ------------------------------------------------------------------ R-C41-inner
    deleg = 0
    for name in ("append", "remove", "update_info", "get_info"):
        f = QM.own_method(name)
        if f is None:
            raise AnalysisError(f"QueuingManager.{name} vanished")
        rep.analysed(qm.relpath, f.qualname)
        parents = {}
        for p in ast.walk(f.node):
            for c in ast.iter_child_nodes(p):
                parents[c] = p
        calls = [n for n in walk_shallow(f.node) if isinstance(n, ast.Call) and isinstance(n.func, ast.Attribute) and n.func.attr == name]
        if not calls:
            # delegation through a private helper of the class (`cls._forward("append", obj, **kwargs)`) is not followed
            via = [n_ for n_ in walk_shallow(f.node) if isinstance(n_, ast.Call) and isinstance(n_.func, ast.Attribute)
                   and isinstance(n_.func.value, ast.Name) and n_.func.value.id in ("cls", "self") and n_.func.attr.startswith("_")
                   and QM.own_method(n_.func.attr) is not None]
            if via:
                deleg += 1
                rep.unknown("R-C41-inner", f"{qm.relpath}:{f.qualname}", f"delegates through the private helper `{via[0].func.attr}`, which is not followed")
            else:
                rep.refuted("R-C41-inner", qm.relpath, f.qualname, f.node, f"QueuingManager.{name} no longer delegates to the active context")
            continue
        for c in calls:
            deleg += 1
            recv = c.func.value
            if isinstance(recv, ast.Name):
                # local bound once to the active context: active_queue = cls.active_context()
                ds_ = [n_ for n_ in walk_shallow(f.node) if isinstance(n_, ast.Assign) and len(n_.targets) == 1
                       and isinstance(n_.targets[0], ast.Name) and n_.targets[0].id == recv.id]
                if len(ds_) == 1:
                    recv = ds_[0].value
            if not (_is_call_to(recv, "active_context") and not recv.args):
                rep.refuted("R-C41-inner", qm.relpath, f.qualname, c,
                            "delegates to something other than the innermost active context")
                continue
            # guarded by recording()
            guarded = False
            n = c
            while n in parents:
                p = parents[n]
                if isinstance(p, ast.If) and n in p.body and _stmt_calls(p.test, "recording") and not isinstance(p.test, ast.UnaryOp):
                    guarded = True
                if isinstance(p, ast.IfExp) and n is p.body and _stmt_calls(p.test, "recording") and not isinstance(p.test, ast.UnaryOp):
                    guarded = True
                n = p
            if not guarded:
                # path form: every path from the entry to the delegating statement crosses the edge of a recording() test that
                # establishes it (true edge of `if cls.recording()`, false edge of `if not cls.recording(): return`)
                gcfg = CFG(f.node, may_raise=lambda n_: False)
                tgt = [nd for nd in gcfg.stmts() if nd.stmt is not None and any(x is c for x in ast.walk(nd.stmt)) and nd.kind in ("stmt", "return")]
                if tgt:
                    seen_, stack_ = {gcfg.entry}, [gcfg.entry]
                    reach = False
                    while stack_:
                        cur_ = stack_.pop()
                        if cur_ == tgt[0].id:
                            reach = True
                            break
                        nd_ = gcfg.nodes[cur_]
                        glabel = None
                        if nd_.kind == "test" and _stmt_calls(nd_.stmt.test, "recording"):
                            t_ = nd_.stmt.test
                            glabel = "false" if isinstance(t_, ast.UnaryOp) and isinstance(t_.op, ast.Not) else ("true" if not isinstance(t_, ast.BoolOp) else None)
                        for s_, lab_ in gcfg.succ[cur_]:
                            if glabel is not None and lab_ == glabel:
                                continue
                            if s_ not in seen_:
                                seen_.add(s_)
                                stack_.append(s_)
                    guarded = not reach
            if guarded:
                rep.proved("R-C41-inner", f"{qm.relpath}:{f.qualname}", "delegates to active_context() under recording()")
            else:
                rep.refuted("R-C41-inner", qm.relpath, f.qualname, c, "delegation to the active context is not guarded by recording()")
    ac = QM.own_method("active_context")
    if ac is None:
        raise AnalysisError("QueuingManager.active_context vanished")
    subs = [n for n in walk_shallow(ac.node) if isinstance(n, ast.Subscript) and _attr_chain_has(n.value, STACK)]
    if not subs:
        rep.unknown("R-C41-inner", f"{qm.relpath}:{ac.qualname}", "no indexing of the stack found")
    for s in subs:
        idx = s.slice
        val = None
        if isinstance(idx, ast.UnaryOp) and isinstance(idx.op, ast.USub) and isinstance(idx.operand, ast.Constant):
            val = -idx.operand.value
        elif isinstance(idx, ast.Constant):
            val = idx.value
        if val == -1:
            rep.proved("R-C41-inner", f"{qm.relpath}:{ac.qualname}", "active context is the top of the stack ([-1])")
        elif val is None:
            rep.unknown("R-C41-inner", f"{qm.relpath}:{ac.qualname}", f"non-literal stack index {norm(idx)}")
        else:
            rep.refuted("R-C41-inner", qm.relpath, ac.qualname, s, f"active context is stack[{val}], not the innermost one")
    rep.floor("delegating calls in QueuingManager", deleg, 4)

    # ------------------------------------------------------------------ R-C41-own
    _own(ix, rep)

    # ------------------------------------------------------------------ R-C41-apply
    ap = ix.func(QMOD, "apply")
    rep.analysed(qm.relpath, "apply")
    cfg = CFG(ap.node)
    pname = ap.node.args.args[0].arg

    def is_copy(nd):
        st = nd.stmt
        if nd.kind != "stmt" or not isinstance(st, ast.Assign) or not isinstance(st.value, ast.Call):
            return False
        cn = call_name(st.value) or ""
        return cn.split(".")[-1] in ("copy", "deepcopy") and any(isinstance(t, ast.Name) and t.id == pname for t in st.targets) \
            and any(isinstance(a, ast.Name) and a.id == pname for a in st.value.args)

    sinks = []
    for nd in cfg.stmts():
        if nd.stmt is None or nd.kind not in ("stmt", "return"):
            continue
        for c in walk_shallow(nd.stmt):
            if isinstance(c, ast.Call) and isinstance(c.func, ast.Attribute) and c.func.attr in ("queue", "append") and (
                (isinstance(c.func.value, ast.Name) and c.func.value.id == pname) or any(isinstance(a, ast.Name) and a.id == pname for a in c.args)
            ):
                sinks.append(nd)
    rep.floor("queue/append sinks in queuing.apply", len(sinks), 2)
    for s in sinks:
        p = cfg.path_avoiding(cfg.entry, s.id, is_copy)
        if p is None:
            rep.proved("R-C41-apply", f"{qm.relpath}:apply L{s.line}", "the queued object is a fresh copy on every path")
        else:
            rep.refuted("R-C41-apply", qm.relpath, "apply", s.stmt,
                        "qp.apply can queue the caller's own object without copying it: an already-queued object would be de-duplicated "
                        "(identity-keyed queue) instead of being recorded a second time, and later wrappers could dequeue it")
    from .c41_extra import consume, extra

    extra(ctx, rep)
    consume(ctx, rep)
    return rep


# ---------------------------------------------------------------------------------------------


def _hyper_key(e, cls=None, selfnames=("self",)):
    """designator of an operand expression: ('hyper', k) / ('attr', name) / ('iter-self',) / None"""
    if isinstance(e, ast.Subscript) and isinstance(e.value, ast.Attribute) and e.value.attr in ("hyperparameters", "_hyperparameters"):
        if isinstance(e.slice, ast.Constant) and isinstance(e.slice.value, str):
            return ("hyper", e.slice.value)
        return None
    if isinstance(e, ast.Attribute) and isinstance(e.value, ast.Name):
        if cls is not None:
            c, f = cls.lookup(e.attr)
            if isinstance(f, FuncInfo) and any((isinstance(d, ast.Name) and d.id in ("property", "cached_property")) for d in f.node.decorator_list):
                rets = [n for n in walk_shallow(f.node) if isinstance(n, ast.Return) and n.value is not None]
                if len(rets) == 1:
                    k = _hyper_key(rets[0].value)
                    if k:
                        return k
        return ("attr", e.attr)
    if isinstance(e, ast.Name) and e.id in selfnames:
        return ("iter-self",)
    return None


def _designators(e, cls, loopvars):
    """designators removed/mapped by expression e (Name loop variables resolved through loopvars)."""
    if isinstance(e, ast.Name) and e.id in loopvars:
        return loopvars[e.id]
    k = _hyper_key(e, cls)
    return {k} if k else set()


def _loopvars(func, cls):
    """loop variable name -> set of designators it iterates over (for/comprehension)."""
    out = {}
    for n in walk_shallow(func):
        it = tgt = None
        if isinstance(n, (ast.For, ast.comprehension)):
            it, tgt = n.iter, n.target
        if it is None or not isinstance(tgt, ast.Name):
            continue
        ds = set()
        srcs = it.elts if isinstance(it, (ast.List, ast.Tuple)) else [it]
        for s in srcs:
            if isinstance(s, ast.Starred):
                s = s.value
            k = _hyper_key(s, cls)
            if k:
                ds.add(k)
        if ds:
            out.setdefault(tgt.id, set()).update(ds)
    return out


def _map_wires_operands(mw, cls):
    """designators of operator-valued operands: those receiving .map_wires(...) in the class's map_wires."""
    lv = _loopvars(mw.node, cls)
    out = set()
    for n in walk_shallow(mw.node):
        if isinstance(n, ast.Call) and isinstance(n.func, ast.Attribute) and n.func.attr == "map_wires":
            recv = n.func.value
            if len(n.args) + len(n.keywords) >= 2 and n.args:  # functional form  <mod>.map_wires(x, wire_map)
                ds = _designators(n.args[0], cls, lv)
            else:
                ds = _designators(recv, cls, lv)
            out |= ds
    return out


def _queue_removed(q, cls):
    lv = _loopvars(q.node, cls)
    ctxname = q.node.args.args[1].arg if len(q.node.args.args) > 1 else "context"
    out = set()
    unresolved = False
    for n in walk_shallow(q.node):
        if isinstance(n, ast.Call) and isinstance(n.func, ast.Attribute) and n.func.attr == "remove" and n.args:
            ds = _designators(n.args[0], cls, lv)
            if not ds:
                unresolved = True
            out |= ds
    return out, unresolved


def _init_removed(cls):
    """hyperparameter keys whose stored constructor argument is dequeued in __init__ (MRO below the bases)."""
    keys = set()
    for c in cls.mro():
        if c.name in OP_BASES:
            break
        init = c.own_method("__init__")
        if init is None:
            continue
        removed_names = set()
        loops = {}
        for n in walk_shallow(init.node):
            if isinstance(n, (ast.For, ast.comprehension)) and isinstance(n.target, ast.Name):
                loops.setdefault(n.target.id, set()).update(x.id for x in names_in(n.iter))
        for n in walk_shallow(init.node):
            if isinstance(n, ast.Call) and isinstance(n.func, ast.Attribute) and n.func.attr in ("remove",) and n.args:
                recv = norm(n.func.value)
                if "QueuingManager" in recv or "context" in recv:
                    for nm in names_in(n.args[0]):
                        removed_names.add(nm.id)
                        removed_names |= loops.get(nm.id, set())
            if isinstance(n, ast.Call) and (call_name(n) or "").split(".")[-1] == "remove_from_program" and n.args:
                for nm in names_in(n.args[0]):
                    removed_names.add(nm.id)
                    removed_names |= loops.get(nm.id, set())
        if not removed_names:
            continue
        for n in walk_shallow(init.node):
            if isinstance(n, ast.Assign):
                for t in n.targets:
                    k = _hyper_key(t)
                    if k and k[0] == "hyper" and {x.id for x in names_in(n.value)} & removed_names:
                        keys.add(k)
                    if isinstance(t, ast.Attribute) and isinstance(t.value, ast.Name) and t.value.id == "self" \
                            and {x.id for x in names_in(n.value)} & removed_names:
                        keys.add(("attr", t.attr))
                    if isinstance(t, ast.Attribute) and t.attr in ("_hyperparameters", "hyperparameters") and isinstance(n.value, ast.Dict):
                        for kk, vv in zip(n.value.keys, n.value.values):
                            if isinstance(kk, ast.Constant) and {x.id for x in names_in(vv)} & removed_names:
                                keys.add(("hyper", kk.value))
    return keys


def _own(ix, rep):
    qfuncs = [f for f in ix.functions if f.name == "queue" and f.cls is not None and len(f.node.args.args) > 1]
    rep.floor("queue() overrides", len(qfuncs), 20)
    for q in qfuncs:
        cls = q.cls
        rel = q.module.relpath
        rep.analysed(rel, q.qualname)
        ctxname = q.node.args.args[1].arg
        cfg = CFG(q.node, may_raise=lambda n: False)

        def is_append(nd, ctxname=ctxname):
            if nd.stmt is None or nd.kind not in ("stmt", "return"):
                return False
            for c in walk_shallow(nd.stmt):
                if isinstance(c, ast.Call) and isinstance(c.func, ast.Attribute) and c.func.attr == "append" \
                        and isinstance(c.func.value, ast.Name) and c.func.value.id == ctxname \
                        and c.args and isinstance(c.args[0], ast.Name) and c.args[0].id == "self":
                    return True
            return False

        apps = [nd for nd in cfg.stmts() if is_append(nd)]
        if not apps:
            # `return self._queue_into(context)` / `_record(self, context)`: the context is handed on, not followed
            handed = [c_ for c_ in walk_shallow(q.node) if isinstance(c_, ast.Call) and not (isinstance(c_.func, ast.Attribute) and c_.func.attr in ("remove", "recording"))
                      and any(isinstance(a_, ast.Name) and a_.id == ctxname for a_ in list(c_.args) + [k_.value for k_ in c_.keywords])]
            if handed:
                rep.unknown("R-C41-own", f"{rel}:{q.qualname}", f"the context is handed to `{norm(handed[0].func)}`; the append there is not followed")
            else:
                rep.refuted("R-C41-own", rel, q.qualname, q.node, "queue() never appends self to the context: the operator is silently not recorded")
            continue
        # a path that skips the append must go through the false arm of a recording() test
        p = cfg.path_avoiding(cfg.entry, cfg.exit, is_append)
        if p is not None:
            tests = [x for x in p if x.kind == "test" and _stmt_calls(x.stmt.test, "recording")]
            if not tests:
                rep.refuted("R-C41-own", rel, q.qualname, q.node,
                            "a path through queue() returns without appending self although a context may be recording")
        twice = False
        for a in apps:
            for s, _ in cfg.succ[a.id]:
                if any(is_append(cfg.nodes[r]) for r in cfg.reachable(s)):
                    twice = True
        if twice:
            rep.refuted("R-C41-own", rel, q.qualname, apps[0].stmt, "queue() can append self twice on one path")
        elif p is None or tests:
            rep.proved("R-C41-own", f"{rel}:{q.qualname} append", "self appended exactly once on every recording path")

    # ownership: every operator class (by MRO) with a readable map_wires
    n_owner = 0
    seen = set()
    for cls in ix.classes:
        if not any(b.name in OP_BASES for b in cls.mro()):
            continue
        d, mw = cls.lookup("map_wires", stop_at=OP_BASES)
        if not isinstance(mw, FuncInfo):
            continue
        if d is not cls and d.fq in seen and cls.own_method("queue") is None and cls.own_method("__init__") is None:
            continue
        operands = _map_wires_operands(mw, cls)
        operands = {o for o in operands if o[0] in ("hyper", "attr", "iter-self")}
        # attributes that are not hyperparameters and not base/operands are not tracked (e.g. pauli_rep)
        operands = {o for o in operands if not (o[0] == "attr" and o[1] in ("pauli_rep", "_pauli_rep"))}
        if not operands:
            continue
        seen.add(cls.fq)
        qd, q = cls.lookup("queue")
        removed = set()
        unresolved = False
        if isinstance(q, FuncInfo):
            removed, unresolved = _queue_removed(q, cls)
        removed |= _init_removed(cls)
        # normalise iteration over self == operands
        norm_removed = set(removed)
        if ("iter-self",) in removed:
            norm_removed |= {("attr", "operands"), ("hyper", "operands")}
        if ("attr", "ops") in removed or ("hyper", "ops") in removed:
            norm_removed |= {("attr", "ops"), ("hyper", "ops")}
        for o in sorted(operands):
            if o == ("iter-self",):
                o_alt = [("iter-self",), ("attr", "operands"), ("hyper", "operands")]
            elif o[0] == "attr":
                o_alt = [o, ("hyper", o[1])]
            else:
                o_alt = [o, ("attr", o[1])]
            n_owner += 1
            where = f"{cls.module.relpath}:{cls.name} operand {'.'.join(map(str, o))}"
            if len(o) > 1 and (cls.name, o[1]) in NOT_QUEUED:
                rep.exempt("R-C41-own", where, NOT_QUEUED[(cls.name, o[1])])
                continue
            if any(x in norm_removed for x in o_alt):
                rep.proved("R-C41-own", where, f"dequeued by {qd.name + '.queue' if isinstance(q, FuncInfo) else '__init__'} / __init__")
            elif unresolved:
                rep.unknown("R-C41-own", where, "queue() removes an object this analysis cannot name; not refuted")
            elif o[0] == "attr":
                # attribute operands not stored as hyperparameters (ops_fixed …): resolved only by name, otherwise unknown
                rep.unknown("R-C41-own", where, "attribute operand not matched by name in queue()/__init__")
            else:
                site = q.node if isinstance(q, FuncInfo) and qd is cls else cls.node
                rep.refuted("R-C41-own", cls.module.relpath, f"{cls.name}.queue" if isinstance(q, FuncInfo) and qd is cls else cls.name, site,
                            f"operator-valued operand {o[1]!r} (mapped with .map_wires in {d.name}.map_wires) is never removed from the queue: "
                            "constructing the wrapper inside a recording context records the operand and the wrapper")
    rep.floor("owned operator operands discovered from map_wires", n_owner, 14)
