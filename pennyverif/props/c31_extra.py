"""Rules added to C31 after independent seeded changes:
* R-C31-thread — seed threading: a simulation-path function that receives `rng` / `prng_key` and calls another
  function accepting that parameter must pass it on (a dropped `rng=rng` makes the callee fall back to an unseeded
  generator, so equally seeded devices diverge).
* the executor-order rule of C65 (R-C65-order) is re-used as R-C31-order for the native executors.
"""

from __future__ import annotations

import ast

from ..cfg import walk_shallow
from ..core import norm
from ..index import FuncInfo

SIM_PATH_PREFIXES = ("pennylane/devices/default_qubit.py", "pennylane/devices/default_mixed.py", "pennylane/devices/default_clifford.py",
                     "pennylane/devices/qubit/", "pennylane/devices/qubit_mixed/")
THREADED = ("rng", "prng_key")


def _params(f: FuncInfo):
    a = f.node.args
    pos = [x.arg for x in a.posonlyargs + a.args]
    return pos, [x.arg for x in a.kwonlyargs], a.kwarg is not None


def extra(ctx, rep):
    ix = ctx.index
    rep.rule("R-C31-thread", "every call, inside a simulation-path function that has a parameter `rng` (resp. `prng_key`), to a resolved function "
             "that also accepts `rng` (resp. `prng_key`) passes that parameter on (keyword, positional slot or **kwargs)")
    n_calls = 0
    for mod in ix.modules.values():
        if not mod.relpath.startswith(SIM_PATH_PREFIXES):
            continue
        for f in ix.funcs_in(mod):
            pos, kwo, _ = _params(f)
            have = [p for p in THREADED if p in pos or p in kwo]
            anc = f.parent
            while anc is not None:  # closures see the enclosing function's seed parameters
                apos, akwo, _ = _params(anc)
                have += [p for p in THREADED if (p in apos or p in akwo) and p not in have]
                anc = anc.parent
            if not have:
                continue
            for c in walk_shallow(f.node):
                if not isinstance(c, ast.Call):
                    continue
                g = None
                if isinstance(c.func, (ast.Name, ast.Attribute)):
                    try:
                        g = ix.resolve_expr(mod, c.func)
                    except RecursionError:
                        g = None
                if not isinstance(g, FuncInfo) or g.cls is not None:
                    continue
                gpos, gkwo, gkw = _params(g)
                for p in have:
                    if p not in gpos and p not in gkwo:
                        continue
                    n_calls += 1
                    passed = any(kw.arg == p for kw in c.keywords) or any(kw.arg is None for kw in c.keywords) \
                        or any(isinstance(a, ast.Starred) for a in c.args) or (p in gpos and len(c.args) > gpos.index(p))
                    where = f"{mod.relpath}:{f.qualname} L{c.lineno} -> {g.name}({p}=…)"
                    if passed:
                        rep.proved("R-C31-thread", where, f"`{p}` is passed on")
                    else:
                        rep.refuted("R-C31-thread", mod.relpath, f.qualname, c,
                                    f"`{f.name}` receives `{p}` but calls `{g.name}` (which accepts `{p}`) without passing it: the callee falls back to its "
                                    "default (an unseeded / fresh generator), so a seeded device no longer reproduces its results on this path")
    rep.floor("seed-threading call sites in the simulation path", n_calls, 20)

    # executor order (shared with C65)
    from . import c65

    sub = c65.check(ctx)
    for inst in sub.instances:
        if inst.rule == "R-C65-order" and inst.verdict != "refuted":
            rep.instances.append(type(inst)("R-C31-order", inst.where, inst.verdict, inst.detail, inst.nontrivial))
    for fnd in sub.findings:
        if fnd.rule == "R-C65-order":
            rep.refuted("R-C31-order", fnd.module, fnd.construct, fnd.statement, fnd.message + " (native executor used by the devices' parallel dispatch)", line=fnd.line)
