"""Rules added to C31 after independent seeded changes:
* R-C31-thread — seed threading: a simulation-path function that receives `rng` / `prng_key` and calls another
  function accepting that parameter must pass it on (a dropped `rng=rng` makes the callee fall back to an unseeded
  generator, so equally seeded devices diverge).
* the executor-order rule of C65 (R-C65-order) is re-used as R-C31-order for the native executors.
"""

from __future__ import annotations

import ast

from ..cfg import walk_shallow
from ..core import norm
from ..index import FuncInfo

SIM_PATH_PREFIXES = ("pennylane/devices/default_qubit.py", "pennylane/devices/default_mixed.py", "pennylane/devices/default_clifford.py",
                     "pennylane/devices/qubit/", "pennylane/devices/qubit_mixed/")
THREADED = ("rng", "prng_key")


def _params(f: FuncInfo):
    a = f.node.args
    pos = [x.arg for x in a.posonlyargs + a.args]
    return pos, [x.arg for x in a.kwonlyargs], a.kwarg is not None


def extra(ctx, rep):
    ix = ctx.index
    rep.rule("R-C31-thread", "every call, inside a simulation-path function that has a parameter `rng` (resp. `prng_key`), to a resolved function "
             "that also accepts `rng` (resp. `prng_key`) passes that parameter on (keyword, positional slot or **kwargs)")
    n_calls = 0
    for mod in ix.modules.values():
        if not mod.relpath.startswith(SIM_PATH_PREFIXES):
            continue
        for f in ix.funcs_in(mod):
            pos, kwo, _ = _params(f)
            have = [p for p in THREADED if p in pos or p in kwo]
            anc = f.parent
            while anc is not None:  # closures see the enclosing function's seed parameters
                apos, akwo, _ = _params(anc)
                have += [p for p in THREADED if (p in apos or p in akwo) and p not in have]
                anc = anc.parent
            if not have:
                continue
            for c in walk_shallow(f.node):
                if not isinstance(c, ast.Call):
                    continue
                g = None
                if isinstance(c.func, (ast.Name, ast.Attribute)):
                    try:
                        g = ix.resolve_expr(mod, c.func)
                    except RecursionError:
                        g = None
                if not isinstance(g, FuncInfo) or g.cls is not None:
                    continue
                gpos, gkwo, gkw = _params(g)
                for p in have:
                    if p not in gpos and p not in gkwo:
                        continue
                    n_calls += 1
                    passed = any(kw.arg == p for kw in c.keywords) or any(kw.arg is None for kw in c.keywords) \
                        or any(isinstance(a, ast.Starred) for a in c.args) or (p in gpos and len(c.args) > gpos.index(p))
                    where = f"{mod.relpath}:{f.qualname} L{c.lineno} -> {g.name}({p}=…)"
                    if passed:
                        rep.proved("R-C31-thread", where, f"`{p}` is passed on")
                    else:
                        rep.refuted("R-C31-thread", mod.relpath, f.qualname, c,
                                    f"`{f.name}` receives `{p}` but calls `{g.name}` (which accepts `{p}`) without passing it: the callee falls back to its "
                                    "default (an unseeded / fresh generator), so a seeded device no longer reproduces its results on this path")
    rep.floor("seed-threading call sites in the simulation path", n_calls, 20)

    # ---- seeds carried in a **kwargs bag ------------------------------------------------------------------------------------
    rep.rule("R-C31-bag", "a simulation-path function g that reads `rng` / `prng_key` out of its own **kwargs bag (bag.get('rng'), bag['rng']) gets "
             "that key at every resolved call site inside a function that itself holds it (as a parameter or in its own **bag that it forwards "
             "elsewhere): the call forwards a **bag or passes the key explicitly")
    bag_readers = {}  # id(FuncInfo.node) -> (FuncInfo, bag name, keys read)
    for mod in ix.modules.values():
        if not mod.relpath.startswith(SIM_PATH_PREFIXES):
            continue
        for g in ix.funcs_in(mod):
            if g.node.args.kwarg is None or g.cls is not None:
                continue
            bag = g.node.args.kwarg.arg
            keys = set()
            for n in walk_shallow(g.node):
                if isinstance(n, ast.Call) and isinstance(n.func, ast.Attribute) and n.func.attr in ("get", "pop") and isinstance(n.func.value, ast.Name) \
                        and n.func.value.id == bag and n.args and isinstance(n.args[0], ast.Constant) and n.args[0].value in THREADED:
                    keys.add(n.args[0].value)
                if isinstance(n, ast.Subscript) and isinstance(n.value, ast.Name) and n.value.id == bag and isinstance(n.slice, ast.Constant) \
                        and n.slice.value in THREADED:
                    keys.add(n.slice.value)
            if keys:
                bag_readers[id(g.node)] = (g, bag, keys)
    n_bag = 0
    for mod in ix.modules.values():
        if not mod.relpath.startswith(SIM_PATH_PREFIXES):
            continue
        for f in ix.funcs_in(mod):
            pos, kwo, _ = _params(f)
            fbag = f.node.args.kwarg.arg if f.node.args.kwarg is not None else None
            for c in walk_shallow(f.node):
                if not isinstance(c, ast.Call) or not isinstance(c.func, (ast.Name, ast.Attribute)):
                    continue
                try:
                    g = ix.resolve_expr(mod, c.func)
                except RecursionError:
                    g = None
                if not isinstance(g, FuncInfo) or id(g.node) not in bag_readers:
                    continue
                _, gbag, keys = bag_readers[id(g.node)]
                for k in sorted(keys):
                    # does the caller hold the key?  explicit parameter, or its own bag (which it forwards / reads elsewhere)
                    holds = k in pos or k in kwo or fbag is not None
                    if not holds:
                        continue
                    n_bag += 1
                    splat = any(kw.arg is None for kw in c.keywords)
                    explicit = any(kw.arg == k for kw in c.keywords)
                    where = f"{mod.relpath}:{f.qualname} L{c.lineno} -> {g.name}(**{gbag}[{k!r}])"
                    if splat or explicit:
                        rep.proved("R-C31-bag", where, "bag forwarded" if splat else f"`{k}` passed explicitly")
                    elif k == "prng_key" and any(kw.arg == "rng" for kw in c.keywords):
                        rep.unknown("R-C31-bag", where, "the numpy generator is passed; whether a JAX key is needed here is not decided")
                    else:
                        rep.refuted("R-C31-bag", mod.relpath, f.qualname, c,
                                    f"`{g.name}` reads `{k}` from its **{gbag}, but this call neither forwards a **kwargs bag nor passes `{k}=`: the callee "
                                    "falls back to an unseeded generator (global numpy state), so equally seeded devices diverge on this path")
    rep.floor("call sites of functions that read a seed from their **kwargs", n_bag, 2)

    # executor order (shared with C65)
    from . import c65

    sub = c65.check(ctx)
    for inst in sub.instances:
        if inst.rule == "R-C65-order" and inst.verdict != "refuted":
            rep.instances.append(type(inst)("R-C31-order", inst.where, inst.verdict, inst.detail, inst.nontrivial))
    for fnd in sub.findings:
        if fnd.rule == "R-C65-order":
            rep.refuted("R-C31-order", fnd.module, fnd.construct, fnd.statement, fnd.message + " (native executor used by the devices' parallel dispatch)", line=fnd.line)


def perm(ctx, rep):
    """R-C31-perm: a batch that is re-ordered for dispatch is restored with the inverse permutation."""
    ix = ctx.index
    rep.rule("R-C31-perm", "in the devices' execute paths and the executors: when the inputs of a dispatch call are gathered through an index list "
             "(`[xs[i] for i in order]`), the results are not gathered through the *same* index list again (that applies the permutation twice; "
             "restoring needs the inverse: a scatter `out[order[j]] = res[j]` or a gather by argsort(order)); re-ordering whose restoration is not "
             "recognised is left undecided")
    PREF = ("pennylane/devices/", "pennylane/concurrency/")
    n_fn = n_sites = 0

    def gathers(fn):
        """(base name, index-list name, node) for every `[base[i] for i in idx]` / tuple(... ) / generator"""
        out = []
        for n in ast.walk(fn):
            if isinstance(n, (ast.ListComp, ast.GeneratorExp)) and len(n.generators) == 1:
                g = n.generators[0]
                if isinstance(g.iter, ast.Name) and isinstance(g.target, ast.Name) and isinstance(n.elt, ast.Subscript) \
                        and isinstance(n.elt.value, ast.Name) and isinstance(n.elt.slice, ast.Name) and n.elt.slice.id == g.target.id and not g.ifs:
                    out.append((n.elt.value.id, g.iter.id, n))
        return out

    for mod in ix.modules.values():
        if not mod.relpath.startswith(PREF):
            continue
        for f in ix.funcs_in(mod):
            gs = gathers(f.node)
            if not gs:
                continue
            n_fn += 1
            # names assigned from call results (dispatch outputs) and the names of gathered inputs
            assigned_from_gather = {}
            for st in walk_shallow(f.node):
                if isinstance(st, ast.Assign) and len(st.targets) == 1 and isinstance(st.targets[0], ast.Name):
                    for base, idx, node in gs:
                        if any(x is node for x in ast.walk(st.value)):
                            assigned_from_gather[st.targets[0].id] = idx
            # everything computed from a gathered input (the dispatch call, tuple(...) of its iterator, …) carries the index list
            call_results = {}
            changed = True
            while changed:
                changed = False
                for st in walk_shallow(f.node):
                    if isinstance(st, ast.Assign) and len(st.targets) == 1 and isinstance(st.targets[0], ast.Name) and isinstance(st.value, ast.Call):
                        tgt = st.targets[0].id
                        if tgt in call_results:
                            continue
                        used = {x.id for x in ast.walk(st.value) if isinstance(x, ast.Name)}
                        for nm, idx in list(assigned_from_gather.items()) + list(call_results.items()):
                            if nm in used and not any(x is g_[2] for g_ in gs for x in ast.walk(st.value)):
                                call_results[tgt] = idx
                                changed = True
                                break
            by_idx = {}
            for base, idx, node in gs:
                by_idx.setdefault(idx, []).append((base, node))
            for idx, lst in by_idx.items():
                for base, node in lst:
                    if call_results.get(base) == idx:
                        n_sites += 1
                        rep.analysed(mod.relpath, f.qualname)
                        rep.refuted("R-C31-perm", mod.relpath, f.qualname, node,
                                    f"the inputs of the dispatch were re-ordered with `{idx}` and its results `{base}` are gathered with `{idx}` again: "
                                    "that applies the permutation twice instead of undoing it, so for any order that is not its own inverse results are "
                                    "returned against the wrong circuits of the batch", line=node.lineno)
            dispatches = any(isinstance(x, ast.Call) and isinstance(x.func, ast.Attribute) and x.func.attr in ("map", "starmap", "submit")
                             for x in ast.walk(f.node))
            if assigned_from_gather and dispatches and not any(call_results.get(b) == i for b, i, _ in gs):
                n_sites += 1
                rep.unknown("R-C31-perm", f"{mod.relpath}:{f.qualname}", "inputs are re-ordered through an index list; restoration not recognised")
    if not n_sites:
        rep.proved("R-C31-perm", "devices and executors", f"no dispatch input is re-ordered through an index list ({n_fn} functions with index gathers looked at)",
                   nontrivial=False)


def wire_map_order(ctx, rep):
    """R-C31-wiremap: the label -> index map that puts a circuit on standard wires enumerates the gate-carrying wires in a
    deterministic order.  Iterating a *set* of labels depends on the hash seed for string labels, i.e. differs between worker
    processes and between runs: equally seeded devices then sample different bit positions."""
    ix = ctx.index
    rel = "pennylane/core/qscript.py"
    rep.rule("R-C31-wiremap", "in QuantumScript._get_standard_wire_map the first group enumerated into the wire map (the wires that operations act on) is an "
             "ordered collection (Wires / list), never a set: set iteration order of string labels depends on the interpreter's hash seed")
    f = ix.func(rel, "QuantumScript._get_standard_wire_map")
    rep.analysed(rel, f.qualname)
    defs = {}
    for st in walk_shallow(f.node):
        if isinstance(st, ast.Assign) and len(st.targets) == 1 and isinstance(st.targets[0], ast.Name):
            defs.setdefault(st.targets[0].id, []).append(st.value)

    def is_set(e, depth=0):
        if depth > 3:
            return None
        if isinstance(e, (ast.Set, ast.SetComp)):
            return True
        if isinstance(e, ast.Call) and isinstance(e.func, ast.Name) and e.func.id in ("set", "frozenset"):
            return True
        if isinstance(e, ast.BinOp) and isinstance(e.op, (ast.Sub, ast.BitOr, ast.BitAnd)):
            return is_set(e.left, depth + 1)
        if isinstance(e, ast.Name) and e.id in defs:
            rs = [is_set(d, depth + 1) for d in defs[e.id]]
            return True if any(r is True for r in rs) else (False if all(r is False for r in rs) else None)
        if isinstance(e, ast.Call):
            return False if norm(e.func).split(".")[-1] in ("all_wires", "Wires", "list", "tuple", "sorted") else None
        return None
    n = 0
    for en in [c for c in ast.walk(f.node) if isinstance(c, ast.Call) and isinstance(c.func, ast.Name) and c.func.id == "enumerate" and c.args]:
        x = c_ = en.args[0]
        if isinstance(x, ast.Name) and x.id in defs and len(defs[x.id]) == 1:
            x = defs[x.id][0]
        first = x
        while isinstance(first, ast.BinOp) and isinstance(first.op, ast.Add):
            first = first.left
        if isinstance(first, (ast.List, ast.Tuple)) and first.elts:
            first = first.elts[0].value if isinstance(first.elts[0], ast.Starred) else first.elts[0]
        n += 1
        where = f"{rel}:{f.qualname} `{norm(en)[:60]}`"
        r = is_set(first)
        if r is True:
            rep.refuted("R-C31-wiremap", rel, f.qualname, en,
                        f"the wires that operations act on are enumerated from a set (`{norm(first)[:40]}`): for string wire labels the label -> index "
                        "assignment depends on the hash seed of the interpreter, so worker processes (and two runs of the same seeded program) place "
                        "the qubits differently and seeded samples differ", line=en.lineno)
        elif r is False:
            rep.proved("R-C31-wiremap", where, "operation wires are enumerated from an ordered collection")
        else:
            rep.unknown("R-C31-wiremap", where, "kind of the first enumerated group not determined")
    rep.floor("enumerations building the standard wire map", n, 1)
