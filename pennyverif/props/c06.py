"""C06 — copies, pytrees and rebinding reproduce operators.

Clause decided: the *reconstruction calls* the pytree / copy / rebinding machinery makes are
well-formed for every class: they bind against the class's ``__init__`` (E6), cover every stored
field, and come in pairs.  Equality of the reconstructed object is not decided.

How ``_flatten``/``_unflatten`` are read: a small abstract evaluation of the two method bodies.
``_flatten``'s return value is evaluated to (data, metadata) in a domain of known-length tuples,
``("key", value)`` pairs, key/value sequences with a set of *certainly present* keys, and Unknown.
``_unflatten`` is then walked with ``data``/``metadata`` bound to those values; every constructor
call it makes (``cls(...)``, ``Named(...)``, ``Base.__init__(obj, ...)``) yields a call shape that
is bound statically against the resolved ``__init__``.  Only a binding that fails for *every*
completion of the unknown parts, in a call that is reached unconditionally, is a refutation.
"""

from __future__ import annotations

import ast

from .. import sigbind
from ..astutil import call_name
from ..cfg import walk_shallow
from ..core import AnalysisError, Report, norm
from ..index import ClassInfo, FuncInfo, has_decorator

BASE = "pennylane/core/operator/base.py"
OP2MOD = "pennylane/core/operator/operator2.py"
MPMOD = "pennylane/core/measurements.py"
BINDMOD = "pennylane/ops/functions/bind_new_parameters.py"

ARGNAME_GROUPS = ("dynamic_argnames", "wire_argnames", "hybrid_argnames", "static_argnames", "compilable_argnames")

# Named exception (documented in Operator.__deepcopy__): `_data` is copied shallowly because deep
# copies of torch tensors inside a differentiable computation are not supported.
SHALLOW_IN_DEEPCOPY = {"_data"}


# ---------------------------------------------------------------------------------------------
# abstract values


class Val:
    pass


class _Unknown(Val):
    def __repr__(self):
        return "?"


UNKNOWN = _Unknown()


class Const(Val):
    def __init__(self, value):
        self.value = value

    def __repr__(self):
        return f"Const({self.value!r})"


class Tup(Val):
    """a sequence of known length"""

    def __init__(self, items):
        self.items = list(items)

    def __repr__(self):
        return "Tup(" + ", ".join(map(repr, self.items)) + ")"


class Pair(Tup):
    """a 2-tuple whose first entry is the literal string ``key``"""

    def __init__(self, items, key):
        super().__init__(items)
        self.key = key

    def __repr__(self):
        return f"Pair({self.key!r})"


class KV(Val):
    """a sequence of (key, value) pairs: ``keys`` are certainly present; ``closed`` = no others"""

    def __init__(self, keys, closed):
        self.keys = frozenset(keys)
        self.closed = bool(closed)

    def __repr__(self):
        return f"KV({sorted(self.keys)}, {'closed' if self.closed else 'open'})"


class DictV(KV):
    """a mapping with certainly-present keys"""

    def __repr__(self):
        return "Dict" + super().__repr__()


def to_kv(v):
    if isinstance(v, KV):
        return v
    if isinstance(v, Tup):
        if all(isinstance(i, Pair) for i in v.items):
            return KV([i.key for i in v.items], True)
    return None


def to_dict(v):
    kv = to_kv(v)
    if kv is not None:
        return DictV(kv.keys, kv.closed)
    return DictV((), False)


# ---------------------------------------------------------------------------------------------
# class-level facts: init chain, hyperparameter keys, number of data entries


def _is_self_attr(node, selfname, *attrs):
    return (isinstance(node, ast.Attribute) and isinstance(node.value, ast.Name) and node.value.id == selfname
            and (not attrs or node.attr in attrs))


def _selfname(f: FuncInfo):
    a = f.node.args
    names = [x.arg for x in a.posonlyargs + a.args]
    return names[0] if names else None


class Facts:
    """memoised per-class facts"""

    def __init__(self, ix, op, op2, mp):
        self.ix = ix
        self.OP, self.OP2, self.MP = op, op2, mp
        self._chain = {}
        self._hyper = {}
        self._ncount = {}
        self._subs = None

    # ---- init chain -------------------------------------------------------------------------
    def init_calls(self, cls: ClassInfo, K: ClassInfo, F: FuncInfo):
        """[(call node, target class, target FuncInfo, explicit_self, conditional)] for the
        ``super().__init__(…)`` / ``Base.__init__(self, …)`` calls made by F (defined in K) when it
        runs on an instance of ``cls``."""
        out = []
        selfname = _selfname(F)
        top = set()
        for st in F.node.body:
            for n in _stmt_exprs(st):
                top.add(id(n))
        for n in walk_shallow(F.node):
            if not (isinstance(n, ast.Call) and isinstance(n.func, ast.Attribute) and n.func.attr == "__init__"):
                continue
            recv = n.func.value
            tgt = None
            explicit = False
            if isinstance(recv, ast.Call) and isinstance(recv.func, ast.Name) and recv.func.id == "super":
                start = K
                if recv.args:
                    r = self.ix.resolve_expr(F.module, recv.args[0])
                    if isinstance(r, ClassInfo):
                        start = r
                mro = cls.mro()
                if start in mro:
                    for c in mro[mro.index(start) + 1:]:
                        f = c.own_method("__init__")
                        if f is not None:
                            tgt = (c, f)
                            break
            else:
                r = self.ix.resolve_expr(F.module, recv)
                if isinstance(r, ClassInfo) and n.args and isinstance(n.args[0], ast.Name) and n.args[0].id == selfname:
                    c, f = r.lookup("__init__")
                    if isinstance(f, FuncInfo):
                        tgt = (c, f)
                        explicit = True
            if tgt is None:
                out.append((n, None, None, explicit, id(n) not in top))
            else:
                out.append((n, tgt[0], tgt[1], explicit, id(n) not in top))
        return out

    def init_chain(self, cls: ClassInfo):
        """[(K, F)] — the ``__init__`` functions that run when ``cls(...)`` is constructed;
        second result False if some super-call could not be resolved."""
        if cls in self._chain:
            return self._chain[cls]
        out, complete = [], True
        ic, I = cls.lookup("__init__")
        seen = set()

        def visit(K, F):
            nonlocal complete
            if F in seen:
                return
            seen.add(F)
            out.append((K, F))
            for _call, tc, tf, _ex, _cond in self.init_calls(cls, K, F):
                if tf is None:
                    complete = False
                else:
                    visit(tc, tf)

        if isinstance(I, FuncInfo):
            visit(ic, I)
        else:
            complete = False
        self._chain[cls] = (out, complete)
        return self._chain[cls]

    # ---- hyperparameter keys -----------------------------------------------------------------
    def hyper(self, cls: ClassInfo) -> KV:
        """keys certainly present in ``self.hyperparameters`` after construction"""
        if cls in self._hyper:
            return self._hyper[cls]
        chain, complete = self.init_chain(cls)
        sets, stores = [], []  # (keys, conditional, func, lineno) / (key, conditional, func, lineno)
        kill, open_ = False, not complete
        for K, F in chain:
            selfname = _selfname(F)
            toplevel = {id(s) for s in F.node.body}

            def is_hp(node, selfname=selfname):
                return _is_self_attr(node, selfname, "hyperparameters", "_hyperparameters")

            for st in walk_shallow(F.node):
                cond = id(st) not in toplevel
                if isinstance(st, (ast.Assign, ast.AnnAssign, ast.AugAssign)):
                    targets = st.targets if isinstance(st, ast.Assign) else [st.target]
                    value = st.value
                    for t in targets:
                        if _is_self_attr(t, selfname, "_hyperparameters") or _is_self_attr(t, selfname, "hyperparameters"):
                            if isinstance(value, ast.Dict) and not isinstance(st, ast.AugAssign):
                                keys, spread = [], False
                                for k in value.keys:
                                    if k is None:
                                        spread = True
                                    elif isinstance(k, ast.Constant) and isinstance(k.value, str):
                                        keys.append(k.value)
                                    else:
                                        spread = True
                                sets.append((frozenset(keys), cond, F, st.lineno))
                                open_ = open_ or spread
                            else:
                                kill = True
                        elif isinstance(t, ast.Subscript) and is_hp(t.value):
                            if isinstance(t.slice, ast.Constant) and isinstance(t.slice.value, str):
                                stores.append((t.slice.value, cond, F, st.lineno))
                            else:
                                open_ = True
                elif isinstance(st, ast.Delete):
                    for t in st.targets:
                        if (isinstance(t, ast.Subscript) and is_hp(t.value)) or is_hp(t):
                            kill = True
                elif isinstance(st, ast.Call):
                    fn = st.func
                    if isinstance(fn, ast.Attribute) and is_hp(fn.value):
                        if fn.attr in ("update", "setdefault"):
                            open_ = True
                        elif fn.attr in ("pop", "popitem", "clear"):
                            kill = True
                    elif isinstance(fn, ast.Name) and fn.id == "setattr" and len(st.args) >= 2 and isinstance(st.args[0], ast.Name) \
                            and st.args[0].id == selfname and isinstance(st.args[1], ast.Constant) and st.args[1].value == "_hyperparameters":
                        kill = True
                    elif isinstance(fn, ast.Attribute) and isinstance(fn.value, ast.Name) and fn.value.id == selfname:
                        # a helper method called during construction that itself writes the hyperparameters
                        dc, m = cls.lookup(fn.attr)
                        if isinstance(m, FuncInfo) and _writes_hyper(m):
                            kill = True
        if kill:
            res = KV((), False)
        elif not sets:
            definite = {k for k, cond, _f, _l in stores if not cond}
            closed = not open_ and all(not cond for _k, cond, _f, _l in stores)
            res = KV(definite, closed)
        elif len(sets) == 1 and not sets[0][1]:
            keys, _c, F0, line0 = sets[0]
            definite = set(keys)
            closed = not open_
            for k, cond, f, line in stores:
                if f is F0 and line > line0 and not cond:
                    definite.add(k)
                elif k not in definite:
                    closed = False
            res = KV(definite, closed)
        else:
            if any(not c for _k, c, _f, _l in sets):
                definite = frozenset.intersection(*[k for k, _c, _f, _l in sets])
            else:
                definite = frozenset()
            res = KV(definite, False)
        self._hyper[cls] = res
        return res

    # ---- number of entries of Operator.data ------------------------------------------------------
    def data_count(self, cls: ClassInfo):
        """len(op.data) when it is fixed by the construction chain (``Operator.__init__(*params,
        wires=…)`` stores exactly the positional arguments it receives), else None."""
        if cls in self._ncount:
            return self._ncount[cls]
        res = None
        dc, df = cls.lookup("data")
        ic, I = cls.lookup("__init__")
        if dc is self.OP and isinstance(I, FuncInfo):
            res = self._count_from(cls, ic, I, None, set())
        self._ncount[cls] = res
        return res

    def _count_from(self, cls, K, F, nvar, seen):
        if F in seen:
            return None
        seen = seen | {F}
        if K is self.OP:
            return nvar
        selfname = _selfname(F)
        for n in walk_shallow(F.node):
            if isinstance(n, (ast.Assign, ast.AugAssign, ast.AnnAssign)):
                targets = n.targets if isinstance(n, ast.Assign) else [n.target]
                if any(_is_self_attr(t, selfname, "_data") for t in targets):
                    return None
        calls = self.init_calls(cls, K, F)
        if len(calls) != 1:
            return None
        call, tc, tf, explicit, cond = calls[0]
        if tf is None or cond:
            return None
        args = call.args[1:] if explicit else call.args
        n = 0
        vararg = F.node.args.vararg.arg if F.node.args.vararg else None
        for a in args:
            if isinstance(a, ast.Starred):
                if isinstance(a.value, ast.Name) and a.value.id == vararg and nvar is not None:
                    n += nvar
                else:
                    return None
            else:
                n += 1
        if any(k.arg is None for k in call.keywords):
            return None
        sig = sigbind.signature(tf.node, skip_first=True)
        if sig is None:
            return None
        if tc is self.OP:
            if "wires" not in {k.arg for k in call.keywords}:
                return None  # the last positional argument may be taken as the wires
            return n
        # positional arguments beyond the callee's named slots land in its *vararg
        kwnames = {k.arg for k in call.keywords}
        if any(k in sig.slots[:n] for k in kwnames):
            return None
        nvar2 = max(n - len(sig.slots), 0) if sig.vararg else None
        if not sig.vararg and n > len(sig.slots):
            return None
        return self._count_from(cls, tc, tf, nvar2, seen)

    # ---- subclasses -----------------------------------------------------------------------------
    def subclasses(self, cls):
        if self._subs is None:
            self._subs = {}
            for c in self.ix.classes:
                for a in c.mro()[1:]:
                    self._subs.setdefault(a, []).append(c)
        return self._subs.get(cls, [])


def _writes_hyper(m: FuncInfo):
    selfname = _selfname(m)
    if m.name == "hyperparameters":
        return False  # the lazy property only installs an empty dict
    for n in walk_shallow(m.node):
        if isinstance(n, (ast.Assign, ast.AugAssign, ast.AnnAssign)):
            targets = n.targets if isinstance(n, ast.Assign) else [n.target]
            for t in targets:
                if _is_self_attr(t, selfname, "_hyperparameters", "hyperparameters"):
                    return True
                if isinstance(t, ast.Subscript) and _is_self_attr(t.value, selfname, "_hyperparameters", "hyperparameters"):
                    return True
    return False


def _stmt_exprs(st):
    """expression nodes evaluated unconditionally when the simple statement ``st`` runs"""
    if isinstance(st, (ast.Expr, ast.Assign, ast.AnnAssign, ast.AugAssign, ast.Return)):
        v = st.value
        if v is None:
            return
        stack = [v]
        while stack:
            n = stack.pop()
            yield n
            if isinstance(n, (ast.IfExp, ast.BoolOp, ast.Lambda, ast.GeneratorExp, ast.ListComp, ast.SetComp, ast.DictComp)):
                continue
            stack.extend(ast.iter_child_nodes(n))


# ---------------------------------------------------------------------------------------------
# abstract evaluation of _flatten / _unflatten


class Env:
    def __init__(self, facts: Facts, cls: ClassInfo, func: FuncInfo, selfname=None):
        self.facts = facts
        self.cls = cls
        self.func = func
        self.selfname = selfname
        self.locals: dict[str, Val] = {}
        self.index_errors = []  # (node, length, index) met while evaluating with certain=True
        self.certain = True

    def fork(self):
        e = Env(self.facts, self.cls, self.func, self.selfname)
        e.locals = dict(self.locals)
        e.index_errors = self.index_errors
        e.certain = self.certain
        return e


def _const_index(node):
    if isinstance(node, ast.Constant) and isinstance(node.value, int) and not isinstance(node.value, bool):
        return node.value
    if isinstance(node, ast.UnaryOp) and isinstance(node.op, ast.USub) and isinstance(node.operand, ast.Constant) \
            and isinstance(node.operand.value, int):
        return -node.operand.value
    return None


def ev(e, env: Env) -> Val:
    facts, cls = env.facts, env.cls
    if e is None:
        return UNKNOWN
    if isinstance(e, ast.Constant):
        return Const(e.value)
    if isinstance(e, ast.Name):
        return env.locals.get(e.id, UNKNOWN)
    if isinstance(e, (ast.Tuple, ast.List)):
        items = []
        for x in e.elts:
            if isinstance(x, ast.Starred):
                v = ev(x.value, env)
                if isinstance(v, Tup):
                    items += v.items
                else:
                    return UNKNOWN
            else:
                items.append(ev(x, env))
        if isinstance(e, ast.Tuple) and len(items) == 2 and isinstance(items[0], Const) and isinstance(items[0].value, str) \
                and not any(isinstance(x, ast.Starred) for x in e.elts):
            return Pair(items, items[0].value)
        return Tup(items)
    if isinstance(e, ast.Subscript):
        base = ev(e.value, env)
        idx = _const_index(e.slice)
        if isinstance(base, Tup) and not isinstance(base, Pair) and idx is not None:
            n = len(base.items)
            if -n <= idx < n:
                return base.items[idx]
            if env.certain:
                env.index_errors.append((e, n, idx))
            return UNKNOWN
        return UNKNOWN
    if isinstance(e, ast.Attribute) and env.selfname and isinstance(e.value, ast.Name) and e.value.id == env.selfname:
        if e.attr == "data":
            dc, _ = cls.lookup("data")
            n = facts.data_count(cls)
            if dc is facts.OP and n is not None:
                return Tup([UNKNOWN] * n)
            return UNKNOWN
        if e.attr in ("hyperparameters", "_hyperparameters"):
            hc, _ = cls.lookup("hyperparameters")
            if hc is facts.OP:
                h = facts.hyper(cls)
                return DictV(h.keys, h.closed)
            return UNKNOWN
        return UNKNOWN
    if isinstance(e, ast.Call):
        name = call_name(e) or ""
        last = name.split(".")[-1]
        if name in ("tuple", "list") and not e.keywords:
            if not e.args:
                return Tup([])
            if len(e.args) == 1:
                a = e.args[0]
                if isinstance(a, (ast.GeneratorExp, ast.ListComp)):
                    return ev_comp(a, env)
                v = ev(a, env)
                if isinstance(v, DictV):
                    return UNKNOWN  # iterating a mapping yields keys
                if isinstance(v, (Tup, KV)):
                    return v
            return UNKNOWN
        if name == "dict" and len(e.args) == 1 and not e.keywords:
            a = e.args[0]
            v = ev_comp(a, env) if isinstance(a, (ast.GeneratorExp, ast.ListComp)) else ev(a, env)
            return to_dict(v)
        if name == "dict" and not e.args and all(k.arg for k in e.keywords):
            return DictV([k.arg for k in e.keywords], True)
        if name in ("reversed", "sorted") and len(e.args) == 1:
            v = ev(e.args[0], env)
            if isinstance(v, Tup) and not isinstance(v, Pair):
                return Tup([UNKNOWN] * len(v.items)) if name == "sorted" else Tup(v.items[::-1])
            return UNKNOWN
        if isinstance(e.func, ast.Attribute) and e.func.attr == "items" and not e.args:
            v = ev(e.func.value, env)
            if isinstance(v, DictV):
                return KV(v.keys, v.closed)
            return UNKNOWN
        if last in ("copy", "deepcopy") and len(e.args) >= 1 and name in ("copy", "deepcopy", "copy.copy", "copy.deepcopy"):
            return ev(e.args[0], env)
        return UNKNOWN
    if isinstance(e, ast.BinOp) and isinstance(e.op, ast.Add):
        l, r = ev(e.left, env), ev(e.right, env)
        if isinstance(l, Tup) and isinstance(r, Tup) and not isinstance(l, Pair) and not isinstance(r, Pair):
            return Tup(l.items + r.items)
        kl, kr = to_kv(l), to_kv(r)
        if kl is not None and kr is not None and not isinstance(l, DictV) and not isinstance(r, DictV):
            return KV(kl.keys | kr.keys, kl.closed and kr.closed)
        return UNKNOWN
    if isinstance(e, (ast.GeneratorExp, ast.ListComp)):
        return ev_comp(e, env)
    if isinstance(e, ast.IfExp):
        t = truth(e.test, env)
        if t is True:
            return ev(e.body, env)
        if t is False:
            return ev(e.orelse, env)
        return UNKNOWN
    if isinstance(e, ast.Dict):
        keys, closed = [], True
        for k in e.keys:
            if isinstance(k, ast.Constant) and isinstance(k.value, str):
                keys.append(k.value)
            else:
                closed = False
        return DictV(keys, closed)
    return UNKNOWN


def ev_comp(comp, env: Env) -> Val:
    """``((key, value) for key, value in X.items() [if key != "k"])`` and friends"""
    if len(comp.generators) != 1:
        return UNKNOWN
    g = comp.generators[0]
    if g.is_async:
        return UNKNOWN
    src = ev(g.iter, env)
    tgt, elt = g.target, comp.elt
    if isinstance(src, KV) and not isinstance(src, DictV):
        keyname = itemname = None
        if isinstance(tgt, ast.Tuple) and len(tgt.elts) == 2 and all(isinstance(x, ast.Name) for x in tgt.elts):
            keyname = tgt.elts[0].id
            ok = isinstance(elt, ast.Tuple) and len(elt.elts) == 2 and isinstance(elt.elts[0], ast.Name) and elt.elts[0].id == keyname
        elif isinstance(tgt, ast.Name):
            itemname = tgt.id
            ok = isinstance(elt, ast.Name) and elt.id == itemname
        else:
            ok = False
        if not ok:
            return KV((), False)
        excluded = set()
        for cond in g.ifs:
            ex = _excluded_keys(cond, keyname, itemname)
            if ex is None:
                return KV((), False)  # a filter this analysis does not model: nothing is certain
            excluded |= ex
        return KV(src.keys - excluded, src.closed)
    if isinstance(src, Tup) and not isinstance(src, Pair) and all(isinstance(i, Const) and isinstance(i.value, str) for i in src.items) \
            and isinstance(tgt, ast.Name) and not g.ifs:
        if isinstance(elt, ast.Tuple) and len(elt.elts) == 2 and isinstance(elt.elts[0], ast.Name) and elt.elts[0].id == tgt.id:
            return KV([i.value for i in src.items], True)
    return UNKNOWN


def _excluded_keys(cond, keyname, itemname):
    """keys removed by a filter ``key != "a"`` / ``item[0] not in ["a", "b"]`` (None: not modelled)"""
    if not (isinstance(cond, ast.Compare) and len(cond.ops) == 1):
        return None
    left, op, right = cond.left, cond.ops[0], cond.comparators[0]
    is_key = (keyname and isinstance(left, ast.Name) and left.id == keyname) or (
        itemname and isinstance(left, ast.Subscript) and isinstance(left.value, ast.Name) and left.value.id == itemname
        and _const_index(left.slice) == 0)
    if not is_key:
        return None
    if isinstance(op, ast.NotEq) and isinstance(right, ast.Constant) and isinstance(right.value, str):
        return {right.value}
    if isinstance(op, ast.NotIn) and isinstance(right, (ast.List, ast.Tuple, ast.Set)) \
            and all(isinstance(x, ast.Constant) and isinstance(x.value, str) for x in right.elts):
        return {x.value for x in right.elts}
    return None


def truth(test, env: Env):
    """three-valued truth of an ``if`` test (only ``X is [not] None`` is modelled)"""
    if isinstance(test, ast.Compare) and len(test.ops) == 1 and isinstance(test.comparators[0], ast.Constant) \
            and test.comparators[0].value is None and isinstance(test.ops[0], (ast.Is, ast.IsNot)):
        v = ev(test.left, env)
        isnone = None
        if isinstance(v, Const):
            isnone = v.value is None
        elif isinstance(v, (Tup, KV)):
            isnone = False
        if isnone is None:
            return None
        return isnone if isinstance(test.ops[0], ast.Is) else (not isnone)
    if isinstance(test, ast.UnaryOp) and isinstance(test.op, ast.Not):
        t = truth(test.operand, env)
        return None if t is None else (not t)
    return None


def flatten_values(facts: Facts, cls: ClassInfo, F: FuncInfo):
    """[(data Val, metadata Val)] for each ``return`` of the resolved ``_flatten``"""
    env = Env(facts, cls, F, _selfname(F))
    out = []

    def run(stmts, env):
        for st in stmts:
            if isinstance(st, ast.Assign) and len(st.targets) == 1 and isinstance(st.targets[0], ast.Name):
                env.locals[st.targets[0].id] = ev(st.value, env)
            elif isinstance(st, ast.AnnAssign) and isinstance(st.target, ast.Name) and st.value is not None:
                env.locals[st.target.id] = ev(st.value, env)
            elif isinstance(st, ast.Return):
                v = ev(st.value, env)
                if isinstance(v, Tup) and len(v.items) == 2 and not isinstance(v, Pair):
                    out.append((v.items[0], v.items[1]))
                else:
                    out.append((UNKNOWN, UNKNOWN))
                return True
            elif isinstance(st, ast.Expr):
                continue
            else:
                # anything else (loops filling a dict, if/else, tuple unpacking): forget what it may write
                for n in ast.walk(st):
                    if isinstance(n, ast.Name) and isinstance(n.ctx, ast.Store):
                        env.locals[n.id] = UNKNOWN
                    elif isinstance(n, ast.Return):
                        out.append((UNKNOWN, UNKNOWN))
                # mutation through subscripts/method calls of a tracked local
                for n in ast.walk(st):
                    if isinstance(n, (ast.Subscript, ast.Attribute)) and isinstance(n.ctx, ast.Store):
                        b = n.value
                        while isinstance(b, (ast.Subscript, ast.Attribute)):
                            b = b.value
                        if isinstance(b, ast.Name):
                            env.locals[b.id] = UNKNOWN
        return False

    run(F.node.body, env)
    if not out:
        out.append((UNKNOWN, UNKNOWN))
    return out


class CtorCall:
    def __init__(self, node, target_cls, shape, certain, explicit_init=False, how=""):
        self.node = node
        self.target_cls = target_cls  # ClassInfo whose __init__ is called
        self.shape = shape
        self.certain = certain
        self.explicit_init = explicit_init
        self.how = how


def shape_of(call: ast.Call, env: Env, drop_leading=0):
    """E6 call shape of ``call`` with starred / ** arguments evaluated in ``env``"""
    npos, star = 0, False
    args = call.args[drop_leading:] if drop_leading else call.args
    for a in args:
        if isinstance(a, ast.Starred):
            v = ev(a.value, env)
            if isinstance(v, Tup):
                npos += len(v.items)
            else:
                star = True
        else:
            npos += 1
    kw, kwsplat = set(), False
    for k in call.keywords:
        if k.arg is not None:
            kw.add(k.arg)
        else:
            v = ev(k.value, env)
            if isinstance(v, DictV):
                kw |= v.keys
                if not v.closed:
                    kwsplat = True
            else:
                kwsplat = True
    return sigbind.CallShape(npos, star, frozenset(kw), kwsplat)


def unflatten_calls(facts: Facts, cls: ClassInfo, U: FuncInfo, D: Val, M: Val):
    """constructor calls made by the resolved ``_unflatten`` with data/metadata bound to D/M;
    -> ([CtorCall], index_errors)"""
    ix = facts.ix
    a = U.node.args
    params = [x.arg for x in a.posonlyargs + a.args]
    env = Env(facts, cls, U, None)
    clsname = params[0] if params else None
    if len(params) >= 3:
        env.locals[params[1]] = D
        env.locals[params[2]] = M
    calls = []

    def scan(expr, env):
        if expr is None:
            return
        stack = [(expr, env.certain)]
        while stack:
            n, cert = stack.pop()
            if isinstance(n, ast.Lambda):
                continue
            if isinstance(n, ast.Call):
                f = n.func
                old = env.certain
                env.certain = cert
                if isinstance(f, ast.Name) and f.id == clsname:
                    calls.append(CtorCall(n, cls, shape_of(n, env), cert, how=f"{clsname}(…)"))
                elif isinstance(f, ast.Name) and f.id not in env.locals:
                    r = ix.resolve_expr(U.module, f)
                    if isinstance(r, ClassInfo) and (facts.OP in r.mro() or facts.MP in r.mro()):
                        calls.append(CtorCall(n, r, shape_of(n, env), cert, how=f"{r.name}(…)"))
                elif isinstance(f, ast.Attribute) and f.attr == "__init__" and n.args and not isinstance(n.args[0], ast.Starred):
                    r = ix.resolve_expr(U.module, f.value)
                    if isinstance(r, ClassInfo):
                        calls.append(CtorCall(n, r, shape_of(n, env, drop_leading=1), cert, explicit_init=True, how=f"{r.name}.__init__(obj, …)"))
                env.certain = old
            for c in ast.iter_child_nodes(n):
                sub_cert = cert and not isinstance(n, (ast.IfExp, ast.BoolOp, ast.GeneratorExp, ast.ListComp, ast.SetComp, ast.DictComp))
                stack.append((c, sub_cert))

    def run(stmts, env):
        """-> True if the block certainly returns/raises"""
        for st in stmts:
            if isinstance(st, ast.Assign):
                scan(st.value, env)
                v = ev(st.value, env)
                for t in st.targets:
                    if isinstance(t, ast.Name):
                        env.locals[t.id] = v
                    elif isinstance(t, (ast.Tuple, ast.List)) and all(isinstance(x, ast.Name) for x in t.elts):
                        if isinstance(v, Tup) and len(v.items) == len(t.elts):
                            for x, item in zip(t.elts, v.items):
                                env.locals[x.id] = item
                        else:
                            for x in t.elts:
                                env.locals[x.id] = UNKNOWN
                    else:
                        for n in ast.walk(t):
                            if isinstance(n, ast.Name) and isinstance(n.ctx, ast.Store):
                                env.locals[n.id] = UNKNOWN
            elif isinstance(st, ast.AnnAssign):
                scan(st.value, env)
                if isinstance(st.target, ast.Name):
                    env.locals[st.target.id] = ev(st.value, env) if st.value is not None else UNKNOWN
            elif isinstance(st, ast.Expr):
                scan(st.value, env)
            elif isinstance(st, ast.Return):
                scan(st.value, env)
                if st.value is not None:
                    ev(st.value, env)  # records certain index errors of the returned expression
                return True
            elif isinstance(st, ast.Raise):
                return True
            elif isinstance(st, ast.If):
                t = truth(st.test, env)
                if t is True:
                    if run(st.body, env):
                        return True
                elif t is False:
                    if run(st.orelse, env):
                        return True
                else:
                    e1, e2 = env.fork(), env.fork()
                    e1.certain = e2.certain = False
                    r1 = run(st.body, e1)
                    r2 = run(st.orelse, e2)
                    if r1 and r2:
                        return True
                    # join: keep what both arms agree on (by identity), forget the rest
                    for k in set(e1.locals) | set(e2.locals):
                        if e1.locals.get(k) is e2.locals.get(k):
                            env.locals[k] = e1.locals[k]
                        else:
                            env.locals[k] = UNKNOWN
                    if r1 or r2:
                        env.certain = False  # the rest runs only when the other arm was taken
            elif isinstance(st, (ast.With, ast.AsyncWith)):
                for it in st.items:
                    scan(it.context_expr, env)
                    if it.optional_vars is not None:
                        for n in ast.walk(it.optional_vars):
                            if isinstance(n, ast.Name):
                                env.locals[n.id] = UNKNOWN
                if run(st.body, env):
                    return True
            elif isinstance(st, (ast.For, ast.AsyncFor, ast.While, ast.Try)):
                sub = env.fork()
                sub.certain = False
                for n in ast.walk(st):
                    if isinstance(n, ast.Name) and isinstance(n.ctx, ast.Store):
                        sub.locals[n.id] = UNKNOWN
                        env.locals[n.id] = UNKNOWN
                bodies = [st.body, st.orelse] + ([h.body for h in st.handlers] + [st.finalbody] if isinstance(st, ast.Try) else [])
                for b in bodies:
                    run(b, sub.fork())
            else:
                for n in ast.walk(st):
                    if isinstance(n, ast.Name) and isinstance(n.ctx, ast.Store):
                        env.locals[n.id] = UNKNOWN
        return False

    run(U.node.body, env)
    return calls, env.index_errors


# ---------------------------------------------------------------------------------------------
# helpers for the other rules


def _abstract_reason(facts: Facts, cls: ClassInfo):
    """name of an ``@abstractmethod`` the class leaves unimplemented (instantiation raises), or None"""
    seen = set()
    for c in cls.mro():
        for name, fl in c.methods.items():
            if name in seen:
                continue
            seen.add(name)
            for f in fl:
                if has_decorator(f.node, "abstractmethod", "abstractproperty"):
                    return f"{c.name}.{name} is an unimplemented @abstractmethod"
        for name in c.assigns:
            seen.add(name)
    return None


def _instantiated_by_name(ix, cls: ClassInfo):
    """some call in the package resolves to ``cls`` (constructed directly by name)"""
    needle = cls.name + "("
    for m in ix.modules.values():
        if needle not in m.source:
            continue
        for n in ast.walk(m.tree):
            if isinstance(n, ast.Call):
                f = n.func
                last = f.attr if isinstance(f, ast.Attribute) else (f.id if isinstance(f, ast.Name) else None)
                if last == cls.name and ix.resolve_expr(m, f) is cls:
                    return f"{m.relpath}:{n.lineno}"
    return None


def _str_tuple(node):
    if isinstance(node, ast.Constant) and isinstance(node.value, str):
        return (node.value,)
    if isinstance(node, (ast.Tuple, ast.List)) and all(isinstance(e, ast.Constant) and isinstance(e.value, str) for e in node.elts):
        return tuple(e.value for e in node.elts)
    return None


def _vars_loop(F: FuncInfo, selfname):
    """the ``for a, v in vars(self).items()`` / ``self.__dict__.items()`` loop of a copy method"""
    for n in walk_shallow(F.node):
        if isinstance(n, ast.For) and isinstance(n.iter, ast.Call) and isinstance(n.iter.func, ast.Attribute) and n.iter.func.attr == "items":
            src = n.iter.func.value
            is_vars = isinstance(src, ast.Call) and isinstance(src.func, ast.Name) and src.func.id == "vars" and len(src.args) == 1 \
                and isinstance(src.args[0], ast.Name) and src.args[0].id == selfname
            is_dict = _is_self_attr(src, selfname, "__dict__")
            if (is_vars or is_dict) and isinstance(n.target, ast.Tuple) and len(n.target.elts) == 2 \
                    and all(isinstance(x, ast.Name) for x in n.target.elts):
                return n, n.target.elts[0].id, n.target.elts[1].id
    return None


def _excluded_by_guard(test, attrname):
    """attribute names a guard ``attr not in {...}`` / ``attr != "x"`` keeps out of the loop body"""
    if isinstance(test, ast.Compare) and len(test.ops) == 1 and isinstance(test.left, ast.Name) and test.left.id == attrname:
        op, right = test.ops[0], test.comparators[0]
        if isinstance(op, ast.NotIn) and isinstance(right, (ast.Set, ast.List, ast.Tuple)):
            names = _str_tuple(ast.Tuple(elts=right.elts))
            return set(names) if names is not None else None
        if isinstance(op, ast.NotEq) and isinstance(right, ast.Constant) and isinstance(right.value, str):
            return {right.value}
    return None


def _new_object_names(F: FuncInfo):
    """local names bound to ``X.__new__(X)`` / ``object.__new__(type(self))`` / ``super().__copy__()``"""
    out = {}
    for n in walk_shallow(F.node):
        if isinstance(n, ast.Assign) and len(n.targets) == 1 and isinstance(n.targets[0], ast.Name) and isinstance(n.value, ast.Call):
            f = n.value.func
            if isinstance(f, ast.Attribute) and f.attr == "__new__":
                out[n.targets[0].id] = "new"
            elif isinstance(f, ast.Attribute) and f.attr == "__copy__" and isinstance(f.value, ast.Call) \
                    and isinstance(f.value.func, ast.Name) and f.value.func.id == "super":
                out[n.targets[0].id] = "super"
    return out


# ---------------------------------------------------------------------------------------------


def check(ctx):
    ix = ctx.index
    rep = Report("C06", "the reconstruction calls made by the pytree, copy and rebinding machinery are well-formed for every "
                 "operator / measurement class: they bind against the class's __init__, cover every stored field and come in "
                 "pairs (equality of the reconstructed object is not decided).")
    rep.rule("R-C06-unflatten", "for every Operator / MeasurementProcess class whose resolved _flatten and _unflatten come from the same "
             "class (in particular the base pair): the constructor call made by _unflatten — positional data, explicit keywords and the "
             "keys emitted as metadata by _flatten (hyperparameter keys read from the __init__ chain) — binds against the class's "
             "__init__ (E6); a constant index into metadata/data of known length must be in range")
    rep.rule("R-C06-pair", "a class that overrides only one of _flatten/_unflatten must still bind with the inherited partner "
             "(the same evaluation applied to the emitted metadata)")
    rep.rule("R-C06-op2", "Operator2 subclasses: every classified argument name (dynamic/wire/hybrid/static|compilable) is accepted "
             "as keyword by __init__ (Operator2._unflatten calls cls(**args)); the arguments an overriding __init__ forwards to "
             "Operator2.__init__ bind against the class's own signature (self._sig.bind); _flatten/_unflatten overrides come in pairs")
    rep.rule("R-C06-copy", "every custom __copy__ in the operator/measurement hierarchy copies every attribute: a loop over "
             "vars(self)/self.__dict__ whose excluded names are all assigned explicitly, or a constructor call that binds; a "
             "_hyperparameters dict display has exactly the keys __init__ stores")
    rep.rule("R-C06-bind", "every operator class whose data is computed (a `data` property overridden below Operator/Operator2) "
             "resolves, through its MRO, to a bind_new_parameters handler registered below the base classes")
    rep.rule("R-C06-deep", "__deepcopy__ overrides that copy attribute-wise register memo[id(self)] before recursing and deepcopy(value, "
             "memo) every attribute except the documented shallow _data")
    rep.assume("metaclass __call__ (capture disabled) forwards the constructor arguments unchanged to __new__/__init__")
    rep.assume("Operator.__init__(*params, wires=w) stores exactly its positional arguments as data when wires is given by keyword")
    rep.assume("hyperparameter keys are written only by the statements of the __init__ chain (self._hyperparameters = {...}, "
               "self.hyperparameters['k'] = v); a key is taken as certainly emitted only when written unconditionally")
    rep.assume("a class that is never constructed by name in the package, has subclasses, and whose subclasses all replace "
               "__init__/_flatten/_unflatten is an abstract base (not instantiated)")

    OP = ix.cls(BASE, "Operator")
    OP2 = ix.cls(OP2MOD, "Operator2")
    MP = ix.cls(MPMOD, "MeasurementProcess")
    facts = Facts(ix, OP, OP2, MP)
    for anchor in (("_flatten", OP), ("_unflatten", OP), ("__copy__", OP), ("__deepcopy__", OP), ("_flatten", OP2),
                   ("_unflatten", OP2), ("__deepcopy__", OP2), ("_flatten", MP), ("_unflatten", MP)):
        if anchor[1].own_method(anchor[0]) is None:
            raise AnalysisError(f"anchor method vanished: {anchor[1].name}.{anchor[0]}")

    fam1 = [c for c in ix.classes if OP in c.mro()]
    famm = [c for c in ix.classes if MP in c.mro()]
    fam2 = [c for c in ix.classes if OP2 in c.mro()]
    rep.floor("Operator (v1) classes", len(fam1), 130)
    rep.floor("MeasurementProcess classes", len(famm), 15)
    rep.floor("Operator2 classes", len(fam2), 60)

    _rule_unflatten(rep, ix, facts, fam1 + famm)
    _rule_op2(rep, ix, facts, fam2)
    _rule_copy(rep, ix, facts, fam1 + famm + fam2)
    _rule_bind(rep, ix, facts, fam1 + fam2)
    _rule_deep(rep, ix, facts, fam1 + famm + fam2)
    from .c06_extra import extra

    extra(ctx, rep)
    return rep


# --------------------------------------------------------------------------------------------- unflatten / pair


def _rule_unflatten(rep, ix, facts: Facts, classes):
    n_checked = n_onesided = n_ctor = 0
    failures = {}  # cls -> list of (rule, call, message)
    for C in classes:
        where = f"{C.module.relpath}:{C.name}"
        fc, F = C.lookup("_flatten")
        uc, U = C.lookup("_unflatten")
        ic, I = C.lookup("__init__")
        if not (isinstance(F, FuncInfo) and isinstance(U, FuncInfo)):
            rep.unknown("R-C06-unflatten", where, "_flatten/_unflatten not resolved to methods")
            continue
        rule = "R-C06-unflatten" if fc is uc else "R-C06-pair"
        n_checked += 1
        n_onesided += fc is not uc
        rep.analysed(F.module.relpath, F.qualname)
        rep.analysed(U.module.relpath, U.qualname)
        if C.unresolved_bases and any(b.split("[")[0] not in ("abc.ABC", "ABC", "Generic", "object") for b in C.unresolved_bases):
            rep.unknown(rule, where, f"base class(es) {C.unresolved_bases} not resolved")
            continue
        if F.node.decorator_list or [d for d in U.node.decorator_list if norm(d) != "classmethod"]:
            rep.unknown(rule, where, "decorated _flatten/_unflatten")
            continue
        verdicts = []
        problems = []
        for D, M in flatten_values(facts, C, F):
            uncertain_fail = []
            calls, index_errors = unflatten_calls(facts, C, U, D, M)
            for node, length, idx in index_errors:
                problems.append((node, f"{uc.name}._unflatten evaluates `{norm(node)}` but {fc.name}._flatten emits a "
                                       f"{length}-tuple there: IndexError"))
            for cc in calls:
                n_ctor += 1
                tcls = cc.target_cls
                tc, tI = tcls.lookup("__init__")
                if not isinstance(tI, FuncInfo) or tI.node.decorator_list:
                    verdicts.append((None, cc, "constructor not resolved / decorated"))
                    continue
                ok, why = sigbind.bind(cc.shape, tI.node, skip_first=True)
                sig = sigbind.signature(tI.node)
                if ok is not False and not cc.explicit_init:
                    nc, nf = tcls.lookup("__new__")
                    if isinstance(nf, FuncInfo) and nc is not None and nc.name != "Operator1" and (facts.OP in nc.mro() or facts.MP in nc.mro()):
                        ok2, why2 = sigbind.bind(cc.shape, nf.node, skip_first=True)
                        if ok2 is False:
                            ok, why, sig, tc = False, why2, sigbind.signature(nf.node), nc
                            why = f"__new__: {why2}"
                if ok is False:
                    emitted = ", ".join(sorted(cc.shape.kw)) or "none"
                    stmt = f"def {'__new__' if why.startswith('__new__') else '__init__'}" + _with_self(sig, tI)
                    msg = (f"{uc.name}._unflatten calls `{norm(cc.node)[:100]}` with keywords {{{emitted}}} "
                           f"(metadata from {fc.name}._flatten) but {tc.name}.__init__{sig.describe()} {why}: TypeError")
                    if cc.certain:
                        problems.append((stmt, msg))
                    else:
                        uncertain_fail.append((stmt, msg))
                        verdicts.append((None, cc, f"call under an undecided condition would not bind ({why})"))
                elif ok is True:
                    verdicts.append((True, cc, "binds"))
                else:
                    some = sigbind.binds_for_some(cc.shape, tI.node)
                    verdicts.append((None if not some else "some", cc, why))
            if calls and len(uncertain_fail) == len(calls) and _every_return_constructs(U, calls):
                # whichever branch is taken, the constructor call it makes does not bind
                problems.append((uncertain_fail[-1][0], "every constructor call of the method fails; e.g. " + uncertain_fail[-1][1]))
        if problems:
            failures[C] = (rule, problems, fc, uc, ic)
            continue
        if not verdicts:
            rep.unknown(rule, where, f"{uc.name}._unflatten makes no constructor call this analysis models")
        elif all(v is True for v, _c, _w in verdicts):
            rep.proved(rule, where, f"{len(verdicts)} constructor call(s) bind: " + verdicts[0][1].shape.describe())
        elif all(v in (True, "some") for v, _c, _w in verdicts):
            rep.proved(rule, where, "binds for the data length the class defines: " + "; ".join(w for v, _c, w in verdicts if v == "some")[:160])
        else:
            rep.unknown(rule, where, "; ".join(w for v, _c, w in verdicts if v is None)[:200])

    # a failing class is an abstract base when it cannot be / never is instantiated and every subclass
    # replaces at least one member of the failing (__init__, _flatten, _unflatten) triple
    for C, (rule, problems, fc, uc, ic) in failures.items():
        where = f"{C.module.relpath}:{C.name}"
        reason = _abstract_reason(facts, C)
        if reason is None:
            subs = facts.subclasses(C)
            if subs:
                same = [s for s in subs if s.lookup("_flatten")[0] is fc and s.lookup("_unflatten")[0] is uc and s.lookup("__init__")[0] is ic]
                site = _instantiated_by_name(ix, C)
                if not same and site is None:
                    reason = (f"never constructed by name in the package and each of its {len(subs)} subclasses replaces "
                              "__init__/_flatten/_unflatten (abstract base by use)")
        if reason is not None:
            rep.exempt(rule, where, f"abstract base, never instantiated ({reason}); would fail: {problems[0][1][:140]}")
            continue
        for node, msg in problems:
            rep.refuted(rule, C.module.relpath, C.name, node, msg, line=C.node.lineno)
    rep.floor("classes with a resolved _flatten/_unflatten pair", n_checked, 150)
    rep.floor("one-sided _flatten/_unflatten overrides", n_onesided, 20)
    rep.floor("constructor calls bound (E6)", n_ctor, 170)


def _with_self(sig, I: FuncInfo):
    first = sig.dropped_first
    d = sig.describe()
    if first:
        return "(" + first + (", " if d != "()" else "") + d[1:]
    return d


def _every_return_constructs(U: FuncInfo, calls):
    nodes = {id(c.node) for c in calls}
    rets = [n for n in walk_shallow(U.node) if isinstance(n, ast.Return)]
    if not rets:
        return False
    for r in rets:
        if r.value is None or not any(id(x) in nodes for x in ast.walk(r.value)):
            return False
    # the function must not be able to fall off its end
    last = U.node.body[-1]
    return isinstance(last, (ast.Return, ast.Raise))


# --------------------------------------------------------------------------------------------- Operator2


def _rule_op2(rep, ix, facts: Facts, fam2):
    OP2 = facts.OP2
    n = n_fwd = 0
    for C in fam2:
        if C is OP2:
            continue
        where = f"{C.module.relpath}:{C.name}"
        if any(k.arg == "is_baseclass" and isinstance(k.value, ast.Constant) and k.value.value is True for k in C.node.keywords):
            rep.exempt("R-C06-op2", where, "declared is_baseclass=True (never registered as a pytree, not instantiable on its own)")
            continue
        fc, F = C.lookup("_flatten")
        uc, U = C.lookup("_unflatten")
        ic, I = C.lookup("__init__")
        n += 1
        # pairing
        if (fc is OP2) != (uc is OP2):
            one = "_flatten" if fc is not OP2 else "_unflatten"
            node = (F if fc is not OP2 else U).node
            rep.refuted("R-C06-op2", C.module.relpath, C.name, f"def {one}(...)",
                        f"{(fc if fc is not OP2 else uc).name} overrides {one} without its partner: Operator2.{'_unflatten' if one == '_flatten' else '_flatten'} "
                        "assumes the (dynamic, wires, hybrid)/(static) layout of the base pair", line=node.lineno)
            continue
        if fc is not OP2:
            rep.unknown("R-C06-op2", where, "custom _flatten/_unflatten pair (not modelled for Operator2)")
            continue
        if not isinstance(I, FuncInfo) or ic is OP2:
            rep.proved("R-C06-op2", where, "inherits Operator2.__init__(*args, **kwargs)", nontrivial=False)
            continue
        if I.node.decorator_list:
            rep.unknown("R-C06-op2", where, "decorated __init__")
            continue
        groups = {}
        unknown_group = None
        for g in ARGNAME_GROUPS:
            dc, v = C.lookup(g)
            names = _str_tuple(v) if isinstance(v, ast.AST) else None
            if names is None:
                unknown_group = g
                break
            groups[g] = names
        if unknown_group:
            rep.unknown("R-C06-op2", where, f"{unknown_group} is not a literal tuple of names")
            continue
        hashable = groups["static_argnames"] or groups["compilable_argnames"]
        names = set(groups["dynamic_argnames"]) | set(groups["wire_argnames"]) | set(groups["hybrid_argnames"]) | set(hashable)
        rep.analysed(I.module.relpath, I.qualname)
        sig = sigbind.signature(I.node)
        ok, why = sigbind.bind(sigbind.shape(0, names), I.node)
        if ok is False:
            rep.refuted("R-C06-op2", C.module.relpath, C.name, f"cls(**{{{', '.join(sorted(names))}}})",
                        f"Operator2._unflatten rebuilds {C.name} as cls(**args) with the classified names {sorted(names)}, but "
                        f"{ic.name}.__init__{sig.describe()} {why}: TypeError", line=I.node.lineno)
            continue
        # forwarding: the call that reaches Operator2.__init__ is re-bound against type(self)'s signature
        bad = False
        K, Fn = ic, I
        hops = 0
        while isinstance(Fn, FuncInfo) and K is not OP2 and hops < 6:
            hops += 1
            calls = facts.init_calls(C, K, Fn)
            if len(calls) != 1 or calls[0][2] is None:
                break
            call, tc, tf, explicit, cond = calls[0]
            cs = sigbind.call_shape(call, drop_leading=1 if explicit else 0)
            target_sig_node = I.node if tc is OP2 else tf.node
            target_name = f"{ic.name}.__init__ (self._sig of {C.name})" if tc is OP2 else f"{tc.name}.__init__"
            ok2, why2 = sigbind.bind(cs, target_sig_node)
            n_fwd += 1
            if ok2 is False and not cond:
                rep.refuted("R-C06-op2", Fn.module.relpath, f"{K.name}.__init__", call,
                            f"constructing {C.name}: `{norm(call)[:90]}` is bound against {target_name}{sigbind.signature(target_sig_node).describe()} "
                            f"and {why2}: TypeError")
                bad = True
                break
            if tc is OP2 and ok2 is not False:
                # observation only: parameters with a default that are never forwarded are stored as their default
                res = _unforwarded(cs, sigbind.signature(I.node))
                if res:
                    rep.note(f"{C.name}.__init__ does not forward {sorted(res)} to Operator2.__init__: the operator stores the default "
                             "(consistent under flatten/unflatten, so not a violation)")
            K, Fn = tc, tf
        if not bad:
            rep.proved("R-C06-op2", where, f"cls(**{sorted(names)}) binds; forwarding chain of {hops} call(s) binds")
    rep.floor("Operator2 classes examined", n, 60)
    rep.floor("Operator2 forwarding calls bound", n_fwd, 70)


def _unforwarded(cs: sigbind.CallShape, sig: sigbind.Signature):
    if cs.star or cs.kwsplat:
        return set()
    filled = set(sig.slots[:cs.npos]) | set(cs.kw)
    return {p for p in sig.slots + sig.kwonly if p not in filled}


# --------------------------------------------------------------------------------------------- __copy__


def _rule_copy(rep, ix, facts: Facts, classes):
    n = 0
    seen = set()
    for K in classes:
        F = K.own_method("__copy__")
        if F is None or F in seen:
            continue
        seen.add(F)
        n += 1
        where = f"{K.module.relpath}:{K.name}.__copy__"
        rep.analysed(F.module.relpath, F.qualname)
        selfname = _selfname(F)
        news = _new_object_names(F)
        loop = _vars_loop(F, selfname)
        users = [K] + [s for s in facts.subclasses(K) if s.lookup("__copy__")[1] is F]
        findings_before = len(rep.findings)
        decided = False

        # (D) constructor form: return self.__class__(k=…)
        for r in [x for x in walk_shallow(F.node) if isinstance(x, ast.Return) and isinstance(x.value, ast.Call)]:
            f = r.value.func
            is_ctor = (isinstance(f, ast.Attribute) and f.attr == "__class__" and isinstance(f.value, ast.Name) and f.value.id == selfname) or (
                isinstance(f, ast.Call) and isinstance(f.func, ast.Name) and f.func.id == "type" and len(f.args) == 1
                and isinstance(f.args[0], ast.Name) and f.args[0].id == selfname)
            if not is_ctor:
                continue
            decided = True
            cs = sigbind.call_shape(r.value)
            for C in users:
                ic, I = C.lookup("__init__")
                if not isinstance(I, FuncInfo):
                    continue
                ok, why = sigbind.bind(cs, I.node)
                if ok is False:
                    rep.refuted("R-C06-copy", K.module.relpath, f"{K.name}.__copy__", r,
                                f"copy of a {C.name} calls `{norm(r.value)[:90]}` but {ic.name}.__init__{sigbind.signature(I.node).describe()} {why}: TypeError")
        # (E) delegation to bind_new_parameters / super().__copy__()
        delegates = None
        for x in walk_shallow(F.node):
            if isinstance(x, ast.Call):
                cn = (call_name(x) or "").split(".")[-1]
                if cn == "bind_new_parameters":
                    delegates = "bind_new_parameters"
        if "super" in news.values():
            delegates = "super().__copy__()"

        if loop is not None and news:
            decided = True
            loopnode, attrname, valname = loop
            excluded, modelled = set(), True
            copies_all = False
            for st in loopnode.body:
                if isinstance(st, ast.If):
                    ex = _excluded_by_guard(st.test, attrname)
                    if ex is None:
                        modelled = False
                    else:
                        excluded |= ex
                        copies_all = copies_all or _has_setattr(st.body, news, attrname, valname)
                elif _has_setattr([st], news, attrname, valname):
                    copies_all = True
            if not modelled:
                rep.unknown("R-C06-copy", where, "guard of the attribute loop not modelled")
            elif not copies_all:
                rep.refuted("R-C06-copy", K.module.relpath, f"{K.name}.__copy__", loopnode,
                            f"the loop over the instance attributes never does setattr(<copy>, {attrname}, {valname}): attributes are lost")
            else:
                assigned = set()
                for x in walk_shallow(F.node):
                    if isinstance(x, ast.Assign):
                        for t in x.targets:
                            if isinstance(t, ast.Attribute) and isinstance(t.value, ast.Name) and t.value.id in news:
                                assigned.add(t.attr)
                missing = excluded - assigned
                if missing:
                    rep.refuted("R-C06-copy", K.module.relpath, f"{K.name}.__copy__", loopnode,
                                f"attribute(s) {sorted(missing)} are excluded from the attribute loop and never assigned on the copy: the copy lacks them")
        elif news and "new" in news.values() and loop is None and delegates is None:
            decided = True
            # no loop: every attribute __init__ assigns unconditionally must be assigned on the copy
            assigned = set()
            for x in walk_shallow(F.node):
                if isinstance(x, ast.Assign):
                    for t in x.targets:
                        if isinstance(t, ast.Attribute) and isinstance(t.value, ast.Name) and t.value.id in news:
                            assigned.add(t.attr)
            for C in users:
                chain, complete = facts.init_chain(C)
                need = set()
                for Kc, Fc in chain:
                    sn = _selfname(Fc)
                    for st in Fc.node.body:
                        if isinstance(st, (ast.Assign, ast.AnnAssign)):
                            for t in (st.targets if isinstance(st, ast.Assign) else [st.target]):
                                if _is_self_attr(t, sn):
                                    need.add(t.attr)
                missing = need - assigned
                if missing:
                    rep.refuted("R-C06-copy", K.module.relpath, f"{K.name}.__copy__", f"def __copy__(...)",
                                f"no loop over vars(self) and attribute(s) {sorted(missing)[:6]} assigned by {C.name}'s __init__ chain are never "
                                "assigned on the copy", line=F.node.lineno)
                    break

        # (B) rebuilt _hyperparameters dict display: keys must equal the ones __init__ stores
        for x in walk_shallow(F.node):
            if isinstance(x, ast.Assign) and isinstance(x.value, ast.Dict):
                for t in x.targets:
                    if isinstance(t, ast.Attribute) and t.attr == "_hyperparameters" and isinstance(t.value, ast.Name) and t.value.id in news:
                        keys = set()
                        literal = True
                        for k in x.value.keys:
                            if isinstance(k, ast.Constant) and isinstance(k.value, str):
                                keys.add(k.value)
                            else:
                                literal = False
                        if not literal:
                            continue
                        decided = True
                        for C in users:
                            h = facts.hyper(C)
                            lost = h.keys - keys
                            extra = keys - h.keys if h.closed else set()
                            if lost or extra:
                                what = []
                                if lost:
                                    what.append(f"drops {sorted(lost)}")
                                if extra:
                                    what.append(f"invents {sorted(extra)}")
                                rep.refuted("R-C06-copy", K.module.relpath, f"{K.name}.__copy__", x,
                                            f"the rebuilt _hyperparameters has keys {sorted(keys)} but {C.name}.__init__ stores {sorted(h.keys)}: the copy "
                                            + " and ".join(what))
        if len(rep.findings) > findings_before:
            continue
        if decided:
            rep.proved("R-C06-copy", where, "copies every attribute / rebuilt key set equals the stored one")
        elif delegates:
            rep.proved("R-C06-copy", where, f"delegates to {delegates}", nontrivial=False)
        else:
            rep.unknown("R-C06-copy", where, "form of __copy__ not modelled")
    rep.floor("custom __copy__ methods", n, 14)


def _has_setattr(stmts, news, attrname, valname):
    for st in stmts:
        for x in ast.walk(st):
            if isinstance(x, ast.Call) and isinstance(x.func, ast.Name) and x.func.id == "setattr" and len(x.args) == 3:
                a0, a1, a2 = x.args
                if isinstance(a0, ast.Name) and a0.id in news and isinstance(a1, ast.Name) and a1.id == attrname \
                        and isinstance(a2, ast.Name) and a2.id == valname:
                    return True
    return False


# --------------------------------------------------------------------------------------------- bind_new_parameters


def _rule_bind(rep, ix, facts: Facts, classes):
    m = ix.module(BINDMOD)
    rep.analysed(m.relpath)
    generic = ix.func(BINDMOD, "bind_new_parameters")
    if not has_decorator(generic.node, "singledispatch"):
        raise AnalysisError("bind_new_parameters is no longer a singledispatch function")
    handlers = {}  # ClassInfo -> handler name
    n_reg = 0
    for f in ix.funcs_in(m):
        if f.parent is not None or f.cls is not None:
            continue
        for d in f.node.decorator_list:
            tgt = d.func if isinstance(d, ast.Call) else d
            if not (isinstance(tgt, ast.Attribute) and tgt.attr == "register" and isinstance(tgt.value, ast.Name) and tgt.value.id == generic.name):
                continue
            n_reg += 1
            exprs = []
            if isinstance(d, ast.Call) and d.args:
                exprs = [d.args[0]]
            else:
                a = f.node.args
                first = (a.posonlyargs + a.args)[:1]
                if first and first[0].annotation is not None:
                    ann = first[0].annotation
                    exprs = _union_members(ann)
            for e in exprs:
                r = ix.resolve_expr(m, e)
                if isinstance(r, ClassInfo):
                    handlers[r] = f.name
                else:
                    rep.unknown("R-C06-bind", f"{m.relpath}:{f.name}", f"registered type `{norm(e)}` not resolved")
    rep.floor("bind_new_parameters registrations", n_reg, 40)
    bases = {facts.OP, facts.OP2}
    n = 0
    for C in classes:
        dc, df = C.lookup("data")
        if dc is None or dc in bases or not isinstance(df, FuncInfo):
            continue
        if not has_decorator(df.node, "property", "cached_property"):
            continue
        n += 1
        where = f"{C.module.relpath}:{C.name}.data"
        hit = None
        for K in C.mro():
            if K in bases:
                break
            if K in handlers:
                hit = (K, handlers[K])
                break
        if hit:
            rep.proved("R-C06-bind", where, f"data computed by {dc.name}.data; handler {hit[1]} registered for {hit[0].name}")
        else:
            fallback = "bind_new_dynamic_arguments (Operator2)" if facts.OP2 in C.mro() else "the generic fallback"
            rep.refuted("R-C06-bind", C.module.relpath, f"{C.name}.data", f"class {C.name}",
                        f"{C.name}.data is computed by the property {dc.name}.data, but no bind_new_parameters handler is registered for "
                        f"{C.name} or an ancestor below Operator/Operator2: {fallback} re-calls the constructor with the new data as positional "
                        "arguments or sets _data on a copy, which the computed data property ignores", line=C.node.lineno)
    rep.floor("classes with a computed data property", n, 25)


def _union_members(ann):
    if isinstance(ann, ast.BinOp) and isinstance(ann.op, ast.BitOr):
        return _union_members(ann.left) + _union_members(ann.right)
    return [ann]


# --------------------------------------------------------------------------------------------- __deepcopy__


def _rule_deep(rep, ix, facts: Facts, classes):
    n = 0
    seen = set()
    for K in classes:
        F = K.own_method("__deepcopy__")
        if F is None or F in seen:
            continue
        seen.add(F)
        n += 1
        where = f"{K.module.relpath}:{K.name}.__deepcopy__"
        rep.analysed(F.module.relpath, F.qualname)
        selfname = _selfname(F)
        a = F.node.args
        params = [x.arg for x in a.posonlyargs + a.args]
        memo = params[1] if len(params) > 1 else None
        loop = _vars_loop(F, selfname)
        if loop is None:
            # reconstruction form: every deepcopy call must pass the memo
            calls = [x for x in walk_shallow(F.node) if isinstance(x, ast.Call) and (call_name(x) or "").split(".")[-1] == "deepcopy"]
            bad = [c for c in calls if not (len(c.args) >= 2 and isinstance(c.args[1], ast.Name) and c.args[1].id == memo)]
            if calls and not bad:
                rep.proved("R-C06-deep", where, "rebuilds the operator from state deep-copied with the memo")
            elif bad:
                rep.refuted("R-C06-deep", K.module.relpath, f"{K.name}.__deepcopy__", bad[0],
                            "deepcopy called without the memo: shared sub-objects are duplicated and cycles recurse forever")
            else:
                rep.unknown("R-C06-deep", where, "form of __deepcopy__ not modelled")
            continue
        loopnode, attrname, valname = loop
        news = _new_object_names(F)
        # memo[id(self)] = new  must be a top-level statement before the loop
        body = F.node.body
        pos_loop = next((i for i, st in enumerate(body) if st is loopnode), None)
        pos_memo = None
        for i, st in enumerate(body):
            if isinstance(st, ast.Assign) and len(st.targets) == 1 and isinstance(st.targets[0], ast.Subscript):
                t = st.targets[0]
                if isinstance(t.value, ast.Name) and t.value.id == memo and isinstance(t.slice, ast.Call) and isinstance(t.slice.func, ast.Name) \
                        and t.slice.func.id == "id" and len(t.slice.args) == 1 and isinstance(t.slice.args[0], ast.Name) and t.slice.args[0].id == selfname \
                        and isinstance(st.value, ast.Name) and st.value.id in news:
                    pos_memo = i
                    break
        before = len(rep.findings)
        if pos_loop is None:
            rep.unknown("R-C06-deep", where, "attribute loop is nested")
            continue
        if pos_memo is None or pos_memo > pos_loop:
            rep.refuted("R-C06-deep", K.module.relpath, f"{K.name}.__deepcopy__", loopnode,
                        f"{memo}[id({selfname})] is not registered before the attributes are deep-copied: an attribute that refers back to the "
                        "operator recurses without end / is copied twice")
        # every store in the loop body deep-copies the value, except the documented shallow names
        _deep_body(rep, K, loopnode.body, news, attrname, valname, memo, set())
        if len(rep.findings) == before:
            rep.proved("R-C06-deep", where, "memo registered first; every attribute deepcopy(value, memo) except " + ", ".join(sorted(SHALLOW_IN_DEEPCOPY)))
    rep.floor("custom __deepcopy__ methods", n, 3)


def _deep_body(rep, K, stmts, news, attrname, valname, memo, shallow_ok):
    for st in stmts:
        if isinstance(st, ast.If):
            names = None
            negated = False
            t = st.test
            if isinstance(t, ast.Compare) and len(t.ops) == 1 and isinstance(t.left, ast.Name) and t.left.id == attrname:
                if isinstance(t.ops[0], (ast.Eq, ast.NotEq)) and isinstance(t.comparators[0], ast.Constant):
                    names = {t.comparators[0].value}
                    negated = isinstance(t.ops[0], ast.NotEq)
                elif isinstance(t.ops[0], (ast.In, ast.NotIn)) and isinstance(t.comparators[0], (ast.Set, ast.List, ast.Tuple)):
                    nn = _str_tuple(ast.Tuple(elts=t.comparators[0].elts))
                    names = set(nn) if nn is not None else None
                    negated = isinstance(t.ops[0], ast.NotIn)
            if names is None:
                body_names = else_names = shallow_ok
            elif negated:   # `if attr != "_data": <general case> [continue]` … the named attribute is what follows / the else arm
                body_names, else_names = shallow_ok, names
            else:
                body_names, else_names = names, shallow_ok
            _deep_body(rep, K, st.body, news, attrname, valname, memo, body_names)
            _deep_body(rep, K, st.orelse, news, attrname, valname, memo, else_names)
            if not st.orelse and st.body and isinstance(st.body[-1], (ast.Continue, ast.Return)):
                shallow_ok = else_names  # the statements after the guard run only when the test failed
            continue
        value = None
        if isinstance(st, ast.Expr) and isinstance(st.value, ast.Call) and isinstance(st.value.func, ast.Name) and st.value.func.id == "setattr" \
                and len(st.value.args) == 3 and isinstance(st.value.args[0], ast.Name) and st.value.args[0].id in news:
            value = st.value.args[2]
        elif isinstance(st, ast.Assign) and any(isinstance(t, ast.Attribute) and isinstance(t.value, ast.Name) and t.value.id in news for t in st.targets):
            value = st.value
        if value is None:
            continue
        is_deep = isinstance(value, ast.Call) and (call_name(value) or "").split(".")[-1] == "deepcopy" and len(value.args) >= 2 \
            and isinstance(value.args[0], ast.Name) and value.args[0].id == valname and isinstance(value.args[1], ast.Name) and value.args[1].id == memo
        if is_deep:
            continue
        if shallow_ok and shallow_ok <= SHALLOW_IN_DEEPCOPY:
            continue  # named exception: _data is documented as shallow
        which = f"attribute(s) {sorted(shallow_ok)}" if shallow_ok else "every attribute"
        rep.refuted("R-C06-deep", K.module.relpath, f"{K.name}.__deepcopy__", st,
                    f"{which} stored on the deep copy as `{norm(value)[:60]}` instead of deepcopy({valname}, {memo}): the copy shares mutable state "
                    "with the original")
