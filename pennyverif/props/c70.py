"""C70 — default.clifford: the PennyLane -> Stim translation table is the device's acceptance predicate (E5).

R-C70-table  every key of ``devices/default_clifford.py:_OPERATIONS_MAP`` with a Stim instruction is a Clifford
             gate / Pauli channel carrying the *same* action under that Stim name; a key the reference knows
             to be non-Clifford is refuted; a key without Stim instruction (``None``) must be handled by the
             simulation loop (or be the identity channel) wherever the acceptance predicate lets it through.
"""

from __future__ import annotations

import ast

from .. import tables as T
from ..cfg import CFG, walk_shallow
from ..core import AnalysisError, Report, norm
from ..index import ClassInfo, FuncInfo

MOD = "pennylane/devices/default_clifford.py"
TABLE = "_OPERATIONS_MAP"
R = "R-C70-table"
RL = "R-C70-lookup"


def _predicate_is_plain_membership(ix, m, table):
    """``operation_stopping_condition(op)`` is exactly ``op.name in <table>`` -> True / False (other form) / None."""
    f = ix.maybe_func(MOD, "operation_stopping_condition")
    if f is None:
        return None, None
    body = [s for s in f.node.body if not (isinstance(s, ast.Expr) and isinstance(s.value, ast.Constant))]
    if len(body) != 1 or not isinstance(body[0], ast.Return) or not f.node.args.args:
        return None, f
    p = f.node.args.args[0].arg
    e = body[0].value
    if isinstance(e, ast.Compare) and len(e.ops) == 1 and isinstance(e.ops[0], ast.In) and norm(e.left) == f"{p}.name":
        ks = T.key_set_expr(ix, m, e.comparators[0])
        if ks is not None and not ks[1] and len(ks[0]) == 1 and T.same_table(ks[0][0], table):
            return True, f
    return False, f


def _none_branch(ix, m, sim: FuncInfo, translate: FuncInfo):
    """The gate loop of ``simulate``: ``for op in …: gate, … = _pl_op_to_stim(op); if gate is not None: … else: <here>``.

    -> (loop var, statements run when the Stim instruction is None, the ``if`` node) or None.
    """
    for loop in [n for n in walk_shallow(sim.node) if isinstance(n, ast.For)]:
        if not isinstance(loop.target, ast.Name):
            continue
        var = loop.target.id
        gate = None
        for st in loop.body:
            if isinstance(st, ast.Assign) and isinstance(st.value, ast.Call) and len(st.targets) == 1:
                r = ix.resolve_expr(m, st.value.func)
                if r is translate and st.value.args and norm(st.value.args[0]) == var:
                    t = st.targets[0]
                    if isinstance(t, ast.Tuple) and t.elts and isinstance(t.elts[0], ast.Name):
                        gate = t.elts[0].id
            if gate is None or not isinstance(st, ast.If):
                continue
            test = st.test
            if isinstance(test, ast.Compare) and len(test.ops) == 1 and norm(test.left) == gate and norm(test.comparators[0]) == "None":
                rest = loop.body[loop.body.index(st) + 1:]
                ends = bool(st.body) and isinstance(st.body[-1], (ast.Continue, ast.Return, ast.Raise))
                if isinstance(test.ops[0], ast.IsNot):
                    # `if gate is not None: …; continue` followed by the None handling, or the if/else form
                    if not st.orelse and ends:
                        return var, rest, st, loop
                    return var, st.orelse, st, loop
                if isinstance(test.ops[0], ast.Is):
                    return var, st.body, st, loop
    return None


def _handlers(ix, m, var, stmts):
    """Branches of the None branch:  ``if isinstance(op, C): <body>``.

    -> ([(class, action)], raises unconditionally, unresolved tests) with action "raise" (the body raises: the operator
    is rejected loudly), "use" (the body does something with the operator) or None (``pass`` / ``continue`` / a body
    that never mentions the operator: nothing is handled).
    """
    found, raises, unresolved = [], False, []
    for st in stmts:
        if isinstance(st, ast.Raise):
            raises = True
    for st in stmts:
        for n in ast.walk(st):
            if isinstance(n, ast.If):
                tests = n.test.values if isinstance(n.test, ast.BoolOp) and isinstance(n.test.op, ast.Or) else [n.test]
                for t in tests:
                    if isinstance(t, ast.Call) and isinstance(t.func, ast.Name) and t.func.id == "isinstance" and len(t.args) == 2 and norm(t.args[0]) == var:
                        cl = t.args[1].elts if isinstance(t.args[1], ast.Tuple) else [t.args[1]]
                        if any(isinstance(s_, ast.Raise) for s_ in n.body):
                            action = "raise"
                        elif any(isinstance(x, ast.Name) and x.id == var and isinstance(x.ctx, ast.Load) for s_ in n.body for x in ast.walk(s_)):
                            action = "use"
                        else:
                            action = None
                        for c in cl:
                            r = ix.resolve_expr(m, c)
                            if isinstance(r, ClassInfo):
                                if action:
                                    found.append((r, action))
                            else:
                                unresolved.append(norm(c))
                    else:
                        unresolved.append(norm(t)[:50])
    return found, raises, unresolved


def _virtual_bases(ix, h: ClassInfo):
    """Classes K such that ``H.__subclasshook__`` makes every subclass of K an instance of H.

    Modelled form (``core/operator/state_prep.py``):  ``if cls is H and issubclass(subclass, K): return True`` followed by
    ``return NotImplemented``.  -> list of ClassInfo, or None when H has an own hook of another form.
    """
    for hook in ("__instancecheck__",):
        if h.own_method(hook) is not None:
            return None
    f = h.own_method("__subclasshook__")
    if f is None:
        return []
    sub = f.node.args.args[1].arg if len(f.node.args.args) > 1 else None
    body = [s_ for s_ in f.node.body if not (isinstance(s_, ast.Expr) and isinstance(s_.value, ast.Constant))]
    out = []
    for s_ in body:
        if isinstance(s_, ast.Return) and norm(s_.value) == "NotImplemented":
            continue
        if isinstance(s_, ast.If) and not s_.orelse and len(s_.body) == 1 and isinstance(s_.body[0], ast.Return) and norm(s_.body[0].value) == "True" \
                and isinstance(s_.test, ast.BoolOp) and isinstance(s_.test.op, ast.And) and len(s_.test.values) == 2:
            g, t = s_.test.values
            if norm(g) == f"cls is {h.name}" and isinstance(t, ast.Call) and norm(t.func) == "issubclass" and len(t.args) == 2 and norm(t.args[0]) == sub:
                k = ix.resolve_expr(h.module, t.args[1])
                if isinstance(k, ClassInfo):
                    out.append(k)
                    continue
        return None
    return out


def _is_instance(ix, cls: ClassInfo, h: ClassInfo):
    """Would ``isinstance(<instance of cls>, h)`` hold?  True / False / None (hooks this analysis does not model)."""
    if h in cls.mro():
        return True
    vb = _virtual_bases(ix, h)
    if vb is None:
        return None
    if any(k in cls.mro() for k in vb):
        return True
    # hooks inherited by h must be guarded by ``cls is <Base>`` (they then say nothing about h itself)
    for c in h.mro()[1:]:
        for hook in ("__subclasshook__", "__instancecheck__"):
            f = c.own_method(hook)
            if f is not None and not any(isinstance(n, ast.Compare) and norm(n) == f"cls is {c.name}" for n in ast.walk(f.node)):
                return None
    return False


# ---------------------------------------------------------------------------------------------
# R-C70-lookup: every translating read of the table fails loudly for a name that is not a key

_CATCHES_KEYERROR = {"KeyError", "LookupError", "Exception", "BaseException"}


def _handler_catches_keyerror(h: ast.ExceptHandler):
    if h.type is None:
        return True
    ts = h.type.elts if isinstance(h.type, ast.Tuple) else [h.type]
    return any((t.id if isinstance(t, ast.Name) else getattr(t, "attr", None)) in _CATCHES_KEYERROR for t in ts)


def _reaches_normal_exit(cfg: CFG, starts, keyerror_in_flight):
    """Is the function's normal exit (return / fall off the end) reachable from ``starts``?

    While ``keyerror_in_flight`` (we follow the exceptional edge of a failed subscript) an ``except_dispatch`` node
    only continues into handlers that catch KeyError, or outwards when none does.  -> a witness path (lines) or None.
    """
    seen = {}
    stack = [(s, keyerror_in_flight, None) for s in starts]
    while stack:
        n, flying, prev = stack.pop()
        if (n, flying) in seen:
            continue
        seen[(n, flying)] = prev
        if n == cfg.exit:
            out, cur = [], (n, flying)
            while cur is not None:
                node = cfg.nodes[cur[0]]
                if node.stmt is not None and node.line:
                    out.append(node.line)
                cur = seen[cur]
            return out[::-1] or [0]
        node = cfg.nodes[n]
        succ = cfg.succ[n]
        if node.kind == "except_dispatch" and flying:
            catching = [(t, lab) for t, lab in succ if lab == "caught" and _handler_catches_keyerror(cfg.nodes[t].stmt)]
            succ = catching if catching else [(t, lab) for t, lab in succ if lab == "uncaught"]
        for t, lab in succ:
            nf = flying
            if cfg.nodes[t].kind == "except":
                nf = False  # caught: from here on normal control flow of the handler
            elif lab in ("raise",):
                nf = False  # a new exception (not necessarily KeyError): follow every handler
            stack.append((t, nf, (n, flying)))
    return None


def _owner_func(ix, m, node):
    best = None
    for f in ix.funcs_in(m):
        if f.node.lineno <= node.lineno <= (f.node.end_lineno or 0) and any(x is node for x in ast.walk(f.node)):
            if best is None or f.node.lineno >= best.node.lineno:
                best = f
    return best


def _check_lookups(ix, rep, m, tab):
    parents = {}
    for p_ in ast.walk(m.tree):
        for c in ast.iter_child_nodes(p_):
            parents[c] = p_
    reads = [n for n in ast.walk(m.tree) if isinstance(n, ast.Name) and n.id == tab.name and isinstance(n.ctx, ast.Load)
             and T.same_table(T.resolve_table_expr(ix, m, n), tab)]
    n_reads = n_translating = 0
    cfgs = {}
    for n in reads:
        par = parents.get(n)
        # `T.keys()` is the same key set as T
        expr = n
        if isinstance(par, ast.Attribute) and par.attr == "keys" and isinstance(parents.get(par), ast.Call):
            expr = parents[par]
            par = parents.get(expr)
        if isinstance(par, ast.Subscript) and par.value is n and not isinstance(par.ctx, ast.Load):
            continue  # module-level  T[k] = v  (part of the table, read by E5)
        n_reads += 1
        f = _owner_func(ix, m, n)
        qn = f.qualname if f else "<module>"
        where = f"{m.relpath}:{qn} {norm(par)[:70] if par is not None else tab.name}"
        # ---- uses that define the accepted set, not a translation ---------------------------
        up, kwarg = par, None
        while up is not None and not isinstance(up, ast.stmt):
            if isinstance(up, ast.keyword):
                kwarg = up.arg
            up = parents.get(up)
        if kwarg == "target_gates":
            rep.exempt(RL, where, "key set handed to the decomposition as target_gates")
            continue
        is_membership = isinstance(par, ast.Compare) and len(par.ops) == 1 and isinstance(par.ops[0], (ast.In, ast.NotIn)) and par.comparators[0] is expr
        if is_membership and f is not None and isinstance(up, ast.Return):
            body = [s_ for s_ in f.node.body if not (isinstance(s_, ast.Expr) and isinstance(s_.value, ast.Constant))]
            if len(body) == 1 and body[0] is up:
                rep.exempt(RL, where, "acceptance predicate (its value is the answer; nothing is translated)")
                continue
        if f is None:
            rep.unknown(RL, where, "read at module level")
            continue
        n_translating += 1
        rep.analysed(m.relpath, qn)
        if f not in cfgs:
            def may_raise(st, _t=tab):
                return any(isinstance(x, ast.Subscript) and isinstance(x.ctx, ast.Load) and isinstance(x.value, ast.Name) and x.value.id == _t.name
                           for x in walk_shallow(st))
            cfgs[f] = CFG(f.node, may_raise=may_raise)
        cfg = cfgs[f]

        def node_of(stmt_pred):
            return [nd for nd in cfg.nodes.values() if nd.stmt is not None and stmt_pred(nd)]

        def holder(x):
            """CFG node whose own (shallow) statement/test contains AST node x"""
            for nd in cfg.nodes.values():
                if nd.stmt is None or nd.kind in ("except_dispatch", "finally", "join", "try", "def"):
                    continue
                scope = nd.stmt.test if nd.kind == "test" else (nd.stmt.iter if nd.kind == "for" else nd.stmt)
                if isinstance(nd.stmt, (ast.If, ast.While)) and nd.kind != "test":
                    continue
                if isinstance(scope, ast.ExceptHandler):
                    continue
                if any(y is x for y in walk_shallow(scope)):
                    return nd
            return None

        if isinstance(par, ast.Subscript) and par.value is n:
            nd = holder(par)
            if nd is None:
                rep.unknown(RL, where, "subscript not located in the function's control-flow graph (nested scope)")
                continue
            # is the subscript dominated by a membership guard?  then a missing key cannot reach it
            exc = [t for t, lab in cfg.succ[nd.id] if lab == "exc"]
            path = _reaches_normal_exit(cfg, exc, True) if exc else None
            if path is None:
                rep.proved(RL, where, f"`{norm(par)}`: a missing key raises KeyError which propagates or is converted into a raise on every path")
            else:
                rep.refuted(RL, m.relpath, qn, norm(parents.get(par) if isinstance(parents.get(par), ast.stmt) else par),
                            f"the KeyError of `{norm(par)}` for a name outside {tab.name} is swallowed: the function still returns normally "
                            f"(path L{' -> L'.join(map(str, path))}), so an operator the table does not know is translated to nothing instead of being rejected",
                            line=par.lineno)
        elif isinstance(par, ast.Attribute) and par.value is n and par.attr in ("get", "pop", "setdefault") and isinstance(parents.get(par), ast.Call):
            call = parents[par]
            st = call
            while st is not None and not isinstance(st, ast.stmt):
                st = parents.get(st)
            tgt = st.targets[0].id if isinstance(st, ast.Assign) and len(st.targets) == 1 and isinstance(st.targets[0], ast.Name) else None
            guarded = False
            if tgt is not None:
                for x in walk_shallow(f.node):
                    if isinstance(x, ast.If) and any(isinstance(y, ast.Name) and y.id == tgt for y in ast.walk(x.test)) \
                            and any(isinstance(y, ast.Raise) for b in (x.body, x.orelse) for s_ in b for y in ast.walk(s_)):
                        guarded = True
            if guarded:
                rep.unknown(RL, where, f"`{norm(call)}` followed by a test of `{tgt}` that raises: not decided")
            else:
                rep.refuted(RL, m.relpath, qn, norm(st) if st is not None else norm(call),
                            f"`{norm(call)}` yields {'the default' if len(call.args) > 1 or call.keywords else 'None'} for a name outside {tab.name} and nothing raises: "
                            f"an operator the device does not know (e.g. T / RX / Toffoli on a check_clifford=False device) gets no Stim instruction and is silently "
                            f"skipped by the gate loop instead of being rejected", line=call.lineno)
        elif is_membership:
            ifnode = parents.get(par)
            negated = False
            if isinstance(ifnode, ast.UnaryOp) and isinstance(ifnode.op, ast.Not):
                negated, ifnode = True, parents.get(ifnode)
            if not isinstance(ifnode, ast.If) or (ifnode.test is not par and not (negated and isinstance(ifnode.test, ast.UnaryOp) and ifnode.test.operand is par)):
                rep.unknown(RL, where, "membership test is not the whole condition of an if statement")
                continue
            missing_label = "true" if isinstance(par.ops[0], ast.NotIn) != negated else "false"
            tn = next((nd for nd in cfg.nodes.values() if nd.kind == "test" and nd.stmt is ifnode), None)
            if tn is None:
                rep.unknown(RL, where, "if statement not located in the control-flow graph")
                continue
            starts = [t for t, lab in cfg.succ[tn.id] if lab == missing_label]
            path = _reaches_normal_exit(cfg, starts, False)
            if path is None:
                rep.proved(RL, where, "the not-a-key branch raises on every path")
            else:
                rep.refuted(RL, m.relpath, qn, f"if {norm(ifnode.test)}",
                            f"when the name is not a key of {tab.name} the function carries on (path L{' -> L'.join(map(str, path))}) instead of raising: "
                            f"the operator is silently left out of the simulation", line=ifnode.lineno)
        else:
            rep.unknown(RL, where, "use of the table not modelled")
    rep.floor(f"reads of {tab.name} in the module", n_reads, 4)
    rep.floor(f"translating reads of {tab.name} decided", n_translating, 2)


def check(ctx):
    ix = ctx.index
    rep = Report("C70", "the table translating PennyLane operators to Stim instructions — which is also the device's acceptance "
                 "predicate — contains only Clifford gates / Pauli channels under the Stim name with the same action, and operators "
                 "accepted without a Stim instruction are handled by the simulation loop: nothing is silently mis-simulated.")
    rep.rule(R, "every key of _OPERATIONS_MAP with a non-None value is, in the checker's reference, a Clifford gate or Pauli channel whose Stim "
             "name (aliases resolved) equals the value; a key known to be non-Clifford is refuted; a None-valued key is either the identity "
             "channel or falls, in the branch of DefaultClifford.simulate's gate loop that runs when the Stim instruction is None, under an "
             "`if isinstance(op, C):` whose body uses the operator or raises (C a static or __subclasshook__-declared base of the key's class; "
             "`pass`/`continue` handle nothing), given that operation_stopping_condition accepts the name at any position")
    rep.rule(RL, "every read of _OPERATIONS_MAP that translates an operator for simulation fails loudly for a name that is not a key: a subscript whose "
             "KeyError propagates or is converted into a raise on every path (CFG), or a membership test whose not-a-key branch raises on every path; "
             "`.get(name[, default])` without a raising test of the result, a swallowed KeyError or a fall-through guard is refuted; the acceptance "
             "predicate and target_gates uses are exempt")
    rep.assume("Stim gate names and aliases as transcribed in pennyverif/tables.py (doc/gates.md, stim 1.13-1.16); a value that is not a Stim gate "
               "name is refuted only when the reference knows the key (and therefore the right name)")
    rep.assume("`Adjoint(X)` is the name of the adjoint of X; operation_stopping_condition is the predicate handed to the decompose transform")
    rep.assume("tableau results, sampling and measurement handlers are runtime behaviour and are not analysed")

    m = ix.module(MOD)
    rep.analysed(m.relpath)
    tab = T.extract_table(ix, m, TABLE)
    if tab.kind != "dict":
        raise AnalysisError(f"{TABLE} is no longer a dict display")
    entries = tab.effective()
    rep.floor(f"entries of {TABLE}", len(entries), 24)
    for why in tab.opaque:
        rep.unknown(R, f"{m.relpath}:{TABLE}", f"table is {why}: further entries are not visible")
    for e in tab.shadowed():
        rep.exempt(R, f"{m.relpath}:{tab.construct(e)} {e.text()}", "shadowed by a later entry with the same key")

    # ---- the acceptance predicate and the simulation loop -----------------------------------
    plain, pred = _predicate_is_plain_membership(ix, m, tab)
    if pred is not None:
        rep.analysed(m.relpath, pred.qualname)
    if plain:
        rep.proved(R, f"{m.relpath}:operation_stopping_condition", f"`op.name in {TABLE}`: the table is the acceptance predicate, at any position of the circuit")
    else:
        rep.unknown(R, f"{m.relpath}:operation_stopping_condition", "acceptance predicate is not the plain membership test: None-valued keys are not decided")
    translate = ix.func(MOD, "_pl_op_to_stim")
    sim = ix.func(MOD, "DefaultClifford.simulate")
    rep.analysed(m.relpath, sim.qualname)
    rep.analysed(m.relpath, translate.qualname)
    # the translation must be the plain lookup  TABLE[op.name]
    tparam = translate.node.args.args[0].arg if translate.node.args.args else "op"
    looks = [n for n in walk_shallow(translate.node) if isinstance(n, ast.Subscript) and isinstance(n.ctx, ast.Load) and norm(n.slice) == f"{tparam}.name"]
    looks_ok = [n for n in looks if T.same_table(T.resolve_table_expr(ix, m, n.value), tab)]
    if looks_ok and len(looks_ok) == len(looks):
        rep.proved(R, f"{m.relpath}:_pl_op_to_stim", f"Stim instruction = {TABLE}[op.name]")
    else:
        rep.unknown(R, f"{m.relpath}:_pl_op_to_stim", "the translation is not the plain table lookup")
    nb = _none_branch(ix, m, sim, translate) if looks_ok else None
    handlers, raises, unresolved = ([], False, [])
    prep_first = []
    if nb is not None:
        var, stmts, ifnode, loop = nb
        handlers, raises, unresolved = _handlers(ix, m, var, stmts)
        rep.extra["none_branch_handlers"] = sorted(f"{c.name}:{a}" for c, a in handlers)
        # state preparations handled before the loop:  isinstance(circuit[0], C)
        for n in walk_shallow(sim.node):
            if isinstance(n, ast.Call) and isinstance(n.func, ast.Name) and n.func.id == "isinstance" and len(n.args) == 2 \
                    and isinstance(n.args[0], ast.Subscript) and T.literal(n.args[0].slice) == (True, 0):
                r = ix.resolve_expr(m, n.args[1])
                if isinstance(r, ClassInfo):
                    prep_first.append(r)

    def none_verdict(e, kind_text, must_handle):
        """verdict for a key whose Stim instruction is None"""
        where = f"{m.relpath}:{tab.construct(e)} -> None"
        if nb is None:
            rep.unknown(R, where, "gate loop of DefaultClifford.simulate not recognised")
            return
        if not must_handle:
            rep.proved(R, where, f"{kind_text}: skipping it in the gate loop is exact")
            return
        cls, adj = T.pl_class_for_name(ix, e.key)
        if cls is None or adj:
            rep.unknown(R, where, f"class of {e.key!r} not resolved")
            return
        verdicts = [(h, act, _is_instance(ix, cls, h)) for h, act in handlers]
        hit = [(h, act) for h, act, v in verdicts if v is True]
        if hit:
            h, act = hit[0]
            rep.proved(R, where, f"{kind_text}: " + (f"rejected loudly in the None branch (isinstance(op, {h.name}) -> raise)" if act == "raise"
                                                      else f"handled in the None branch by isinstance(op, {h.name})"))
            return
        if raises:
            rep.proved(R, where, "the None branch raises for unhandled operators")
            return
        if unresolved or any(v is None for _, _, v in verdicts) or not plain:
            rep.unknown(R, where, f"None branch has tests this analysis does not resolve ({unresolved[:2]}) / predicate not plain")
            return
        first = [p.name for p in prep_first]
        rep.refuted(R, m.relpath, tab.construct(e), e.text(),
                    f"{e.key} ({kind_text}) is accepted by operation_stopping_condition at any position (`op.name in {TABLE}`), but in "
                    f"DefaultClifford.simulate's gate loop an operator without Stim instruction is only handled when it is an instance of "
                    f"{sorted(h.name for h, _ in handlers)}" + (f" (a state preparation is handled only as first operation: isinstance(circuit[0], {first[0]}))" if first else "")
                    + f": a {e.key} reaching the loop is silently dropped",
                    line=getattr(e.value_node, "lineno", 0))

    n_stim = n_none = 0
    for e in entries:
        if not isinstance(e.key, str) or not (e.value is None or isinstance(e.value, str)):
            rep.unknown(R, f"{m.relpath}:{TABLE} {e.text()[:60]}", "entry is not a literal str -> str | None pair")
            continue
        ref = T.PL_TO_STIM.get(e.key)
        nostim = T.PL_NO_STIM_INSTRUCTION.get(e.key)
        where = f"{m.relpath}:{tab.construct(e)} -> {e.value!r}"
        line = getattr(e.value_node, "lineno", 0)
        if e.value is None:
            n_none += 1
            if e.key in T.PL_NON_CLIFFORD:
                rep.refuted(R, m.relpath, tab.construct(e), e.text(), f"{e.key} is not a Clifford operation, yet the device accepts it (and skips it: no Stim instruction)", line=line)
            elif ref is not None:
                none_verdict(e, f"{ref[1]} with Stim instruction {ref[0]} but mapped to None", True)
            elif nostim is not None:
                text = {"phase": "global phase, visible in returned states", "snapshot": "snapshot request", "prep": "state preparation", "noop": "identity channel"}[nostim]
                none_verdict(e, text, nostim != "noop")
            else:
                rep.unknown(R, where, f"{e.key!r} is not in the checker's reference: whether skipping it is exact is unverified")
            continue
        n_stim += 1
        canon = T.stim_canonical(e.value)
        if e.key in T.PL_NON_CLIFFORD:
            rep.refuted(R, m.relpath, tab.construct(e), e.text(),
                        f"{e.key} is not a Clifford operation / Pauli channel: the device would accept it without decomposition and simulate it as Stim `{e.value}`", line=line)
        elif nostim is not None:
            rep.refuted(R, m.relpath, tab.construct(e), e.text(), f"{e.key} has no Stim instruction ({nostim}); sent to Stim as `{e.value}` it loses its handling in simulate", line=line)
        elif ref is None:
            rep.unknown(R, where, f"{e.key!r} is not in the checker's Clifford / Pauli-channel reference: unverified"
                        + ("" if canon else f" (and `{e.value}` is not a Stim gate name known to the checker)"))
        elif canon is None:
            rep.refuted(R, m.relpath, tab.construct(e), e.text(),
                        f"Stim has no gate named `{e.value}` (gate names of stim ≤ 1.16; `stim.Circuit('{e.value} 0')` raises \"Gate not found\"): "
                        f"the Stim name of {e.key} is `{ref[0]}`", line=line)
        elif canon != ref[0]:
            rep.refuted(R, m.relpath, tab.construct(e), e.text(), f"{e.key} is Stim `{ref[0]}`, but the table sends it as `{e.value}`"
                        + (f" (= `{canon}`)" if canon != e.value.upper() else "") + ": a different Clifford action is simulated", line=line)
        else:
            # a Channel gets "(p)" appended by _pl_op_to_stim: the class kind must agree with the Stim kind
            cls, adj = T.pl_class_for_name(ix, e.key)
            if cls is not None:
                is_channel = cls.is_subclass_of("Channel")
                if is_channel != (ref[1] == "noise"):
                    rep.unknown(R, where, f"{e.key} is {'a' if is_channel else 'not a'} Channel subclass while Stim `{canon}` is a {ref[1]} instruction")
                    continue
            rep.proved(R, where, f"{e.key} = Stim {canon}" + (f" (alias {e.value})" if canon != e.value.upper() else "") + f" [{ref[1]}]")
    _check_lookups(ix, rep, m, tab)
    rep.floor("literal entries classified (with / without Stim instruction)", n_stim + n_none, 24)
    rep.extra["entries"] = {"with_stim_instruction": n_stim, "without": n_none}
    from .c70_extra import memos, shared

    shared(ctx, rep)
    memos(ctx, rep)
    return rep
