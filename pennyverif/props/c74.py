"""C74 — Pauli tracking: propagating a Pauli frame through H, S, CNOT is the symplectic action of the gate (E5).

R-C74-symp  ``ftqc/pauli_tracker.py``: the return tuples of ``_commute_h/_commute_s/_commute_cnot`` are read off the
            AST as GF(2)-linear maps of their bit parameters and — composed with the way ``commute_clifford_op``
            binds ``xz[i]`` to those parameters — must equal the symplectic matrix of the gate the branch is
            guarded by; ``_OPS_TO_XZ`` / ``_XZ_TO_OPS`` are the standard encoding and mutually inverse; every gate
            of ``_CLIFFORD_GATES_SUPPORTED`` has a branch.  The maps are linear over a finite space, so equality
            of the matrices decides  C P C^dagger = P'  (up to phase) for every frame.
"""

from __future__ import annotations

import ast

from .. import tables as T
from ..cfg import walk_shallow
from ..core import AnalysisError, Report, norm
from ..index import ClassInfo, FuncInfo

MOD = "pennylane/ftqc/pauli_tracker.py"
R = "R-C74-symp"


def _positional_map(params, rows):
    """helper rows (sets of parameter names) -> rows as sets of parameter positions"""
    pos = {p: i for i, p in enumerate(params)}
    return tuple(frozenset(pos[n] for n in r) for r in rows)


def _branches(ix, m, f: FuncInfo):
    """``if isinstance(<op param>, G): <unpack xz[i]>; return helper(args)`` at the top level of the dispatcher.

    -> list of (gate class | None, if-node, binding dict name -> flat input index, return-call | None, why)
    """
    a = f.node.args.args
    if len(a) < 2:
        return None
    opp, xzp = a[0].arg, a[1].arg
    out = []
    for st in f.node.body:
        if not isinstance(st, ast.If) or st.orelse:
            continue
        t = st.test
        if not (isinstance(t, ast.Call) and isinstance(t.func, ast.Name) and t.func.id == "isinstance" and len(t.args) == 2 and norm(t.args[0]) == opp):
            continue
        if isinstance(t.args[1], ast.Tuple):
            out.append((None, st, {}, None, "isinstance against a tuple of gates"))
            continue
        g = ix.resolve_expr(m, t.args[1])
        if not isinstance(g, ClassInfo):
            out.append((None, st, {}, None, f"gate `{norm(t.args[1])}` not resolved"))
            continue
        bind, call, why = {}, None, ""
        for s in st.body:
            if isinstance(s, ast.Assign) and len(s.targets) == 1 and isinstance(s.value, ast.Subscript) and norm(s.value.value) == xzp:
                ok, i = T.literal(s.value.slice)
                tg = s.targets[0]
                if ok and isinstance(i, int) and i >= 0 and isinstance(tg, ast.Tuple) and len(tg.elts) == 2 and all(isinstance(x, ast.Name) for x in tg.elts):
                    bind[tg.elts[0].id] = 2 * i
                    bind[tg.elts[1].id] = 2 * i + 1
                    continue
                why = f"`{norm(s)}` not modelled"
            elif isinstance(s, ast.Return) and isinstance(s.value, ast.Call):
                call = s
            elif isinstance(s, ast.Expr) and isinstance(s.value, ast.Constant):
                continue
            else:
                why = f"`{norm(s)[:50]}` not modelled"
        out.append((g, st, bind, call, why))
    return out


def _arg_index(e, bind, xzp):
    """flat input index denoted by a call argument: a bound name, or ``xz[i][j]`` directly"""
    if isinstance(e, ast.Name):
        return bind.get(e.id)
    if isinstance(e, ast.Subscript) and isinstance(e.value, ast.Subscript) and norm(e.value.value) == xzp:
        ok1, i = T.literal(e.value.slice)
        ok2, j = T.literal(e.slice)
        if ok1 and ok2 and isinstance(i, int) and j in (0, 1) and i >= 0:
            return 2 * i + j
    return None


def check(ctx):
    ix = ctx.index
    rep = Report("C74", "propagating Pauli byproducts through the supported Clifford gates satisfies C P C^dagger = P' (up to phase, "
                 "as the xz encoding documents) for every Pauli frame.")
    rep.rule(R, "for every gate G that commute_clifford_op dispatches on, helper ∘ (binding of xz[i] to the helper's parameters), read as a GF(2) "
             "matrix over (x0,z0,x1,z1), equals the symplectic matrix of G — H:(x,z)->(z,x); S:(x,z)->(x,x^z); "
             "CNOT:(xc,zc,xt,zt)->(xc,zc^zt,xc^xt,zt); _OPS_TO_XZ is the standard encoding I=(0,0),X=(1,0),Y=(1,1),Z=(0,1) and _XZ_TO_OPS its "
             "inverse; xz_to_pauli/pauli_to_xz index them in (x, z) order; every gate of _CLIFFORD_GATES_SUPPORTED has its own branch")
    rep.assume("the frame is the exponent vector of X^x Z^z per wire, wires in the operator's wire order (control first for CNOT), "
               "and `new_xz = C xz C^dagger` as the docstring of commute_clifford_op states")
    rep.assume("graph-state conversion and the byproduct corrections per measurement history are runtime behaviour and are not analysed")

    m = ix.module(MOD)
    rep.analysed(m.relpath)

    # ---- encoding tables ------------------------------------------------------------------
    enc = T.extract_table(ix, m, "_OPS_TO_XZ")
    dec = T.extract_table(ix, m, "_XZ_TO_OPS")
    enc_map, dec_map = {}, {}
    for tab, fwd in ((enc, True), (dec, False)):
        for why in tab.opaque:
            rep.unknown(R, f"{m.relpath}:{tab.name}", f"table is {why}")
        for e in tab.effective():
            op_node, xz = (e.key_node, e.value) if fwd else (e.value_node, e.key)
            name, _cls = T.pl_name_of_expr(ix, m, op_node)
            where = f"{m.relpath}:{tab.construct(e)}"
            if name is None or not (isinstance(xz, tuple) and len(xz) == 2):
                rep.unknown(R, where, f"entry `{e.text()}` does not resolve to (Pauli class, (x, z) literal)")
                continue
            (enc_map if fwd else dec_map)[name] = (xz, e, tab)
            ref = T.PAULI_XZ.get(name)
            if ref is None:
                rep.unknown(R, where, f"{name} is not a Pauli of the reference encoding")
            elif tuple(xz) != ref:
                rep.refuted(R, m.relpath, tab.construct(e), e.text(),
                            f"{name} is encoded as {tuple(xz)}; with P ~ X^x Z^z the encoding of {name} is {ref}"
                            + ("" if fwd else " (decoding table)") + ": frames are recorded / corrections applied as the wrong Pauli",
                            line=getattr(e.value_node, "lineno", 0))
            else:
                rep.proved(R, where, f"{name} <-> {ref}")
    rep.floor("entries of _OPS_TO_XZ and _XZ_TO_OPS", len(enc_map) + len(dec_map), 8)
    for name in sorted(set(enc_map) | set(dec_map)):
        a, b = enc_map.get(name), dec_map.get(name)
        where = f"{m.relpath}:_XZ_TO_OPS[_OPS_TO_XZ[{name}]]"
        if a is None or b is None:
            miss = "_OPS_TO_XZ" if a is None else "_XZ_TO_OPS"
            have = (b or a)
            rep.refuted(R, m.relpath, have[2].construct(have[1]), have[1].text(), f"{name} has an entry in {have[2].name} but none in {miss}: the two tables are not inverse to each other")
        elif tuple(a[0]) != tuple(b[0]):
            if T.PAULI_XZ.get(name) in (tuple(a[0]), tuple(b[0])):
                continue  # the deviating side has been refuted against the reference above
            rep.refuted(R, m.relpath, b[2].construct(b[1]), b[1].text(), f"_OPS_TO_XZ[{name}] = {tuple(a[0])} but _XZ_TO_OPS[{tuple(b[0])}] = {name}: not inverse")
        else:
            rep.proved(R, where, "round trip is the identity", nontrivial=False)

    # ---- accessors index the tables in (x, z) order -------------------------------------------
    f = ix.func(MOD, "xz_to_pauli")
    rep.analysed(m.relpath, f.qualname)
    ps = [a.arg for a in f.node.args.args]
    subs = [n for n in walk_shallow(f.node) if isinstance(n, ast.Subscript) and T.same_table(T.resolve_table_expr(ix, m, n.value), dec)]
    for n in subs:
        if isinstance(n.slice, ast.Tuple) and len(n.slice.elts) == 2 and all(isinstance(x, ast.Name) for x in n.slice.elts) and len(ps) >= 2:
            got = [x.id for x in n.slice.elts]
            if got == ps[:2]:
                rep.proved(R, f"{m.relpath}:xz_to_pauli {norm(n)}", "decoding key is (x, z) in parameter order")
            elif got == ps[:2][::-1]:
                rep.refuted(R, m.relpath, "xz_to_pauli", norm(n), f"_XZ_TO_OPS is indexed with ({got[0]}, {got[1]}) — the (x, z) pair swapped: X and Z corrections are exchanged", line=n.lineno)
            else:
                rep.unknown(R, f"{m.relpath}:xz_to_pauli {norm(n)}", "key is not built from the two parameters")
        else:
            rep.unknown(R, f"{m.relpath}:xz_to_pauli {norm(n)}", "key form not modelled")

    # ---- helpers as GF(2) maps ----------------------------------------------------------------
    disp = ix.func(MOD, "commute_clifford_op")
    rep.analysed(m.relpath, disp.qualname)
    branches = _branches(ix, m, disp)
    if not branches:
        raise AnalysisError("commute_clifford_op no longer dispatches with `if isinstance(clifford_op, G): … return helper(…)` branches")
    xzp = disp.node.args.args[1].arg
    helper_cache = {}
    dispatched = {}
    n_gates = 0
    for g, ifnode, bind, ret, why in branches:
        if g is None:
            rep.unknown(R, f"{m.relpath}:commute_clifford_op {norm(ifnode.test)}", why)
            continue
        gname = g.name
        where = f"{m.relpath}:commute_clifford_op[{gname}]"
        dispatched.setdefault(gname, ifnode)
        ref = T.SYMPLECTIC.get(gname)
        if ref is None:
            rep.unknown(R, where, f"no symplectic reference for {gname}")
            continue
        if ret is None or why:
            rep.unknown(R, where, why or "branch does not end in `return helper(...)`")
            continue
        call = ret.value
        h = ix.resolve_expr(m, call.func)
        if not isinstance(h, FuncInfo) or call.keywords or any(isinstance(x, ast.Starred) for x in call.args):
            rep.unknown(R, where, f"callee `{norm(call.func)}` not resolved / call shape not positional")
            continue
        n_gates += 1
        if h not in helper_cache:
            helper_cache[h] = T.gf2_outputs(h.node)
            rep.analysed(h.module.relpath, h.qualname)
        params, rows, groups, hret = helper_cache[h]
        if rows is None:
            rep.unknown(R, where, f"{h.qualname}: {groups}")
            continue
        args = [_arg_index(x, bind, xzp) for x in call.args]
        if len(args) != len(params) or any(x is None for x in args):
            rep.unknown(R, where, f"arguments of `{norm(call)}` are not bound to xz[i] components")
            continue
        n = len(ref)
        if len(rows) != n or sum(groups) != n or any(gsz != 2 for gsz in groups):
            rep.refuted(R, h.module.relpath, h.qualname, hret,
                        f"{h.qualname} returns {len(rows)} bit(s) in groups {groups} for {gname}, which acts on {n // 2} wire(s) = {n} frame bits", line=hret.lineno)
            continue
        env = dict(zip(params, args))
        composed = tuple(frozenset_xor(env[p] for p in r) for r in rows)
        names = ["x", "z"] if n == 2 else ["xc", "zc", "xt", "zt"]
        if composed == ref:
            rep.proved(R, where, f"{h.qualname} ∘ binding = {T.symplectic_text(ref, names)}")
            continue
        # blame: the helper read positionally (x, z per wire in wire order) or the dispatcher's binding
        positional = _positional_map(params, rows)
        if positional == ref:
            rep.refuted(R, m.relpath, "commute_clifford_op", ret,
                        f"{gname} frames are passed to {h.qualname} as {tuple(names[i] for i in args)}: the propagated frame is {T.symplectic_text(composed, names)}, "
                        f"the symplectic action of {gname} is {T.symplectic_text(ref, names)}", line=ret.lineno)
        elif any(v == positional for v in T.SYMPLECTIC.values()):
            other = next(k for k, v in T.SYMPLECTIC.items() if v == positional)
            rep.refuted(R, m.relpath, "commute_clifford_op", ret,
                        f"{gname} is propagated by {h.qualname}, which implements the action of {other} ({T.symplectic_text(positional, names)}); "
                        f"conjugation by {gname} maps {T.symplectic_text(tuple(frozenset({i}) for i in range(n)), names)} to {T.symplectic_text(ref, names)}",
                        line=ret.lineno)
        else:
            rep.refuted(R, h.module.relpath, h.qualname, hret,
                        f"{gname} is propagated by {h.qualname} as {T.symplectic_text(composed, names)}"
                        f"; conjugation by {gname} maps {T.symplectic_text(tuple(frozenset({i}) for i in range(n)), names)} to {T.symplectic_text(ref, names)}",
                        line=hret.lineno)
    rep.floor("Clifford gates dispatched to a GF(2) helper", n_gates, 3)

    # ---- every supported gate has its own branch ------------------------------------------------
    sup = T.extract_table(ix, m, "_CLIFFORD_GATES_SUPPORTED")
    ends_in_raise = bool(disp.node.body) and isinstance(disp.node.body[-1], ast.Raise)
    n_sup = 0
    for e in sup.entries:
        name, _c = T.pl_name_of_expr(ix, m, e.value_node)
        where = f"{m.relpath}:_CLIFFORD_GATES_SUPPORTED {norm(e.value_node)}"
        if name is None:
            rep.unknown(R, where, "entry does not resolve to an operator class")
            continue
        n_sup += 1
        if name in dispatched:
            rep.proved(R, where, f"commute_clifford_op has a branch for {name}", nontrivial=False)
        elif any(g is None for g, *_ in branches) or not ends_in_raise:
            rep.unknown(R, where, "dispatch form not fully modelled")
        else:
            rep.refuted(R, m.relpath, "_CLIFFORD_GATES_SUPPORTED", norm(e.value_node),
                        f"{name} is declared supported (and routed to commute_clifford_op by _get_xz_record) but commute_clifford_op has no branch for it", line=getattr(e.value_node, "lineno", 0))
    rep.floor("entries of _CLIFFORD_GATES_SUPPORTED", n_sup, 3)
    return rep


def frozenset_xor(items):
    acc = frozenset()
    for i in items:
        acc = acc ^ frozenset([i])
    return acc
